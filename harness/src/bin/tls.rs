//! Engine `tls` (C18, C19): the real `actix-tls` acceptors and connectors driven through the line
//! protocol.  See `lean/Driver/Tls.lean` for the model side and `props/C18.json`, `props/C19.json`.
//!
//! C19 cases (`case <name> kind=conn eps=L4,C4,..`): real loopback listeners / closed ports, the real
//! `ResolverService`, `TcpConnectorService`, `ConnectorService`, custom `Resolve` impls that log
//! their calls, and (kind=tlsconn) the real rustls-0.23 / OpenSSL connector services against
//! in-process TLS servers with run-time generated certificates.
//!
//! Construction paths.  `conn <base>[:<path>] …` / `tconn <lib>[:<path>] …`: the service is obtained from its
//! factory by `service()` (`s`), `ServiceFactory::new_service` (`f`), with a clone of the factory before
//! (`cs`, `cf`) or of the service after (`sc`, `fc`), constructed directly (`k`, `kc`) or from `Default`
//! (`d`, `ds`, `df`); `tconn <lib>[:<path>]#<slot>[c]` calls the connector service instance kept in a slot of the
//! case (built on first use, reused afterwards; `c` = a fresh clone of it): every call is judged on its own.  The oracle judges every op against the configuration the FACTORY was given.  Requests:
//! `s=` a `String`, `t=` a `&'static str`, `h=` a custom `Host` impl, `u=` / `v=` an `http::Uri` (http 1 / http 0.2,
//! actix-tls feature `uri`; expected hostname and port from `parse_uri_text` + `WELL_KNOWN_PORTS`, an independent
//! table); `from` = `ConnectInfo::from`.
//!
//! C18 cases (`case <name> kind=acc max=<n|default> tmo=<ms|default>`): the header builds factory 0
//! (`Acceptor::new`, `set_handshake_timeout`) and service 0 of both flavours; `fnew` / `fset f ms` / `fclone f` /
//! `fsvc f` create, configure, clone factories and build further services on the same thread;
//! `poll k [w]` polls accept future `k` from task `w` (0..2, distinct wakers; the task that polled last owns it);
//! `call <lib> <cli> [s]` goes through service `s`; the header's limit is configured on the harness MAIN thread before
//! the case's thread exists (`set=self`: on the case's thread); `setmax n` = `max_concurrent_tls_connect(n)` once the
//! thread's counter exists (no effect there), `probe` = the limit a freshly spawned thread gets; `ready [w]` asks every service for readiness from task `w`
//! (0..2, distinct wakers; `r=<mask>` in the observations = which of these tasks have been woken).  The deadline the oracle holds a call to is computed from
//! its own bookkeeping of the configuration history, never read back from the crate.
#![allow(dropping_copy_types)] // `build_svc!` drops the original of every clone, also of the `Copy` TCP connector
use std::{
    cell::RefCell,
    io::Write,
    net::{IpAddr, SocketAddr, TcpListener},
    rc::Rc,
    time::Duration,
};

use actix_service::Service;
use actix_tls::connect::{
    tcp::{TcpConnector, TcpConnectorService},
    ConnectError, ConnectInfo, Connector, ConnectorService, Host, Resolve, Resolver, ResolverService,
};
use futures_core::future::LocalBoxFuture;
use vh::*;

mod conn {
    use super::*;

    /// endpoint kinds of a `kind=conn` case
    #[derive(Clone, Copy, PartialEq, Debug)]
    pub enum EpKind {
        L4,
        C4,
        L6,
        C6,
    }

    pub struct Ep {
        pub kind: EpKind,
        pub addr: SocketAddr,
        pub listener: Option<TcpListener>,
        /// sockets that are bound (so nobody else can get the port while the case runs) but never listen, so
        /// every connect is refused: a closed endpoint's own address, and the endpoint's port on the other
        /// loopback addresses (see `SHADOW_IPS`)
        pub _reserved: Vec<socket2::Socket>,
    }

    pub fn parse_kind(s: &str) -> Option<EpKind> {
        Some(match s {
            "L4" => EpKind::L4,
            "C4" => EpKind::C4,
            "L6" => EpKind::L6,
            "C6" => EpKind::C6,
            _ => return None,
        })
    }

    pub fn make_ep(kind: EpKind, taken: &[u16]) -> std::io::Result<Ep> {
        let mut last = std::io::Error::new(std::io::ErrorKind::Other, "no distinct port");
        for _ in 0..200 {
            match make_ep1(kind) {
                // distinct port numbers inside one case (the two address families allocate independently)
                Ok(ep) if !taken.contains(&ep.addr.port()) => return Ok(ep),
                Ok(_) => {}
                // the port is taken on one of the other loopback addresses: try the next one
                Err(e) if e.raw_os_error() == Some(98) => last = e,
                Err(e) => return Err(e),
            }
        }
        Err(last)
    }

    /// Every address an op can dial with an endpoint's port number: the endpoint's own address plus the same
    /// port on the other loopback addresses the generators use (`127.0.0.1:@i` / `::1,@i` / `127.0.0.2:@i`
    /// whatever the family of endpoint i).  ALL of them are held for the lifetime of the case: the endpoint's
    /// own address by its listener (live) or by a bound, non-listening socket (closed), the others by bound,
    /// non-listening sockets.  A connect to a held, non-listening address is refused (ECONNREFUSED) and nobody
    /// else - a parallel check's listener, or the kernel picking the port as the SOURCE port of that very
    /// connect (loopback self-connect) - can get the port in the meantime.
    const SHADOW_IPS: [&str; 3] = ["127.0.0.1", "::1", "127.0.0.2"];

    fn reserve(addr: SocketAddr) -> std::io::Result<socket2::Socket> {
        use socket2::{Domain, Socket, Type};
        let s = Socket::new(if addr.is_ipv4() { Domain::IPV4 } else { Domain::IPV6 }, Type::STREAM, None)?;
        s.bind(&addr.into())?;
        Ok(s)
    }

    fn make_ep1(kind: EpKind) -> std::io::Result<Ep> {
        let bind: SocketAddr = match kind {
            EpKind::L4 | EpKind::C4 => "127.0.0.1:0".parse().unwrap(),
            EpKind::L6 | EpKind::C6 => "[::1]:0".parse().unwrap(),
        };
        let (addr, listener, mut reserved) = match kind {
            EpKind::L4 | EpKind::L6 => {
                let l = TcpListener::bind(bind)?;
                let addr = l.local_addr()?;
                l.set_nonblocking(true)?;
                (addr, Some(l), vec![])
            }
            _ => {
                let s = reserve(bind)?;
                let addr = s.local_addr()?.as_socket().unwrap();
                (addr, None, vec![s])
            }
        };
        for ip in SHADOW_IPS {
            let ip: IpAddr = ip.parse().unwrap();
            if ip != addr.ip() {
                // EADDRINUSE here = somebody holds this port on another loopback address: the caller takes another port
                reserved.push(reserve(SocketAddr::new(ip, addr.port()))?);
            }
        }
        Ok(Ep { kind, addr, listener, _reserved: reserved })
    }

    /// request type: a `String` or a `&'static str` (the crate's own `Host for String` / `Host for &'static str`)
    /// or a custom `Host` impl
    #[derive(Clone, Debug, PartialEq)]
    pub enum HostReq {
        S(String),
        T(&'static str),
        H(String, Option<u16>),
        /// `http::Uri` requests (actix-tls feature `uri`), http 1 and http 0.2, with the text they were parsed from
        U1(http_1::Uri, String),
        U0(http_0_2::Uri, String),
    }
    impl Host for HostReq {
        fn hostname(&self) -> &str {
            match self {
                HostReq::S(s) => Host::hostname(s),
                HostReq::T(s) => Host::hostname(s),
                HostReq::H(h, _) => h,
                HostReq::U1(u, _) => Host::hostname(u),
                HostReq::U0(u, _) => Host::hostname(u),
            }
        }
        fn port(&self) -> Option<u16> {
            match self {
                HostReq::S(s) => Host::port(s),
                HostReq::T(s) => Host::port(s),
                HostReq::H(_, p) => *p,
                HostReq::U1(u, _) => Host::port(u),
                HostReq::U0(u, _) => Host::port(u),
            }
        }
    }

    /// Reference for the oracle, written here and never read back from the code under test: the well-known
    /// port of a URI scheme (IANA service name and port registry; the registered defaults of the databases).
    pub const WELL_KNOWN_PORTS: &[(&str, u16)] = &[
        ("http", 80),       // RFC 9110
        ("https", 443),     // RFC 9110
        ("ws", 80),         // RFC 6455: ws uses port 80 ...
        ("wss", 443),       // ... and wss port 443
        ("amqp", 5672),     // IANA: amqp 5672
        ("amqps", 5671),    // IANA: amqps 5671
        ("mqtt", 1883),     // IANA: mqtt 1883
        ("mqtts", 8883),    // IANA: secure-mqtt 8883
        ("ftp", 21),        // IANA: ftp 21
        ("ftps", 990),      // IANA: ftps 990
        ("redis", 6379),    // IANA: redis 6379
        ("mysql", 3306),    // IANA: mysql 3306
        ("postgres", 5432), // IANA: postgresql 5432
    ];

    /// the parts of a URI op text: `<scheme>://<host>[:<port>][/<path>]`, `<host>[:<port>]`, `/<path>`
    /// (the op grammar, the same as the model driver's; a subset of what `http::Uri` accepts)
    pub struct UriText {
        pub scheme: Option<String>,
        pub host: Option<String>,
        pub port: Option<u16>,
    }
    pub fn parse_uri_text(s: &str) -> Option<UriText> {
        let host_ch = |c: char| c.is_ascii_lowercase() || c.is_ascii_digit() || c == '.' || c == '-';
        let path_ch = |c: char| host_ch(c) || c == '/' || c == '_';
        let authority = |a: &str| -> Option<(String, Option<u16>)> {
            let (h, rest) = if let Some(r) = a.strip_prefix("[::1]") { ("[::1]", r) } else { a.split_at(a.find(':').unwrap_or(a.len())) };
            if h.is_empty() || !(h == "[::1]" || h.chars().all(host_ch)) {
                return None;
            }
            if rest.is_empty() {
                return Some((h.to_string(), None));
            }
            let p = rest.strip_prefix(':')?;
            if p.is_empty() || p.len() > 5 || !p.chars().all(|c| c.is_ascii_digit()) || (p.len() > 1 && p.starts_with('0')) {
                return None;
            }
            Some((h.to_string(), Some(p.parse::<u32>().ok().filter(|v| *v <= 65535)? as u16)))
        };
        if s.is_empty() {
            return None;
        }
        if s.starts_with('/') {
            return if s.chars().all(path_ch) { Some(UriText { scheme: None, host: None, port: None }) } else { None };
        }
        let pre = &s[..s.find(':').unwrap_or(s.len())];
        let rest = &s[pre.len()..];
        if let Some(after) = rest.strip_prefix("://") {
            let auth = &after[..after.find('/').unwrap_or(after.len())];
            let path = &after[auth.len()..];
            let scheme_ok = s.chars().next().is_some_and(|c| c.is_ascii_lowercase())
                && pre.chars().all(|c| c.is_ascii_lowercase() || c.is_ascii_digit() || "+.-".contains(c))
                && pre.len() <= 64;
            if !scheme_ok || !path.chars().all(path_ch) {
                return None;
            }
            let (h, p) = authority(auth)?;
            Some(UriText { scheme: Some(pre.to_string()), host: Some(h), port: p })
        } else {
            let (h, p) = authority(s)?;
            Some(UriText { scheme: None, host: Some(h), port: p })
        }
    }

    impl HostReq {
        /// What the request's hostname and own port ARE, from the op text alone (the oracle's reference): the
        /// part of a host string before its first `:` and the part after it if that is a u16; a custom
        /// `Host`'s values; a URI's host (or `""`) and its explicit port, else the scheme's well-known port
        pub fn expected(&self) -> (String, Option<u16>) {
            let of_str = |h: &str| match h.split_once(':') {
                Some((n, p)) => (n.to_string(), p.parse::<u16>().ok()),
                None => (h.to_string(), None),
            };
            match self {
                HostReq::S(h) => of_str(h),
                HostReq::T(h) => of_str(h),
                HostReq::H(n, p) => (n.clone(), *p),
                HostReq::U1(_, text) | HostReq::U0(_, text) => {
                    let u = parse_uri_text(text).expect("checked when the op was parsed");
                    let by_scheme = u.scheme.as_deref().and_then(|s| WELL_KNOWN_PORTS.iter().find(|(n, _)| *n == s).map(|(_, p)| *p));
                    (u.host.unwrap_or_default(), u.port.or(by_scheme))
                }
            }
        }
        /// `s=` | `t=` | `u=` (http 1 `Uri`) | `v=` (http 0.2 `Uri`); `None` = not such a token / malformed
        pub fn of_token(subst: impl Fn(&str) -> Option<String>, w: &str) -> Option<HostReq> {
            if let Some(s) = w.strip_prefix("s=") {
                Some(HostReq::S(subst(s)?))
            } else if let Some(s) = w.strip_prefix("t=") {
                // `&'static str` request (leaked: a test process)
                Some(HostReq::T(Box::leak(subst(s)?.into_boxed_str())))
            } else if let Some(s) = w.strip_prefix("u=") {
                let text = subst(s)?;
                parse_uri_text(&text)?;
                Some(HostReq::U1(text.parse().ok()?, text))
            } else if let Some(s) = w.strip_prefix("v=") {
                let text = subst(s)?;
                parse_uri_text(&text)?;
                Some(HostReq::U0(text.parse().ok()?, text))
            } else {
                None
            }
        }
    }

    /// address template of a resolver script: endpoint, or ip + (fixed port | the port passed to lookup)
    #[derive(Clone, Debug)]
    pub enum AddrT {
        Fixed(SocketAddr),
        IpP(IpAddr),
    }

    pub struct ScriptResolver {
        pub script: Option<Vec<AddrT>>, // None = fail
        pub log: Rc<RefCell<Vec<(String, u16)>>>,
    }
    impl Resolve for ScriptResolver {
        fn lookup<'a>(
            &'a self,
            host: &'a str,
            port: u16,
        ) -> LocalBoxFuture<'a, Result<Vec<SocketAddr>, Box<dyn std::error::Error>>> {
            Box::pin(async move {
                self.log.borrow_mut().push((host.to_string(), port));
                tokio::task::yield_now().await; // exercise the Pending path of LookupCustom
                match &self.script {
                    None => Err("scripted resolver failure".into()),
                    Some(v) => Ok(v
                        .iter()
                        .map(|a| match a {
                            AddrT::Fixed(sa) => *sa,
                            AddrT::IpP(ip) => SocketAddr::new(*ip, port),
                        })
                        .collect()),
                }
            })
        }
    }

    pub struct Ctx {
        pub eps: Vec<Ep>,
    }

    impl Ctx {
        pub fn canon(&self, a: &SocketAddr) -> String {
            for (i, e) in self.eps.iter().enumerate() {
                if e.addr == *a {
                    return format!("e{i}");
                }
            }
            match a {
                SocketAddr::V4(v) => format!("{}:{}", v.ip(), self.canon_port(v.port())),
                SocketAddr::V6(v) => format!("[{}]:{}", v.ip(), self.canon_port(v.port())),
            }
        }
        /// a port number that is an endpoint's port is written `@<i>`
        pub fn canon_port(&self, p: u16) -> String {
            match self.eps.iter().position(|e| e.addr.port() == p) {
                Some(i) => format!("@{i}"),
                None => p.to_string(),
            }
        }
        /// `e<i>` | `ip:port` | `[v6]:port` | with `@i` for an endpoint's port
        pub fn parse_addr(&self, s: &str) -> Option<SocketAddr> {
            if let Some(i) = s.strip_prefix('e') {
                return self.eps.get(i.parse::<usize>().ok()?).map(|e| e.addr);
            }
            self.subst(s)?.parse().ok()
        }
        pub fn parse_addr_t(&self, s: &str) -> Option<AddrT> {
            if let Some(ip) = s.strip_suffix(":P") {
                let ip = ip.trim_start_matches('[').trim_end_matches(']');
                return Some(AddrT::IpP(ip.parse().ok()?));
            }
            self.parse_addr(s).map(AddrT::Fixed)
        }
        /// replace every `@<i>` by the decimal port of endpoint i, `~` alone is the empty string
        pub fn subst(&self, s: &str) -> Option<String> {
            if s == "~" {
                return Some(String::new());
            }
            let mut out = String::new();
            let cs: Vec<char> = s.chars().collect();
            let mut i = 0;
            while i < cs.len() {
                if cs[i] == '^' && cs.get(i + 1) == Some(&'_') {
                    // `^_` stands for a space (ops are whitespace-separated)
                    out.push(' ');
                    i += 2;
                } else if cs[i] == '@' {
                    let mut j = i + 1;
                    while j < cs.len() && cs[j].is_ascii_digit() {
                        j += 1;
                    }
                    if j == i + 1 {
                        return None;
                    }
                    let k: usize = cs[i + 1..j].iter().collect::<String>().parse().ok()?;
                    out.push_str(&self.eps.get(k)?.addr.port().to_string());
                    i = j;
                } else {
                    out.push(cs[i]);
                    i += 1;
                }
            }
            Some(out)
        }
        /// drain the accept queues: number of connections each live listener received
        pub fn accepts(&self, expect: Option<usize>) -> Vec<Option<usize>> {
            let mut out: Vec<Option<usize>> = self.eps.iter().map(|e| e.listener.as_ref().map(|_| 0)).collect();
            let t0 = std::time::Instant::now();
            loop {
                for (i, e) in self.eps.iter().enumerate() {
                    if let Some(l) = &e.listener {
                        while let Ok((s, _)) = l.accept() {
                            // close with RST: no TIME_WAIT entry is left behind (tens of thousands of them
                            // exhaust the ports a `bind(ip, 0)` before connect can pick from)
                            let _ = socket2::SockRef::from(&s).set_linger(Some(Duration::ZERO));
                            *out[i].as_mut().unwrap() += 1;
                        }
                    }
                }
                match expect {
                    // the connector reported a connection to listener `i`: its accept must show up
                    Some(i) if out.get(i).copied().flatten() == Some(0) && t0.elapsed() < Duration::from_secs(2) => {
                        std::thread::sleep(Duration::from_millis(2));
                    }
                    _ => break,
                }
            }
            out
        }
    }

    pub fn fmt_acc(v: &[Option<usize>]) -> String {
        let xs: Vec<String> = v.iter().map(|x| x.map(|n| n.to_string()).unwrap_or_else(|| "-".into())).collect();
        format!("[{}]", xs.join(","))
    }

    pub fn err_str(e: &ConnectError) -> String {
        match e {
            ConnectError::Resolver(_) => "resolver".into(),
            ConnectError::NoRecords => "norecords".into(),
            ConnectError::InvalidInput => "invalidinput".into(),
            ConnectError::Unresolved => "unresolved".into(),
            ConnectError::Io(e) => match e.raw_os_error() {
                Some(c) => format!("io:{c}"),
                None => format!("io:{:?}", e.kind()),
            },
        }
    }
}
use conn::*;

/// independent reference for one TCP connect (same socket calls as `connect/tcp.rs::connect`), used
/// by the T3 oracle only
async fn direct_connect(addr: SocketAddr, local: Option<IpAddr>) -> std::io::Result<tokio::net::TcpStream> {
    match local {
        Some(ip) => {
            let s = if ip.is_ipv4() { tokio::net::TcpSocket::new_v4()? } else { tokio::net::TcpSocket::new_v6()? };
            s.bind(SocketAddr::new(ip, 0))?;
            s.connect(addr).await
        }
        None => tokio::net::TcpStream::connect(addr).await,
    }
}

/// construction paths (`<base>:<path>`); `k`/`kc` only for `resolve`, `d*` only with the default resolver
const PATHS: [&str; 11] = ["s", "f", "cs", "cf", "sc", "fc", "k", "kc", "d", "ds", "df"];

/// Obtain a service from a factory along a construction path.  `$fac`: the configured factory
/// (`Connector::new(resolver)`, `Resolver::custom(r)`, `TcpConnector`, `TlsConnector::new(config)`);
/// `s` = the inherent `service()` method, `f` = `ServiceFactory::new_service`, `c` before = on a clone of
/// the factory (the original is dropped first), `c` after = a clone of the service (ditto);
/// `k` = the service constructed directly; `d` = `Default` of the service, `ds` / `df` = of the factory.
macro_rules! build_svc {
    ($path:expr, $req:ty, fac = $fac:expr, direct = $k:expr, dsvc = $dsvc:expr, dfac = $dfac:expr) => {{
        async {
            match $path {
                "s" => $fac.service(),
                "f" => actix_service::ServiceFactory::<$req>::new_service(&$fac, ()).await.unwrap(),
                "cs" => {
                    let a = $fac;
                    let b = a.clone();
                    drop(a);
                    b.service()
                }
                "cf" => {
                    let a = $fac;
                    let b = a.clone();
                    drop(a);
                    actix_service::ServiceFactory::<$req>::new_service(&b, ()).await.unwrap()
                }
                "sc" => {
                    let a = $fac.service();
                    let b = a.clone();
                    drop(a);
                    b
                }
                "fc" => {
                    let a = actix_service::ServiceFactory::<$req>::new_service(&$fac, ()).await.unwrap();
                    let b = a.clone();
                    drop(a);
                    b
                }
                "k" => $k,
                "kc" => {
                    let a = $k;
                    let b = a.clone();
                    drop(a);
                    b
                }
                "d" => $dsvc,
                "ds" => $dfac.service(),
                _ => actix_service::ServiceFactory::<$req>::new_service(&$dfac, ()).await.unwrap(),
            }
        }
    }};
}

struct ConnOp {
    via: String,
    /// how the service is obtained from its factory: `<base>[:<path>]`, see `build_svc!`
    path: String,
    /// the request is made with `ConnectInfo::from(host)` instead of `ConnectInfo::new(host)`
    from: bool,
    res: Option<Option<Vec<AddrT>>>, // None = default resolver; Some(None)=err; Some(Some(v))=ok
    /// `dflt=<ips>`: what the OS resolver says for `localhost` (measured when the ops were generated)
    dflt_ips: Vec<IpAddr>,
    host: HostReq,
    with: Option<SocketAddr>,
    steps: Vec<Step>,
}
enum Step {
    /// `take`: `ConnectInfo::take_addrs()` - the addresses are handed out and the request is unresolved again
    Take,
    Port(u16),
    Addr(Option<SocketAddr>),
    Addrs(Vec<SocketAddr>),
    Local(IpAddr),
}

fn parse_conn_op(cx: &Ctx, ws: &[&str]) -> Option<ConnOp> {
    // conn <via> <res> <host> [steps..]
    if ws.len() < 4 {
        return None;
    }
    let (via, path) = match ws[1].split(':').collect::<Vec<_>>().as_slice() {
        [b] => (b.to_string(), "s".to_string()),
        [b, p] => (b.to_string(), p.to_string()),
        _ => return None,
    };
    if !["full", "resolve", "tcp"].contains(&via.as_str()) || !PATHS.contains(&path.as_str()) {
        return None;
    }
    if (path == "k" || path == "kc") && via != "resolve" {
        return None;
    }
    let mut dflt_ips = vec![];
    let res = if let Some(l) = ws[2].strip_prefix("dflt=") {
        // (entries that are not IP addresses are ignored, as on the model side)
        dflt_ips.extend(l.split(';').filter_map(|ip| ip.parse::<IpAddr>().ok()));
        None
    } else if ws[2] == "err" {
        Some(None)
    } else if let Some(l) = ws[2].strip_prefix("ok=") {
        let mut v = vec![];
        for a in l.split(';').filter(|x| !x.is_empty()) {
            v.push(cx.parse_addr_t(a)?);
        }
        Some(Some(v))
    } else {
        return None;
    };
    let host = if let Some(h) = HostReq::of_token(|x| cx.subst(x), ws[3]) {
        h
    } else if let Some(s) = ws[3].strip_prefix("h=") {
        let (h, p) = s.rsplit_once(',')?;
        let p = if p == "-" { None } else { Some(cx.subst(p)?.parse::<u16>().ok()?) };
        HostReq::H(cx.subst(h)?, p)
    } else {
        return None;
    };
    // a `Default` path has no configured resolver: it goes with `dflt=` only; a directly constructed custom
    // resolver service needs a script (the bare TCP connector has no resolver at all)
    if via != "tcp" && path.starts_with('d') && res.is_some() {
        return None;
    }
    if path.starts_with('k') && res.is_none() {
        return None;
    }
    let mut with = None;
    let mut steps = vec![];
    let from = ws.get(4) == Some(&"from");
    for (k, w) in ws[if from { 5 } else { 4 }..].iter().enumerate() {
        if let Some(a) = w.strip_prefix("with=") {
            if k != 0 {
                return None;
            }
            with = Some(cx.parse_addr(a)?);
        } else if let Some(p) = w.strip_prefix("port=") {
            steps.push(Step::Port(cx.subst(p)?.parse().ok()?));
        } else if let Some(a) = w.strip_prefix("addr=") {
            steps.push(Step::Addr(if a == "none" { None } else { Some(cx.parse_addr(a)?) }));
        } else if let Some(l) = w.strip_prefix("addrs=") {
            let mut v = vec![];
            for a in l.split(';').filter(|x| !x.is_empty()) {
                v.push(cx.parse_addr(a)?);
            }
            steps.push(Step::Addrs(v));
        } else if let Some(ip) = w.strip_prefix("local=") {
            steps.push(Step::Local(ip.parse().ok()?));
        } else if *w == "take" {
            steps.push(Step::Take);
        } else {
            return None;
        }
    }
    Some(ConnOp { via, path, from, res, dflt_ips, host, with, steps })
}

/// (request, local bind address, what each `take_addrs()` handed out)
fn build_info(op: &ConnOp) -> (ConnectInfo<HostReq>, Option<IpAddr>, Vec<Vec<SocketAddr>>) {
    let mut ci = match op.with {
        Some(a) => ConnectInfo::with_addr(op.host.clone(), a),
        None if op.from => ConnectInfo::from(op.host.clone()),
        None => ConnectInfo::new(op.host.clone()),
    };
    let mut local = None;
    let mut taken = vec![];
    for s in &op.steps {
        ci = match s {
            Step::Take => {
                taken.push(ci.take_addrs().collect::<Vec<_>>());
                ci
            }
            Step::Port(p) => ci.set_port(*p),
            Step::Addr(a) => ci.set_addr(*a),
            Step::Addrs(v) => ci.set_addrs(v.clone()),
            Step::Local(ip) => {
                local = Some(*ip);
                ci.set_local_addr(*ip)
            }
        };
    }
    (ci, local, taken)
}

fn is_ip_literal(s: &str) -> Option<IpAddr> {
    s.parse().ok()
}

fn run_conn_op(rt: &tokio::runtime::Runtime, cx: &Ctx, op: &ConnOp, rep: &mut T3Sink) -> String {
    run_conn_op_attempt(rt, cx, op, rep, 0)
}

/// EADDRINUSE: only the machine running out of local ports (other loopback-heavy jobs, TIME_WAIT) produces
/// it here; such an attempt says nothing about the connector and is repeated after a pause
const EADDRINUSE: i32 = 98;
static ENV_RETRIES: std::sync::atomic::AtomicUsize = std::sync::atomic::AtomicUsize::new(0);

fn run_conn_op_attempt(rt: &tokio::runtime::Runtime, cx: &Ctx, op: &ConnOp, rep: &mut T3Sink, attempt: usize) -> String {
    let mut env98 = false;
    // A connect that SUCCEEDS at an address which is not one of this case's live listeners was answered by
    // somebody else (a parallel job's server on a port we do not hold, or the kernel's loopback self-connect):
    // our listeners own their (ip, port) exclusively, so this test is exact.  Such an attempt says nothing
    // about the connector: it is discarded and repeated, and never judged.
    let mut stranger: Option<SocketAddr> = None;
    let ours = |a: &SocketAddr| cx.eps.iter().any(|e| e.listener.is_some() && e.addr == *a);
    let log = Rc::new(RefCell::new(vec![]));
    let script_resolver = || match &op.res {
        Some(script) => ScriptResolver { script: script.clone(), log: log.clone() },
        None => unreachable!(),
    };
    // the configured resolver factory
    let resolver = || match &op.res {
        None => Resolver::default(),
        Some(_) => Resolver::custom(script_resolver()),
    };
    let (ci, local, taken) = build_info(op);
    // facts about the request (inputs of the oracle), computed from the op itself - not read back from the
    // crate: the hostname is the part of a host string before its first `:`, the port is the request's own
    // port (the part after the first `:` if it is a u16; a custom `Host`'s `port()`) and only without one the
    // value given to `set_port` last (`new` / `from`: the request's port or 0, `with_addr`: 0)
    let (hostname, own_port): (String, Option<u16>) = op.host.expected();
    let field_port = op.steps.iter().rev().find_map(|s| if let Step::Port(p) = s { Some(*p) } else { None }).unwrap_or(0);
    let eff_port = own_port.unwrap_or(field_port);
    let literal = is_ip_literal(&hostname);
    // the addresses the request carries at connect time: what was set last, nothing once they were taken
    let mut want_taken: Vec<Vec<SocketAddr>> = vec![];
    let preset: Vec<SocketAddr> = {
        let mut cur: Vec<SocketAddr> = op.with.into_iter().collect();
        for s in &op.steps {
            match s {
                Step::Addr(a) => cur = a.iter().copied().collect(),
                Step::Addrs(v) => cur = v.clone(),
                Step::Take => want_taken.push(std::mem::take(&mut cur)),
                _ => {}
            }
        }
        cur
    };
    let mut pre_fails: Vec<String> = vec![];
    if taken != want_taken {
        pre_fails.push(format!("take_addrs handed out {taken:?}, expected {want_taken:?}"));
    }
    if ci.hostname() != hostname || ci.port() != eff_port {
        pre_fails.push(format!(
            "ConnectInfo reports hostname {:?} port {}, expected {:?} port {} (the request's own port {:?} wins over the set_port value {})",
            ci.hostname(), ci.port(), hostname, eff_port, own_port, field_port
        ));
    }
    if ci.addrs().collect::<Vec<_>>() != preset {
        pre_fails.push(format!("ConnectInfo carries addresses {:?}, expected {:?}", ci.addrs().collect::<Vec<_>>(), preset));
    }

    enum Out {
        Resolved(Vec<SocketAddr>, String, u16, HostReq),
        Stream(SocketAddr, Option<IpAddr>, actix_rt::net::TcpStream, HostReq),
        Err(ConnectError),
        Watchdog,
        Panic,
    }
    let via = op.via.clone();
    let path = op.path.as_str();
    type Req = ConnectInfo<HostReq>;
    let r = catch(|| {
        rt.block_on(async {
            let fut = async {
                match via.as_str() {
                    "resolve" => {
                        let svc: ResolverService =
                            build_svc!(path, Req, fac = resolver(), direct = ResolverService::custom(script_resolver()), dsvc = ResolverService::default(), dfac = Resolver::default()).await;
                        match svc.call(ci).await {
                            Ok(ci) => Out::Resolved(ci.addrs().collect(), ci.hostname().to_string(), ci.port(), ci.request().clone()),
                            Err(e) => Out::Err(e),
                        }
                    }
                    "tcp" => {
                        let svc: TcpConnectorService =
                            build_svc!(path, Req, fac = TcpConnector::default(), direct = if true { unreachable!() } else { TcpConnectorService::default() }, dsvc = TcpConnectorService::default(), dfac = TcpConnector::default()).await;
                        match svc.call(ci).await {
                            Ok(c) => {
                                let (io, req) = c.into_parts();
                                Out::Stream(io.peer_addr().unwrap(), io.local_addr().ok().map(|a| a.ip()), io, req)
                            }
                            Err(e) => Out::Err(e),
                        }
                    }
                    _ => match build_svc!(path, Req, fac = Connector::new(resolver()), direct = if true { unreachable!() } else { ConnectorService::default() }, dsvc = ConnectorService::default(), dfac = Connector::default()).await.call(ci).await {
                        Ok(c) => {
                            let (io, req) = c.into_parts();
                            Out::Stream(io.peer_addr().unwrap(), io.local_addr().ok().map(|a| a.ip()), io, req)
                        }
                        Err(e) => Out::Err(e),
                    },
                }
            };
            match tokio::time::timeout(Duration::from_secs(20), fut).await {
                Ok(o) => o,
                Err(_) => Out::Watchdog,
            }
        })
    })
    .unwrap_or(Out::Panic);

    let lookups = log.borrow().clone();
    let lk = if op.res.is_none() {
        "-".to_string()
    } else {
        format!("[{}]", lookups.iter().map(|(h, p)| format!("{}:{}", if h.is_empty() { "~" } else { h }, cx.canon_port(*p))).collect::<Vec<_>>().join(","))
    };
    let connected_to = match &r {
        Out::Stream(peer, _, _, _) => cx.eps.iter().position(|e| e.addr == *peer),
        _ => None,
    };
    let acc = cx.accepts(connected_to);
    let res = match &r {
        Out::Resolved(addrs, h, p, _) => format!(
            "ok addrs=[{}] host={} port={}",
            addrs.iter().map(|a| cx.canon(a)).collect::<Vec<_>>().join(";"),
            if h.is_empty() { "~" } else { h },
            cx.canon_port(*p)
        ),
        Out::Stream(peer, l, _, _) => match local {
            Some(_) => format!("ok peer={} local={}", cx.canon(peer), l.map(|x| x.to_string()).unwrap_or_else(|| "?".into())),
            None => format!("ok peer={}", cx.canon(peer)),
        },
        Out::Err(e) => format!("err {}", err_str(e)),
        Out::Watchdog => "watchdog".into(),
        Out::Panic => "panic".into(),
    };

    // ---------------- T3: the property, evaluated on the real behaviour ----------------
    let mut fails: Vec<String> = pre_fails;
    let mut fail = |m: String| fails.push(m);
    if matches!(r, Out::Panic | Out::Watchdog) {
        fail(format!("connector did not return: {res}"));
    }
    let goes_to_resolver = via != "tcp" && preset.is_empty() && literal.is_none();
    if op.res.is_some() {
        // (a) pre-set addresses are never re-resolved, (b) IP literals are not resolved
        if !goes_to_resolver && !lookups.is_empty() {
            fail(format!("resolver consulted ({lk}) although preset={} literal={}", preset.len(), literal.is_some()));
        }
        if goes_to_resolver && lookups != vec![(hostname.clone(), eff_port)] {
            fail(format!("resolver calls {lk}, expected exactly one for ({hostname},{eff_port})"));
        }
    }
    // expected final address list (None = the request fails before dialling)
    let expected_addrs: Result<Vec<SocketAddr>, &str> = if !preset.is_empty() {
        Ok(preset.clone())
    } else if via == "tcp" {
        Err("unresolved")
    } else if let Some(ip) = literal {
        Ok(vec![SocketAddr::new(ip, eff_port)])
    } else {
        match &op.res {
            Some(None) => Err("resolver"),
            Some(Some(v)) if v.is_empty() => Err("norecords"),
            Some(Some(v)) => Ok(v
                .iter()
                .map(|a| match a {
                    AddrT::Fixed(sa) => *sa,
                    AddrT::IpP(ip) => SocketAddr::new(*ip, eff_port),
                })
                .collect()),
            // the OS resolver (no network needed): `localhost` has the addresses measured at generation time, a
            // name under the reserved `.invalid` TLD cannot resolve: `ConnectError::Resolver`, as for any failure
            None if hostname == "localhost" && !op.dflt_ips.is_empty() => Ok(op.dflt_ips.iter().map(|ip| SocketAddr::new(*ip, eff_port)).collect()),
            None if hostname.ends_with(".invalid") => Err("resolver"),
            None => Err("?"), // other names: not judged here beyond the correspondence
        }
    };
    match (&expected_addrs, &r) {
        (Err("?"), _) => {}
        (Err(want), Out::Err(e)) => {
            if err_str(e) != *want {
                fail(format!("expected error {want}, got {}", err_str(e)));
            }
        }
        (Err(want), _) => fail(format!("expected error {want}, got {res}")),
        (Ok(addrs), Out::Resolved(got, h, p, _)) => {
            if got != addrs || *h != hostname || *p != eff_port {
                fail(format!("resolver service returned {res}, expected addresses {:?}", addrs.iter().map(|a| cx.canon(a)).collect::<Vec<_>>()));
            }
        }
        (Ok(addrs), _) if via != "resolve" => {
            // ordered fallback: the reference dials each address independently, in order
            let mut first_ok = None;
            let mut last_err = None;
            for a in addrs {
                match rt.block_on(async { tokio::time::timeout(Duration::from_secs(20), direct_connect(*a, local)).await }) {
                    Ok(Ok(s)) => {
                        let _ = s.set_linger(Some(Duration::ZERO));
                        if !ours(a) {
                            stranger = Some(*a);
                        }
                        first_ok = Some(*a);
                        break;
                    }
                    Ok(Err(e)) => {
                        env98 |= e.raw_os_error() == Some(EADDRINUSE);
                        last_err = Some(e)
                    }
                    Err(_) => {
                        rep.note("reference connect timed out; ordered-fallback oracle skipped for this op");
                        first_ok = None;
                        last_err = None;
                        break;
                    }
                }
            }
            let _ = cx.accepts(None); // discard the accepts caused by the reference dialling
            match (first_ok, last_err, &r) {
                (Some(a), _, Out::Stream(peer, l, _, _)) => {
                    if *peer != a {
                        fail(format!("connected to {} but the first connectable address in order is {}", cx.canon(peer), cx.canon(&a)));
                    }
                    if let (Some(want), Some(got)) = (local, l) {
                        if want != *got {
                            fail(format!("local address {got} but {want} was requested"));
                        }
                    }
                    // exactly one accept, at that listener; later (and earlier) listeners untouched
                    for (i, n) in acc.iter().enumerate() {
                        let want = if cx.eps[i].addr == a { 1 } else { 0 };
                        if let Some(n) = n {
                            if *n != want {
                                fail(format!("listener e{i} saw {n} connections, expected {want} (acc={})", fmt_acc(&acc)));
                            }
                        }
                    }
                }
                (Some(a), _, _) => fail(format!("address {} is connectable but the connector returned {res}", cx.canon(&a))),
                (None, Some(e), Out::Err(ConnectError::Io(got))) => {
                    if got.raw_os_error() != e.raw_os_error() || got.kind() != e.kind() {
                        fail(format!("all addresses fail: expected the last address's error {:?}, got {:?}", e.raw_os_error(), got.raw_os_error()));
                    }
                    if acc.iter().any(|n| matches!(n, Some(k) if *k > 0)) {
                        fail(format!("failed connect but a listener accepted: acc={}", fmt_acc(&acc)));
                    }
                }
                (None, Some(_), _) => fail(format!("all addresses fail but the connector returned {res}")),
                (None, None, _) => {}
            }
        }
        _ => fail(format!("unexpected result shape {res}")),
    }
    // the request handed in comes back with the result
    if let Out::Stream(_, _, _, req) | Out::Resolved(_, _, _, req) = &r {
        if *req != op.host {
            fail(format!("the result carries the request {req:?}, not the one handed in ({:?})", op.host));
        }
    }
    match &r {
        Out::Stream(_, _, io, _) => {
            let _ = io.set_linger(Some(Duration::ZERO));
        }
        Out::Err(ConnectError::Io(e)) => env98 |= e.raw_os_error() == Some(EADDRINUSE),
        _ => {}
    }
    if let Out::Stream(peer, _, _, _) = &r {
        if !ours(peer) {
            stranger = Some(*peer);
        }
    }
    drop(r);
    if env98 && attempt < 20 && ENV_RETRIES.fetch_add(1, std::sync::atomic::Ordering::Relaxed) < 200 {
        rep.note(&format!("EADDRINUSE (the machine is short of local ports): attempt {attempt} of this op is discarded and repeated"));
        std::thread::sleep(Duration::from_millis(100 + 100 * attempt as u64));
        return run_conn_op_attempt(rt, cx, op, rep, attempt + 1);
    }
    // The mirror image: a connection in one of OUR accept queues that the connector's result does not account
    // for (exactly one at the listener it reports, none anywhere else).  A connector that dials too much does
    // so every time; a stranger's client that was handed one of our port numbers earlier (a parallel job
    // probing a port it used to own) does not: the attempt is repeated, and only a surplus that shows on
    // every attempt is reported.
    let surplus = acc.iter().enumerate().any(|(i, n)| matches!(n, Some(k) if *k != (Some(i) == connected_to) as usize));
    if surplus && attempt < 3 && ENV_RETRIES.fetch_add(1, std::sync::atomic::Ordering::Relaxed) < 200 {
        rep.note(&format!("accept counts {} do not match the connector's result: attempt {attempt} of this op is repeated to tell a stranger's connection from the connector's own", fmt_acc(&acc)));
        std::thread::sleep(Duration::from_millis(50));
        return run_conn_op_attempt(rt, cx, op, rep, attempt + 1);
    }
    if let Some(a) = stranger {
        if attempt < 20 && ENV_RETRIES.fetch_add(1, std::sync::atomic::Ordering::Relaxed) < 200 {
            rep.note(&format!("a connect to {a}, where this case has no listener, was answered (a stranger's server or a loopback self-connect): attempt {attempt} of this op is discarded and repeated"));
            std::thread::sleep(Duration::from_millis(50 + 100 * attempt as u64));
            return run_conn_op_attempt(rt, cx, op, rep, attempt + 1);
        }
        // somebody keeps answering there: the environment assumption is broken, no verdict about the connector
        rep.note(&format!("a stranger keeps answering at {a}: the oracle does not judge this op"));
        fails.clear();
    }
    for m in fails {
        rep.t3("C19", &m);
    }
    let tk = if taken.is_empty() {
        String::new()
    } else {
        format!(" taken={}", taken.iter().map(|l| format!("[{}]", l.iter().map(|a| cx.canon(a)).collect::<Vec<_>>().join(";"))).collect::<Vec<_>>().join("|"))
    };
    format!("lk={lk} res={res} acc={}{tk}", fmt_acc(&acc))
}


// ------------------------------------------------------------------------------------------------
// certificates (rcgen, at run time)
// ------------------------------------------------------------------------------------------------
mod pki {
    use std::sync::{Arc, OnceLock};

    use openssl::{
        pkey::PKey,
        ssl::{SslAcceptor, SslConnector, SslMethod, SslVerifyMode, SslVersion},
        x509::X509,
    };
    use rcgen::{BasicConstraints, CertificateParams, DistinguishedName, DnType, IsCa, KeyPair, KeyUsagePurpose};
    use rustls_pki_types::{CertificateDer, PrivateKeyDer, PrivatePkcs8KeyDer};
    use tokio_rustls::rustls::{self, ClientConfig, RootCertStore, ServerConfig};

    pub struct Ca {
        pub cert: rcgen::Certificate,
        pub key: KeyPair,
    }
    pub struct Leaf {
        pub cert_der: Vec<u8>,
        pub cert_pem: String,
        pub key_der: Vec<u8>,
        pub key_pem: String,
    }

    pub fn new_ca(cn: &str) -> Ca {
        let mut p = CertificateParams::new(Vec::<String>::new()).unwrap();
        p.is_ca = IsCa::Ca(BasicConstraints::Unconstrained);
        p.key_usages = vec![KeyUsagePurpose::KeyCertSign, KeyUsagePurpose::DigitalSignature, KeyUsagePurpose::CrlSign];
        let mut dn = DistinguishedName::new();
        dn.push(DnType::CommonName, cn);
        p.distinguished_name = dn;
        let key = KeyPair::generate().unwrap();
        let cert = p.self_signed(&key).unwrap();
        Ca { cert, key }
    }

    pub fn new_leaf(ca: &Ca, sans: &[String]) -> Leaf {
        let mut p = CertificateParams::new(sans.to_vec()).unwrap();
        let mut dn = DistinguishedName::new();
        dn.push(DnType::CommonName, "verif leaf");
        p.distinguished_name = dn;
        let key = KeyPair::generate().unwrap();
        let cert = p.signed_by(&key, &ca.cert, &ca.key).unwrap();
        Leaf { cert_der: cert.der().to_vec(), cert_pem: cert.pem(), key_der: key.serialize_der(), key_pem: key.serialize_pem() }
    }

    pub fn provider() -> Arc<rustls::crypto::CryptoProvider> {
        Arc::new(rustls::crypto::aws_lc_rs::default_provider())
    }

    pub fn rustls_server(leaf: &Leaf) -> ServerConfig {
        ServerConfig::builder_with_provider(provider())
            .with_safe_default_protocol_versions()
            .unwrap()
            .with_no_client_auth()
            .with_single_cert(
                vec![CertificateDer::from(leaf.cert_der.clone())],
                PrivateKeyDer::Pkcs8(PrivatePkcs8KeyDer::from(leaf.key_der.clone())),
            )
            .unwrap()
    }

    pub fn openssl_server(leaf: &Leaf) -> SslAcceptor {
        let mut b = SslAcceptor::mozilla_intermediate_v5(SslMethod::tls()).unwrap();
        b.set_certificate(&X509::from_pem(leaf.cert_pem.as_bytes()).unwrap()).unwrap();
        b.set_private_key(&PKey::private_key_from_pem(leaf.key_pem.as_bytes()).unwrap()).unwrap();
        b.build()
    }

    /// rustls client trusting `ca`; `v12` restricts it to TLS 1.2
    pub fn rustls_client(ca: &Ca, v12: bool) -> Arc<ClientConfig> {
        let mut roots = RootCertStore::empty();
        roots.add(CertificateDer::from(ca.cert.der().to_vec())).unwrap();
        let versions: &[&rustls::SupportedProtocolVersion] = if v12 { &[&rustls::version::TLS12] } else { &[&rustls::version::TLS13] };
        let mut cfg = ClientConfig::builder_with_provider(provider())
            .with_protocol_versions(versions)
            .unwrap()
            .with_root_certificates(roots)
            .with_no_client_auth();
        // every handshake is a full handshake: no state may leak from one case into the next
        cfg.resumption = rustls::client::Resumption::disabled();
        Arc::new(cfg)
    }

    /// OpenSSL client trusting `ca`
    pub fn openssl_client(ca: &Ca, v12: bool) -> SslConnector {
        let mut b = SslConnector::builder(SslMethod::tls()).unwrap();
        b.cert_store_mut().add_cert(X509::from_der(ca.cert.der()).unwrap()).unwrap();
        b.set_verify(SslVerifyMode::PEER);
        if v12 {
            b.set_max_proto_version(Some(SslVersion::TLS1_2)).unwrap();
        } else {
            b.set_min_proto_version(Some(SslVersion::TLS1_3)).unwrap();
        }
        b.build()
    }

    /// connector-side configs (any protocol version), trusting only `ca`
    pub fn rustls_client_any(ca: &Ca) -> Arc<ClientConfig> {
        let mut roots = RootCertStore::empty();
        roots.add(CertificateDer::from(ca.cert.der().to_vec())).unwrap();
        let mut cfg = ClientConfig::builder_with_provider(provider())
            .with_safe_default_protocol_versions()
            .unwrap()
            .with_root_certificates(roots)
            .with_no_client_auth();
        cfg.resumption = rustls::client::Resumption::disabled();
        Arc::new(cfg)
    }
    pub fn openssl_client_any(ca: &Ca) -> SslConnector {
        let mut b = SslConnector::builder(SslMethod::tls()).unwrap();
        b.cert_store_mut().add_cert(X509::from_der(ca.cert.der()).unwrap()).unwrap();
        b.set_verify(SslVerifyMode::PEER);
        b.build()
    }
    // rcgen's key type is not Sync-friendly everywhere; keep only what the acceptor cases need
    pub struct Shared {
        pub rustls_server: Arc<ServerConfig>,
        pub openssl_server: SslAcceptor,
        pub rustls_c13: Arc<ClientConfig>,
        pub rustls_c12: Arc<ClientConfig>,
        pub openssl_c13: SslConnector,
        pub openssl_c12: SslConnector,
    }
    static SHARED: OnceLock<Shared> = OnceLock::new();
    pub fn shared() -> &'static Shared {
        SHARED.get_or_init(|| {
            let ca = new_ca("verif acc ca");
            let leaf = new_leaf(&ca, &["localhost".to_string()]);
            Shared {
                rustls_server: Arc::new(rustls_server(&leaf)),
                openssl_server: openssl_server(&leaf),
                rustls_c13: rustls_client(&ca, false),
                rustls_c12: rustls_client(&ca, true),
                openssl_c13: openssl_client(&ca, false),
                openssl_c12: openssl_client(&ca, true),
            }
        })
    }
}

// ------------------------------------------------------------------------------------------------
// C18: acceptor services under a paused tokio clock, polled by hand
// ------------------------------------------------------------------------------------------------
mod acc {
    use std::{
        future::Future,
        pin::Pin,
        sync::{
            atomic::{AtomicBool, Ordering},
            Arc,
        },
        task::{Context, Poll, Wake, Waker},
        time::Duration,
    };

    use actix_rt::net::{ActixStream, Ready};
    use actix_service::{Service, ServiceFactory};
    use actix_tls::accept::{openssl as a_ossl, rustls_0_23 as a_rustls, TlsError};
    use tokio::io::{AsyncRead, AsyncReadExt, AsyncWrite, AsyncWriteExt, DuplexStream, ReadBuf};

    use super::pki;
    use vh::Rng;

    /// Knobs and counters of one server-side transport, shared between the `Dx` handed to the acceptor and
    /// the harness.  With the defaults (`cap = 0`, `rchunk = 0`, `buffered = false`, readiness always ready)
    /// `Dx` behaves exactly like the bare `tokio::io::duplex` end (this is what the handshake ops use).
    #[derive(Default)]
    pub struct CtlIn {
        /// write window: at most this many bytes written by the acceptor side may be waiting for the harness
        /// (the "pipe buffer"); 0 = unlimited
        pub cap: usize,
        pub inflight: usize,
        wwaker: Option<Waker>,
        /// at most this many bytes per `poll_read`, each delivery followed by one self-woken `Pending`; 0 = off
        pub rchunk: usize,
        owe_pending: bool,
        /// BufWriter-like transport: written bytes sit in `wbuf` until it is full, flushed or shut down
        pub buffered: bool,
        pub wbuf: Vec<u8>,
        /// answers of `ActixStream::poll_read_ready` / `poll_write_ready`
        pub rd_pending: bool,
        pub wr_pending: bool,
        rd_waker: Option<Waker>,
        wr_waker: Option<Waker>,
        pub n_rready: u64,
        pub n_wready: u64,
        pub n_flush: u64,
        pub n_shutdown: u64,
    }
    #[derive(Default)]
    pub struct Ctl(pub std::sync::Mutex<CtlIn>);
    impl Ctl {
        pub fn with<T>(&self, f: impl FnOnce(&mut CtlIn) -> T) -> T {
            f(&mut self.0.lock().unwrap())
        }
        /// the harness took `n` bytes out of the pipe: the window re-opens
        pub fn credit(&self, n: usize) {
            let w = self.with(|c| {
                c.inflight = c.inflight.saturating_sub(n);
                if n > 0 { c.wwaker.take() } else { None }
            });
            if let Some(w) = w {
                w.wake();
            }
        }
        /// the transport becomes readable / writable: wake whoever asked
        pub fn fire(&self, read: bool) {
            let w = self.with(|c| if read { c.rd_pending = false; c.rd_waker.take() } else { c.wr_pending = false; c.wr_waker.take() });
            if let Some(w) = w {
                w.wake();
            }
        }
    }

    /// in-memory transport handed to the acceptor (`tokio::io::duplex` end behind the knobs of `Ctl`)
    pub struct Dx {
        io: DuplexStream,
        ctl: Arc<Ctl>,
    }
    impl Dx {
        pub fn plain(io: DuplexStream) -> Dx {
            Dx { io, ctl: Arc::new(Ctl::default()) }
        }
        pub fn with_ctl(io: DuplexStream, ctl: Arc<Ctl>) -> Dx {
            Dx { io, ctl }
        }
    }
    /// write into the pipe, honouring the window
    fn raw_write(io: &mut DuplexStream, c: &mut CtlIn, cx: &mut Context<'_>, buf: &[u8]) -> Poll<std::io::Result<usize>> {
        let n = if c.cap == 0 {
            buf.len()
        } else {
            let avail = c.cap.saturating_sub(c.inflight);
            if avail == 0 {
                c.wwaker = Some(cx.waker().clone());
                return Poll::Pending;
            }
            buf.len().min(avail)
        };
        match Pin::new(io).poll_write(cx, &buf[..n]) {
            Poll::Ready(Ok(m)) => {
                c.inflight += m;
                Poll::Ready(Ok(m))
            }
            other => other,
        }
    }
    fn drain_wbuf(io: &mut DuplexStream, c: &mut CtlIn, cx: &mut Context<'_>) -> Poll<std::io::Result<()>> {
        while !c.wbuf.is_empty() {
            let data = std::mem::take(&mut c.wbuf);
            match raw_write(io, c, cx, &data) {
                Poll::Ready(Ok(m)) => c.wbuf = data[m..].to_vec(),
                Poll::Pending => {
                    c.wbuf = data;
                    return Poll::Pending;
                }
                Poll::Ready(Err(e)) => {
                    c.wbuf = data;
                    return Poll::Ready(Err(e));
                }
            }
        }
        Poll::Ready(Ok(()))
    }
    impl AsyncRead for Dx {
        fn poll_read(self: Pin<&mut Self>, cx: &mut Context<'_>, buf: &mut ReadBuf<'_>) -> Poll<std::io::Result<()>> {
            let this = self.get_mut();
            let mut c = this.ctl.0.lock().unwrap();
            if c.rchunk == 0 || buf.remaining() == 0 {
                return Pin::new(&mut this.io).poll_read(cx, buf);
            }
            if c.owe_pending {
                // a legal spurious `Pending`: the task is woken at once
                c.owe_pending = false;
                cx.waker().wake_by_ref();
                return Poll::Pending;
            }
            let mut tmp = vec![0u8; c.rchunk.min(buf.remaining())];
            let mut rb = ReadBuf::new(&mut tmp);
            match Pin::new(&mut this.io).poll_read(cx, &mut rb) {
                Poll::Ready(Ok(())) => {
                    if !rb.filled().is_empty() {
                        c.owe_pending = true;
                    }
                    buf.put_slice(rb.filled());
                    Poll::Ready(Ok(()))
                }
                other => other,
            }
        }
    }
    impl AsyncWrite for Dx {
        fn poll_write(self: Pin<&mut Self>, cx: &mut Context<'_>, buf: &[u8]) -> Poll<std::io::Result<usize>> {
            let this = self.get_mut();
            let mut c = this.ctl.0.lock().unwrap();
            if buf.is_empty() {
                return Poll::Ready(Ok(0));
            }
            if c.buffered {
                let lim = if c.cap > 0 { c.cap } else { 8192 };
                if c.wbuf.len() >= lim {
                    // a full buffer is written out, as `BufWriter` does
                    match drain_wbuf(&mut this.io, &mut c, cx) {
                        Poll::Ready(Ok(())) => {}
                        Poll::Ready(Err(e)) => return Poll::Ready(Err(e)),
                        Poll::Pending => return Poll::Pending,
                    }
                }
                let n = buf.len().min(lim - c.wbuf.len());
                c.wbuf.extend_from_slice(&buf[..n]);
                return Poll::Ready(Ok(n));
            }
            raw_write(&mut this.io, &mut c, cx, buf)
        }
        fn poll_flush(self: Pin<&mut Self>, cx: &mut Context<'_>) -> Poll<std::io::Result<()>> {
            let this = self.get_mut();
            let mut c = this.ctl.0.lock().unwrap();
            c.n_flush += 1;
            match drain_wbuf(&mut this.io, &mut c, cx) {
                Poll::Ready(Ok(())) => {}
                other => return other,
            }
            Pin::new(&mut this.io).poll_flush(cx)
        }
        fn poll_shutdown(self: Pin<&mut Self>, cx: &mut Context<'_>) -> Poll<std::io::Result<()>> {
            let this = self.get_mut();
            let mut c = this.ctl.0.lock().unwrap();
            c.n_shutdown += 1;
            // closing hands whatever is buffered to the pipe at once, window or not: `poll_shutdown` of this
            // transport never waits (like a socket's).  tokio-openssl calls `SSL_shutdown` again when the
            // transport's shutdown was pending, which then waits for the peer's close_notify: that is
            // the wrapped library's business, not the pass-through wrapper's, and is kept out of the picture.
            let cap = std::mem::replace(&mut c.cap, 0);
            let r = drain_wbuf(&mut this.io, &mut c, cx);
            c.cap = cap;
            match r {
                Poll::Ready(Ok(())) => {}
                other => return other,
            }
            Pin::new(&mut this.io).poll_shutdown(cx)
        }
    }
    /// what the transport answers when it is ready (distinct, recognisable values)
    pub fn rd_ready_value() -> Ready {
        Ready::READABLE | Ready::READ_CLOSED
    }
    pub fn wr_ready_value() -> Ready {
        Ready::WRITABLE | Ready::WRITE_CLOSED
    }
    impl ActixStream for Dx {
        fn poll_read_ready(&self, cx: &mut Context<'_>) -> Poll<std::io::Result<Ready>> {
            self.ctl.with(|c| {
                c.n_rready += 1;
                if c.rd_pending {
                    c.rd_waker = Some(cx.waker().clone());
                    Poll::Pending
                } else {
                    Poll::Ready(Ok(rd_ready_value()))
                }
            })
        }
        fn poll_write_ready(&self, cx: &mut Context<'_>) -> Poll<std::io::Result<Ready>> {
            self.ctl.with(|c| {
                c.n_wready += 1;
                if c.wr_pending {
                    c.wr_waker = Some(cx.waker().clone());
                    Poll::Pending
                } else {
                    Poll::Ready(Ok(wr_ready_value()))
                }
            })
        }
    }

    /// the harness's end of the server transport as seen by the pump: taking bytes re-opens the window
    struct Mid<'a> {
        io: &'a mut DuplexStream,
        ctl: Arc<Ctl>,
    }
    impl AsyncRead for Mid<'_> {
        fn poll_read(self: Pin<&mut Self>, cx: &mut Context<'_>, buf: &mut ReadBuf<'_>) -> Poll<std::io::Result<()>> {
            let this = self.get_mut();
            let before = buf.filled().len();
            let r = Pin::new(&mut *this.io).poll_read(cx, buf);
            this.ctl.credit(buf.filled().len() - before);
            r
        }
    }
    impl AsyncWrite for Mid<'_> {
        fn poll_write(self: Pin<&mut Self>, cx: &mut Context<'_>, buf: &[u8]) -> Poll<std::io::Result<usize>> {
            Pin::new(&mut *self.get_mut().io).poll_write(cx, buf)
        }
        fn poll_flush(self: Pin<&mut Self>, cx: &mut Context<'_>) -> Poll<std::io::Result<()>> {
            Pin::new(&mut *self.get_mut().io).poll_flush(cx)
        }
        fn poll_shutdown(self: Pin<&mut Self>, cx: &mut Context<'_>) -> Poll<std::io::Result<()>> {
            Pin::new(&mut *self.get_mut().io).poll_shutdown(cx)
        }
    }

    /// an accepted stream as the harness uses it: the `AsyncRead`/`AsyncWrite` impls of the wrapper under
    /// test plus its `ActixStream` readiness methods and the vectored-write hint (wrapper, wrapped stream)
    pub trait SrvIo: AsyncRead + AsyncWrite + Unpin {
        fn rd_ready(&self, cx: &mut Context<'_>) -> Poll<std::io::Result<Ready>>;
        fn wr_ready(&self, cx: &mut Context<'_>) -> Poll<std::io::Result<Ready>>;
        fn wv(&self) -> (bool, bool);
    }
    impl SrvIo for a_rustls::TlsStream<Dx> {
        fn rd_ready(&self, cx: &mut Context<'_>) -> Poll<std::io::Result<Ready>> {
            ActixStream::poll_read_ready(self, cx)
        }
        fn wr_ready(&self, cx: &mut Context<'_>) -> Poll<std::io::Result<Ready>> {
            ActixStream::poll_write_ready(self, cx)
        }
        fn wv(&self) -> (bool, bool) {
            (AsyncWrite::is_write_vectored(self), AsyncWrite::is_write_vectored(&**self))
        }
    }
    impl SrvIo for a_ossl::TlsStream<Dx> {
        fn rd_ready(&self, cx: &mut Context<'_>) -> Poll<std::io::Result<Ready>> {
            ActixStream::poll_read_ready(self, cx)
        }
        fn wr_ready(&self, cx: &mut Context<'_>) -> Poll<std::io::Result<Ready>> {
            ActixStream::poll_write_ready(self, cx)
        }
        fn wv(&self) -> (bool, bool) {
            (AsyncWrite::is_write_vectored(self), AsyncWrite::is_write_vectored(&**self))
        }
    }
    pub type BoxSrv = Box<dyn SrvIo>;

    /// a waker that only records that it was woken
    pub struct Flag(pub AtomicBool);
    impl Wake for Flag {
        fn wake(self: Arc<Self>) {
            self.0.store(true, Ordering::SeqCst);
        }
        fn wake_by_ref(self: &Arc<Self>) {
            self.0.store(true, Ordering::SeqCst);
        }
    }
    impl Flag {
        pub fn new() -> Arc<Flag> {
            Arc::new(Flag(AtomicBool::new(false)))
        }
        pub fn get(&self) -> bool {
            self.0.load(Ordering::SeqCst)
        }
        pub fn clear(&self) {
            self.0.store(false, Ordering::SeqCst)
        }
    }

    /// poll outside tokio's cooperative budget (many manual polls happen between two awaits)
    fn pollu<T>(w: &Waker, mut f: impl FnMut(&mut Context<'_>) -> Poll<T> + Unpin) -> Poll<T> {
        let mut cx = Context::from_waker(w);
        let mut u = tokio::task::unconstrained(std::future::poll_fn(|cx| f(cx)));
        Pin::new(&mut u).poll(&mut cx)
    }

    fn noop() -> Waker {
        Waker::from(Flag::new())
    }

    /// everything currently readable from a duplex end (never blocks); second component: EOF seen
    fn drain(ds: &mut DuplexStream) -> (Vec<u8>, bool) {
        let mut out = vec![];
        let w = noop();
        let mut tmp = vec![0u8; 1 << 16];
        loop {
            let mut rb = ReadBuf::new(&mut tmp);
            match pollu(&w, |cx| Pin::new(&mut *ds).poll_read(cx, &mut rb)) {
                Poll::Ready(Ok(())) => {
                    if rb.filled().is_empty() {
                        return (out, true);
                    }
                    out.extend_from_slice(rb.filled());
                }
                Poll::Ready(Err(_)) => return (out, true),
                Poll::Pending => return (out, false),
            }
        }
    }

    /// write all bytes into a duplex end (buffers are large enough never to block); false if it could not
    fn push(ds: &mut DuplexStream, mut bytes: &[u8]) -> bool {
        let w = noop();
        while !bytes.is_empty() {
            match pollu(&w, |cx| Pin::new(&mut *ds).poll_write(cx, bytes)) {
                Poll::Ready(Ok(n)) if n > 0 => bytes = &bytes[n..],
                _ => return false,
            }
        }
        true
    }

    #[derive(Clone, Copy, PartialEq, Debug)]
    pub enum Dir {
        S2c,
        C2s,
        Both,
    }
    #[derive(Clone, Copy, PartialEq, Debug)]
    pub enum WMode {
        All,
        Chunk,
        CFlush,
        Vectored,
    }
    #[derive(Clone, Copy, PartialEq, Debug)]
    pub enum Fin {
        Flush,
        Shut,
    }
    #[derive(Clone, Copy, PartialEq, Debug)]
    pub enum RMode {
        Exact,
        Small,
    }
    /// parameters of an `xfer` op (see `AccCase::op_xfer`)
    pub struct XferP {
        pub dir: Dir,
        pub n: usize,
        pub seed: u64,
        pub cap: usize,
        pub rchunk: usize,
        pub buffered: bool,
        pub w: WMode,
        pub fin: Fin,
        pub r: RMode,
        pub text: String,
    }
    /// decimal without sign, leading zeros or separators (the same strictness as the model's parser)
    fn canon_num(s: &str, max: u64) -> Option<u64> {
        s.parse::<u64>().ok().filter(|v| v.to_string() == s && *v <= max)
    }
    impl XferP {
        pub fn parse(ws: &[&str]) -> Option<XferP> {
            match ws {
                [dir, n, seed, cap, rchunk, tb, w, fin, r] => Some(XferP {
                    dir: match *dir {
                        "s2c" => Dir::S2c,
                        "c2s" => Dir::C2s,
                        "both" => Dir::Both,
                        _ => return None,
                    },
                    n: canon_num(n, 1 << 20)? as usize,
                    seed: canon_num(seed, u64::MAX)?,
                    cap: canon_num(cap, 1 << 22)? as usize,
                    rchunk: canon_num(rchunk, 1 << 22)? as usize,
                    buffered: match *tb {
                        "d" => false,
                        "b" => true,
                        _ => return None,
                    },
                    w: match *w {
                        "all" => WMode::All,
                        "chunk" => WMode::Chunk,
                        "cflush" => WMode::CFlush,
                        "vec" => WMode::Vectored,
                        _ => return None,
                    },
                    fin: match *fin {
                        "flush" => Fin::Flush,
                        "shut" => Fin::Shut,
                        _ => return None,
                    },
                    r: match *r {
                        "exact" => RMode::Exact,
                        "small" => RMode::Small,
                        _ => return None,
                    },
                    text: ws.join(" "),
                }),
                _ => None,
            }
        }
    }

    #[derive(Clone, Copy, PartialEq, Debug)]
    enum WState {
        Write,
        FlushMid,
        FlushEnd,
        Shut,
        Done,
    }
    #[derive(Clone, Copy, PartialEq, Debug)]
    enum RState {
        Read,
        Eof,
        Done,
    }
    /// one end of a transfer: a writer and a reader state machine over the same stream, polled by hand so
    /// that exactly the `AsyncRead` / `AsyncWrite` methods named here are the ones that get called
    struct Side {
        out: Vec<u8>,
        wpos: usize,
        chunk_end: usize,
        cuts: Vec<usize>,
        w: WMode,
        fin: Fin,
        ws: WState,
        expect: usize,
        got: Vec<u8>,
        r: RMode,
        rs: RState,
        rwant: usize,
        rbuf: Vec<u8>,
        rng: Rng,
        err: Option<String>,
    }
    impl Side {
        fn new(out: Vec<u8>, expect: usize, p: &XferP, seed: u64) -> Side {
            Side {
                out,
                wpos: 0,
                chunk_end: 0,
                cuts: vec![],
                w: p.w,
                fin: p.fin,
                ws: WState::Write,
                expect,
                got: Vec::with_capacity(expect),
                r: p.r,
                rs: RState::Read,
                rwant: 0,
                rbuf: vec![],
                rng: Rng::new(seed),
                err: None,
            }
        }
        fn wstate(&self) -> String {
            match self.ws {
                WState::Done => match self.fin {
                    Fin::Flush => "wrote and flushed everything".into(),
                    Fin::Shut => "wrote everything and shut down".into(),
                },
                WState::Write => format!("has written {}/{}", self.wpos, self.out.len()),
                WState::FlushMid | WState::FlushEnd => format!("is flushing after {}/{}", self.wpos, self.out.len()),
                WState::Shut => "is shutting down".into(),
            }
        }
        /// true when both the writer and the reader are done (or one of them failed)
        fn poll<S: AsyncRead + AsyncWrite + Unpin + ?Sized>(&mut self, io: &mut S, cx: &mut Context<'_>) -> bool {
            if self.err.is_some() {
                return true;
            }
            loop {
                match self.ws {
                    WState::Write => {
                        if self.wpos == self.out.len() {
                            self.ws = if self.fin == Fin::Flush { WState::FlushEnd } else { WState::Shut };
                            continue;
                        }
                        if self.chunk_end <= self.wpos {
                            let rest = self.out.len() - self.wpos;
                            let len = match self.w {
                                WMode::All => rest,
                                _ => (*self.rng.pick(&[1usize, 2, 7, 100, 1000, 4096, 16384, 16385, 20000, 70000])).min(rest),
                            };
                            self.chunk_end = self.wpos + len;
                            self.cuts.clear();
                        }
                        let r = if self.w == WMode::Vectored {
                            if self.cuts.is_empty() {
                                // 1..4 slices (some possibly empty) covering [wpos, chunk_end); kept until progress is made
                                let k = self.rng.below(4);
                                let mut cs: Vec<usize> = (0..k).map(|_| self.wpos + self.rng.below(self.chunk_end - self.wpos + 1)).collect();
                                cs.push(self.wpos);
                                cs.push(self.chunk_end);
                                cs.sort();
                                self.cuts = cs;
                            }
                            let slices: Vec<std::io::IoSlice<'_>> = self.cuts.windows(2).map(|w| std::io::IoSlice::new(&self.out[w[0]..w[1]])).collect();
                            Pin::new(&mut *io).poll_write_vectored(cx, &slices)
                        } else {
                            Pin::new(&mut *io).poll_write(cx, &self.out[self.wpos..self.chunk_end])
                        };
                        match r {
                            Poll::Pending => break,
                            Poll::Ready(Ok(n)) if n == 0 || n > self.chunk_end - self.wpos => {
                                self.err = Some(format!("write of {} bytes answered Ok({n})", self.chunk_end - self.wpos));
                                return true;
                            }
                            Poll::Ready(Ok(n)) => {
                                self.wpos += n;
                                self.cuts.clear();
                                if self.wpos == self.chunk_end && self.w == WMode::CFlush {
                                    self.ws = WState::FlushMid;
                                }
                            }
                            Poll::Ready(Err(e)) => {
                                self.err = Some(format!("write error after {} bytes: {e}", self.wpos));
                                return true;
                            }
                        }
                    }
                    WState::FlushMid | WState::FlushEnd => match Pin::new(&mut *io).poll_flush(cx) {
                        Poll::Pending => break,
                        Poll::Ready(Ok(())) => self.ws = if self.ws == WState::FlushMid { WState::Write } else { WState::Done },
                        Poll::Ready(Err(e)) => {
                            self.err = Some(format!("flush error after {} bytes: {e}", self.wpos));
                            return true;
                        }
                    },
                    WState::Shut => match Pin::new(&mut *io).poll_shutdown(cx) {
                        Poll::Pending => break,
                        Poll::Ready(Ok(())) => self.ws = WState::Done,
                        Poll::Ready(Err(e)) => {
                            self.err = Some(format!("shutdown error after {} bytes: {e}", self.wpos));
                            return true;
                        }
                    },
                    WState::Done => break,
                }
            }
            loop {
                match self.rs {
                    RState::Read => {
                        if self.got.len() == self.expect {
                            self.rs = if self.fin == Fin::Shut { RState::Eof } else { RState::Done };
                            continue;
                        }
                        if self.rwant == 0 {
                            let rest = self.expect - self.got.len();
                            self.rwant = match self.r {
                                RMode::Exact => rest,
                                RMode::Small => (*self.rng.pick(&[1usize, 2, 3, 16, 100, 1000, 4096])).min(rest),
                            };
                            if self.rbuf.len() < self.rwant {
                                self.rbuf.resize(self.rwant, 0);
                            }
                        }
                        let mut rb = ReadBuf::new(&mut self.rbuf[..self.rwant]);
                        match Pin::new(&mut *io).poll_read(cx, &mut rb) {
                            Poll::Pending => break,
                            Poll::Ready(Ok(())) => {
                                let n = rb.filled().len();
                                if n == 0 {
                                    self.err = Some(format!("end of stream after {} of {} bytes", self.got.len(), self.expect));
                                    return true;
                                }
                                self.got.extend_from_slice(&self.rbuf[..n]);
                                // `exact`: keep filling the one buffer; `small`: a new small buffer for every read
                                self.rwant = if self.r == RMode::Exact { self.rwant - n } else { 0 };
                            }
                            Poll::Ready(Err(e)) => {
                                self.err = Some(format!("read error after {} of {} bytes: {e}", self.got.len(), self.expect));
                                return true;
                            }
                        }
                    }
                    RState::Eof => {
                        let mut tmp = [0u8; 16];
                        let mut rb = ReadBuf::new(&mut tmp);
                        match Pin::new(&mut *io).poll_read(cx, &mut rb) {
                            Poll::Pending => break,
                            Poll::Ready(Ok(())) if rb.filled().is_empty() => self.rs = RState::Done,
                            Poll::Ready(Ok(())) => {
                                self.err = Some(format!("{} more bytes than the {} written arrive before the end of stream", rb.filled().len(), self.expect));
                                return true;
                            }
                            Poll::Ready(Err(e)) => {
                                self.err = Some(format!("no clean end of stream after the {} payload bytes: {e}", self.expect));
                                return true;
                            }
                        }
                    }
                    RState::Done => break,
                }
            }
            self.ws == WState::Done && self.rs == RState::Done
        }
    }
    /// one non-blocking read on a stream that should have nothing to deliver
    fn probe_read<S: AsyncRead + Unpin + ?Sized>(io: &mut S, cx: &mut Context<'_>, who: &str, extra: &mut Vec<String>) {
        let mut tmp = [0u8; 16];
        let mut rb = ReadBuf::new(&mut tmp);
        if let Poll::Ready(r) = Pin::new(io).poll_read(cx, &mut rb) {
            extra.push(match r {
                Ok(()) if rb.filled().is_empty() => format!("the {who} side sees end of stream although nobody shut down"),
                Ok(()) => format!("the {who} side reads {} more bytes than were written", rb.filled().len()),
                Err(e) => format!("the {who} side reads an error after the payload: {e}"),
            });
        }
    }
    /// number of positions at which two byte strings differ (length difference included)
    fn diff(a: &[u8], b: &[u8]) -> usize {
        a.iter().zip(b.iter()).filter(|(x, y)| x != y).count() + a.len().max(b.len()) - a.len().min(b.len())
    }

    pub type BoxIo = Box<dyn IoBoth>;
    pub trait IoBoth: AsyncRead + AsyncWrite + Unpin {}
    impl<T: AsyncRead + AsyncWrite + Unpin> IoBoth for T {}

    #[derive(Clone, Copy, PartialEq, Debug)]
    pub enum Outcome {
        Ok,
        TlsErr,
        Timeout,
    }
    impl Outcome {
        pub fn s(self) -> &'static str {
            match self {
                Outcome::Ok => "ok",
                Outcome::TlsErr => "tlserr",
                Outcome::Timeout => "timeout",
            }
        }
    }

    type SFut = Pin<Box<dyn Future<Output = Result<BoxSrv, Outcome>>>>;
    type CFut = Pin<Box<dyn Future<Output = Result<BoxIo, String>>>>;

    fn classify<E>(e: TlsError<E, std::convert::Infallible>) -> Outcome {
        match e {
            TlsError::Timeout => Outcome::Timeout,
            TlsError::Tls(_) => Outcome::TlsErr,
            TlsError::Service(never) => match never {},
        }
    }

    pub struct ConnRec {
        sfut: Option<SFut>,
        /// wake flags of the tasks that poll this accept future (`poll k [w]`, distinct wakers)
        flags: [Arc<Flag>; 3],
        /// the task that polled it LAST: it owns the future, the executor discipline re-polls from this task
        cur: usize,
        hs: Option<DuplexStream>, // harness end of the server's transport
        cfut: Option<CFut>,
        hd: DuplexStream, // harness end of the client's transport
        cli: String,
        held: Vec<u8>,
        sstream: Option<BoxSrv>,
        cstream: Option<BoxIo>,
        ctl: Arc<Ctl>,
        lib: String,
        /// a transfer ended with shutdown (or broke): the connection carries no further payload
        finished: bool,
        // bookkeeping used by the T3 oracle (observed facts, not the model)
        deadline_ms: u64,
        produced: u32,
        delivered: u32,
        seen_at_last_poll: u32,
        spoiled: bool, // garbage injected or transport closed
        polled: bool,
        /// no (virtual) time has ever passed while this future was waiting for a poll it was owed
        diligent: bool,
        pub result: Option<Outcome>,
        dropped: bool,
    }

    /// an acceptor factory of each flavour, configured alike; `tmo_ms` is the oracle's own bookkeeping of the
    /// configuration history (`new`: the documented default, `set_handshake_timeout(t)`: t, `clone`: the
    /// original's), not read back from the crate
    struct FacPair {
        r: a_rustls::Acceptor,
        o: a_ossl::Acceptor,
        tmo_ms: u64,
    }
    /// the services `new_service` built from a factory pair, with the timeout the factory had at that moment
    struct SvcPair {
        r: a_rustls::AcceptorService,
        o: a_ossl::AcceptorService,
        tmo_ms: u64,
    }
    fn new_services(f: &FacPair) -> SvcPair {
        let w = noop();
        let r = match pollu(&w, |cx| Pin::new(&mut ServiceFactory::<Dx>::new_service(&f.r, ())).poll(cx)) {
            Poll::Ready(Ok(s)) => s,
            _ => unreachable!(),
        };
        let o = match pollu(&w, |cx| Pin::new(&mut ServiceFactory::<Dx>::new_service(&f.o, ())).poll(cx)) {
            Poll::Ready(Ok(s)) => s,
            _ => unreachable!(),
        };
        SvcPair { r, o, tmo_ms: f.tmo_ms }
    }
    const MAX_FACS: usize = 8;

    impl ConnRec {
        /// which of the tasks that polled this accept future have been woken: bit `w` for task `w`
        fn wmask(&self) -> u8 {
            self.flags.iter().enumerate().map(|(i, f)| (f.get() as u8) << i).sum()
        }
    }

    pub struct AccCase {
        /// factories and services of this thread in order of creation; number 0 of each is what the case
        /// header builds (`Acceptor::new`, `set_handshake_timeout(tmo)` unless `tmo=default`, `new_service`)
        facs: Vec<FacPair>,
        svcs: Vec<SvcPair>,
        default_tmo_ms: u64,
        /// the limit configured last, process-wide (what a thread whose counter is created NOW must get);
        /// `max` below is what THIS thread's counter was built with and keeps
        global_max: usize,
        max: usize,
        conns: Vec<ConnRec>,
        /// wake flags of the tasks that ask the services for readiness (`ready [w]`, distinct wakers)
        rflags: [Arc<Flag>; 3],
        start: tokio::time::Instant,
        pub t3: Vec<String>,
        pub notes: Vec<String>,
        /// the task that asked for readiness LAST, if it was answered `Pending` (it is parked on the counter)
        parked: Option<usize>,
    }

    fn new_client(cli: &str, io: DuplexStream) -> Option<CFut> {
        let sh = pki::shared();
        match cli {
            "r13" | "r12" => {
                let cfg = if cli == "r13" { sh.rustls_c13.clone() } else { sh.rustls_c12.clone() };
                let name = rustls_pki_types::ServerName::try_from("localhost").unwrap();
                let fut = tokio_rustls::TlsConnector::from(cfg).connect(name, io);
                Some(Box::pin(async move { fut.await.map(|s| Box::new(s) as BoxIo).map_err(|e| e.to_string()) }))
            }
            "o13" | "o12" => {
                let c = if cli == "o13" { &sh.openssl_c13 } else { &sh.openssl_c12 };
                let ssl = c.configure().ok()?.into_ssl("localhost").ok()?;
                let mut st = tokio_openssl::SslStream::new(ssl, io).ok()?;
                Some(Box::pin(async move {
                    match Pin::new(&mut st).connect().await {
                        Ok(()) => Ok(Box::new(st) as BoxIo),
                        Err(e) => Err(e.to_string()),
                    }
                }))
            }
            _ => None,
        }
    }

    impl AccCase {
        /// `max = None`: leave the crate's default limit in place (must be the first acceptor case of the process)
        pub fn new(max: Option<usize>, set_self: bool, tmo_ms: Option<u64>, default_max: usize, default_tmo_ms: u64) -> AccCase {
            let sh = pki::shared();
            if let (Some(m), true) = (max, set_self) {
                // `set=self`: configured on this very thread, before its counter exists
                actix_tls::accept::max_concurrent_tls_connect(m);
            }
            let mut f0 = FacPair { r: a_rustls::Acceptor::new((*sh.rustls_server).clone()), o: a_ossl::Acceptor::new(sh.openssl_server.clone()), tmo_ms: default_tmo_ms };
            if let Some(t) = tmo_ms {
                f0.r.set_handshake_timeout(Duration::from_millis(t));
                f0.o.set_handshake_timeout(Duration::from_millis(t));
                f0.tmo_ms = t;
            }
            // first use of the thread-local counter on this (fresh) thread: it takes the current limit
            let s0 = new_services(&f0);
            AccCase {
                facs: vec![f0],
                svcs: vec![s0],
                default_tmo_ms,
                global_max: max.unwrap_or(default_max),
                max: max.unwrap_or(default_max),
                conns: vec![],
                rflags: [Flag::new(), Flag::new(), Flag::new()],
                start: tokio::time::Instant::now(),
                t3: vec![],
                notes: vec![],
                parked: None,
            }
        }

        fn now_ms(&self) -> u64 {
            (tokio::time::Instant::now() - self.start).as_millis() as u64
        }
        fn alive(&self) -> usize {
            self.conns.iter().filter(|c| c.sfut.is_some()).count()
        }
        /// which readiness tasks have been woken: bit `w` for task `w`
        fn rf(&self) -> u8 {
            self.rflags.iter().enumerate().map(|(i, f)| (f.get() as u8) << i).sum()
        }

        /// the task parked on the counter that has not been woken yet
        fn parked_now(&self) -> Option<usize> {
            self.parked.filter(|w| !self.rflags[*w].get())
        }

        fn op_ready(&mut self, wk: usize) -> String {
            self.rflags[wk].clear();
            let w = Waker::from(self.rflags[wk].clone());
            // every acceptor service of the thread (either flavour, whichever factory or clone it was built
            // from) gates on the one per-thread counter: ask them all (service 0 last, its answer is the
            // observation) and hold each answer against the property
            // property: not ready exactly while the handshakes in progress have reached the maximum
            let inprog = self.alive();
            let mut a = true;
            for (i, sv) in self.svcs.iter().enumerate() {
                let ra = pollu(&w, |cx| Service::<Dx>::poll_ready(&sv.r, cx)).is_ready();
                let oa = pollu(&w, |cx| Service::<Dx>::poll_ready(&sv.o, cx)).is_ready();
                for (lib, x) in [("rustls", ra), ("openssl", oa)] {
                    if x != (inprog < self.max) {
                        self.t3.push(format!("poll_ready of {lib} acceptor service {i} is {} with {inprog} handshakes in progress on its thread and max {}", if x { "Ready" } else { "Pending" }, self.max));
                    }
                }
                if i == 0 {
                    a = ra;
                }
            }
            self.parked = if a { None } else { Some(wk) };
            if a { "ready".into() } else { "pending".into() }
        }

        fn op_fnew(&mut self) -> Option<String> {
            if self.facs.len() >= MAX_FACS {
                return None;
            }
            let sh = pki::shared();
            self.facs.push(FacPair { r: a_rustls::Acceptor::new((*sh.rustls_server).clone()), o: a_ossl::Acceptor::new(sh.openssl_server.clone()), tmo_ms: self.default_tmo_ms });
            Some(format!("ok f={}", self.facs.len() - 1))
        }
        fn op_fset(&mut self, f: usize, ms: u64) -> Option<String> {
            let fac = self.facs.get_mut(f)?;
            fac.r.set_handshake_timeout(Duration::from_millis(ms));
            fac.o.set_handshake_timeout(Duration::from_millis(ms));
            fac.tmo_ms = ms;
            Some("ok".into())
        }
        fn op_fclone(&mut self, f: usize) -> Option<String> {
            if self.facs.len() >= MAX_FACS {
                return None;
            }
            let fac = self.facs.get(f)?;
            // property: a copy of a configured factory (what every worker of a server gets) is configured alike
            let c = FacPair { r: fac.r.clone(), o: fac.o.clone(), tmo_ms: fac.tmo_ms };
            self.facs.push(c);
            Some(format!("ok f={}", self.facs.len() - 1))
        }
        fn op_fsvc(&mut self, f: usize) -> Option<String> {
            if self.svcs.len() >= MAX_FACS {
                return None;
            }
            let s = new_services(self.facs.get(f)?);
            self.svcs.push(s);
            Some(format!("ok s={}", self.svcs.len() - 1))
        }

        /// `setmax n`: `max_concurrent_tls_connect(n)` called on this thread AFTER its counter exists: no effect
        /// here (the thread-local counter keeps the capacity it was created with), but it is the limit of
        /// every thread whose counter is created from now on
        fn op_setmax(&mut self, n: usize) -> Option<String> {
            actix_tls::accept::max_concurrent_tls_connect(n);
            self.global_max = n;
            Some("ok".into())
        }

        /// `probe`: a freshly spawned thread (no counter yet) builds acceptor services of both flavours and
        /// starts stalled handshakes, alternating the flavours, for as long as the services say `Ready`: the
        /// number it gets to is the limit in force on that thread.  Then one handshake is ended: the task
        /// that was answered `Pending` must be woken and find the services `Ready`.
        fn op_probe(&mut self) -> Option<String> {
            let expect = self.global_max;
            let r = std::thread::spawn(move || {
                let rt = tokio::runtime::Builder::new_current_thread().enable_all().start_paused(true).build().unwrap();
                rt.block_on(async move {
                    let sh = pki::shared();
                    let fac = FacPair { r: a_rustls::Acceptor::new((*sh.rustls_server).clone()), o: a_ossl::Acceptor::new(sh.openssl_server.clone()), tmo_ms: 0 };
                    let svc = new_services(&fac);
                    let flag = Flag::new();
                    let w = Waker::from(flag.clone());
                    let mut futs: Vec<SFut> = vec![];
                    let mut keep = vec![];
                    let ready = |svc: &SvcPair| {
                        let a = pollu(&w, |cx| Service::<Dx>::poll_ready(&svc.r, cx)).is_ready();
                        let b = pollu(&w, |cx| Service::<Dx>::poll_ready(&svc.o, cx)).is_ready();
                        (a, b)
                    };
                    let mut disagree = false;
                    loop {
                        let (a, b) = ready(&svc);
                        disagree |= a != b;
                        if !(a && b) || futs.len() >= 400 {
                            break;
                        }
                        let (sa, hs) = tokio::io::duplex(1 << 16);
                        keep.push(hs);
                        let f: SFut = if futs.len() % 2 == 0 {
                            let f = svc.r.call(Dx::plain(sa));
                            Box::pin(async move { f.await.map(|s| Box::new(s) as BoxSrv).map_err(classify) })
                        } else {
                            let f = svc.o.call(Dx::plain(sa));
                            Box::pin(async move { f.await.map(|s| Box::new(s) as BoxSrv).map_err(classify) })
                        };
                        futs.push(f);
                    }
                    let n = futs.len();
                    // one handshake ends (its future is dropped): wake-up, then Ready
                    let (mut woken, mut again) = (true, true);
                    if n > 0 && n < 400 {
                        flag.clear();
                        let _ = ready(&svc);
                        drop(futs.remove(0));
                        woken = flag.get();
                        let (a, b) = ready(&svc);
                        again = a && b;
                    }
                    (n, disagree, woken, again)
                })
            })
            .join()
            .ok()?;
            let (n, disagree, woken, again) = r;
            if n != expect {
                self.t3.push(format!("on a freshly spawned thread the acceptor services report not-ready with {n} handshakes in progress (400 = never), but the limit configured with max_concurrent_tls_connect is {expect}"));
            }
            if disagree {
                self.t3.push("rustls and openssl acceptor services of a freshly spawned thread disagree on readiness".into());
            }
            if !woken || !again {
                self.t3.push(format!("fresh thread at its limit of {n}: after one handshake ended the parked task was woken={woken}, poll_ready Ready={again}"));
            }
            Some(format!("limit={n}"))
        }

        fn op_call(&mut self, lib: &str, cli: &str, sv: usize) -> Option<String> {
            if sv >= self.svcs.len() || !["r", "o"].contains(&lib) {
                return None;
            }
            let (sa, hs) = tokio::io::duplex(1 << 22);
            let (cd, hd) = tokio::io::duplex(1 << 22);
            let cfut = new_client(cli, cd)?;
            let ctl = Arc::new(Ctl::default());
            let sfut: SFut = match lib {
                "r" => {
                    let f = self.svcs[sv].r.call(Dx::with_ctl(sa, ctl.clone()));
                    Box::pin(async move { f.await.map(|s| Box::new(s) as BoxSrv).map_err(classify) })
                }
                "o" => {
                    let f = self.svcs[sv].o.call(Dx::with_ctl(sa, ctl.clone()));
                    Box::pin(async move { f.await.map(|s| Box::new(s) as BoxSrv).map_err(classify) })
                }
                _ => return None,
            };
            self.conns.push(ConnRec {
                sfut: Some(sfut),
                flags: [Flag::new(), Flag::new(), Flag::new()],
                cur: 0,
                hs: Some(hs),
                cfut: Some(cfut),
                hd,
                cli: cli.to_string(),
                held: vec![],
                sstream: None,
                cstream: None,
                ctl,
                lib: lib.to_string(),
                finished: false,
                // the timeout configured for the factory this service was built from, at the time it was built
                deadline_ms: self.now_ms() + self.svcs[sv].tmo_ms,
                produced: 0,
                delivered: 0,
                seen_at_last_poll: 0,
                spoiled: false,
                polled: false,
                diligent: true,
                result: None,
                dropped: false,
            });
            Some(format!("ok {}", self.conns.len() - 1))
        }

        /// the guard of a finished / dropped handshake must have been released: a parked service task is woken
        /// (the task that asked for readiness last and was answered `Pending`, not one that asked earlier)
        fn after_release(&mut self, parked: Option<usize>, inprog_before: usize, what: &str) {
            if let Some(w) = parked {
                if inprog_before == self.max && !self.rflags[w].get() {
                    let others: Vec<String> = (0..3).filter(|i| *i != w && self.rflags[*i].get()).map(|i| i.to_string()).collect();
                    self.t3.push(format!(
                        "service task {w}, the last to be answered Pending at the limit, was not woken when a handshake ended ({what}){}",
                        if others.is_empty() { String::new() } else { format!("; woken instead: task {}", others.join(",")) }
                    ));
                }
            }
        }

        /// poll accept future `k` from task `wk` (`None`: the task that polled it last)
        fn poll_one(&mut self, k: usize, wk: Option<usize>) -> Option<Outcome> {
            let now = self.now_ms();
            let inprog = self.alive();
            let was_pending = self.parked_now();
            let c = &mut self.conns[k];
            let wk = wk.unwrap_or(c.cur);
            c.cur = wk;
            c.flags[wk].clear();
            let w = Waker::from(c.flags[wk].clone());
            let fut = c.sfut.as_mut().unwrap();
            let r = pollu(&w, |cx| fut.as_mut().poll(cx));
            c.polled = true;
            c.seen_at_last_poll = c.delivered;
            // server -> client bytes travel immediately
            if let Some(hs) = c.hs.as_mut() {
                let (bytes, _) = drain(hs);
                c.ctl.credit(bytes.len());
                if !bytes.is_empty() {
                    push(&mut c.hd, &bytes);
                }
            }
            // the client has sent its whole handshake and is still there to read the server's last flight
            let complete = c.delivered >= 2 && c.hs.is_some();
            let (deadline, spoiled) = (c.deadline_ms, c.spoiled);
            let out = match r {
                Poll::Pending => None,
                Poll::Ready(res) => {
                    c.sfut = None; // completed future is dropped, as `.await` does
                    let o = match res {
                        Ok(s) => {
                            c.sstream = Some(s);
                            Outcome::Ok
                        }
                        Err(o) => o,
                    };
                    c.result = Some(o);
                    Some(o)
                }
            };
            // ---- T3: handshake timeout clause of the property, on the observed behaviour ----
            match out {
                None => {
                    if now >= deadline {
                        self.t3.push(format!("future {k} polled at {now} ms is still pending although its handshake timeout expired at {deadline} ms"));
                    }
                    if complete {
                        self.t3.push(format!("future {k} pending although the client completed the handshake"));
                    }
                }
                Some(Outcome::Timeout) => {
                    if now < deadline {
                        self.t3.push(format!("future {k} timed out at {now} ms, before its deadline {deadline} ms"));
                    }
                    if complete {
                        self.t3.push(format!("future {k} answered Timeout although the handshake had completed (handshake result must win)"));
                    }
                }
                Some(Outcome::Ok) => {
                    if !complete {
                        self.t3.push(format!("future {k} produced a stream although the client has not finished the handshake"));
                    }
                }
                Some(Outcome::TlsErr) => {
                    if complete || !spoiled {
                        self.t3.push(format!("future {k} answered a TLS error for a well-behaved client (complete={complete})"));
                    }
                }
            }
            if out.is_some() {
                self.after_release(was_pending, inprog, "completion");
            }
            out
        }

        fn op_poll(&mut self, k: usize, wk: usize) -> Option<String> {
            if self.conns.get(k)?.sfut.is_none() {
                return None;
            }
            let o = self.poll_one(k, Some(wk));
            Some(format!("{} r={}", o.map(|o| o.s()).unwrap_or("pending"), self.rf()))
        }

        fn op_drop(&mut self, k: usize) -> Option<String> {
            if self.conns.get(k)?.sfut.is_none() {
                return None;
            }
            let inprog = self.alive();
            let was_pending = self.parked_now();
            let c = &mut self.conns[k];
            c.sfut = None;
            c.dropped = true;
            self.after_release(was_pending, inprog, "drop");
            Some(format!("ok r={}", self.rf()))
        }

        fn op_cflight(&mut self, k: usize, mode: &str) -> Option<String> {
            let c = self.conns.get_mut(k)?;
            if c.sfut.is_none() || c.spoiled || c.hs.is_none() {
                return None;
            }
            if !["full", "part", "rest"].contains(&mode) {
                return None;
            }
            // let the client react to what the server has sent so far
            if let Some(f) = c.cfut.as_mut() {
                let w = noop();
                if let Poll::Ready(r) = pollu(&w, |cx| f.as_mut().poll(cx)) {
                    c.cfut = None;
                    match r {
                        Ok(s) => c.cstream = Some(s),
                        Err(e) => self.notes.push(format!("client {k} failed: {e}")),
                    }
                }
            }
            let c = self.conns.get_mut(k)?;
            let (bytes, _) = drain(&mut c.hd);
            if !bytes.is_empty() {
                if c.held.is_empty() {
                    c.produced += 1;
                }
                c.held.extend_from_slice(&bytes);
            }
            if c.held.is_empty() {
                return Some(format!("nothing w={}", c.wmask()));
            }
            let n = match mode {
                "part" => {
                    if c.held.len() < 2 {
                        return Some(format!("nothing w={}", c.wmask()));
                    }
                    c.held.len() / 2
                }
                _ => c.held.len(),
            };
            let chunk: Vec<u8> = c.held.drain(..n).collect();
            push(c.hs.as_mut().unwrap(), &chunk);
            if c.held.is_empty() {
                c.delivered += 1;
            }
            Some(format!("sent w={}", c.wmask()))
        }

        fn op_garbage(&mut self, k: usize, kind: &str) -> Option<String> {
            let c = self.conns.get_mut(k)?;
            if c.sfut.is_none() || c.spoiled || c.delivered >= 2 {
                return None;
            }
            let n = 20 * 1024;
            let bytes: Vec<u8> = match kind {
                "http" => b"GET / HTTP/1.1\r\nHost: localhost\r\n\r\n".iter().cycle().take(n).cloned().collect(),
                "zero" => vec![0u8; n],
                "ff" => vec![0xffu8; n],
                "rnd" => {
                    let mut r = Rng::new(k as u64 + 77);
                    (0..n).map(|_| r.next() as u8).collect()
                }
                _ => return None,
            };
            push(c.hs.as_mut().unwrap(), &bytes);
            c.spoiled = true;
            Some(format!("ok w={}", c.wmask()))
        }

        fn op_close(&mut self, k: usize) -> Option<String> {
            let c = self.conns.get_mut(k)?;
            if c.sfut.is_none() || c.spoiled {
                return None;
            }
            c.hs = None; // the peer goes away (both directions): the server can no longer send its own last flight
            c.spoiled = true;
            Some(format!("ok w={}", c.wmask()))
        }

        fn woken_list(&self) -> String {
            let mut v: Vec<String> = vec![];
            for (k, c) in self.conns.iter().enumerate().filter(|(_, c)| c.sfut.is_some()) {
                for (i, f) in c.flags.iter().enumerate() {
                    if f.get() {
                        v.push(if i == 0 { k.to_string() } else { format!("{k}.{i}") });
                    }
                }
            }
            for (i, f) in self.rflags.iter().enumerate() {
                if f.get() {
                    v.push(if i == 0 { "r".to_string() } else { format!("r{i}") });
                }
            }
            format!("[{}]", v.join(","))
        }

        async fn op_advance(&mut self, ms: u64) -> String {
            for _ in 0..ms {
                for c in self.conns.iter_mut() {
                    if c.sfut.is_some() && (c.flags[c.cur].get() || !c.polled) {
                        c.diligent = false; // time passes while it is owed a poll
                    }
                }
                let before = self.now_ms();
                tokio::time::advance(Duration::from_millis(1)).await;
                let now = self.now_ms();
                // the handshake timeout of a pending future that has been polled expires: the task that polled it
                // LAST (which owns it now) is the one that must be woken, whoever polled it before
                for (k, c) in self.conns.iter().enumerate() {
                    if c.sfut.is_some() && c.polled && before < c.deadline_ms && c.deadline_ms <= now && !c.flags[c.cur].get() {
                        let others: Vec<String> = (0..3).filter(|i| *i != c.cur && c.flags[*i].get()).map(|i| i.to_string()).collect();
                        self.t3.push(format!(
                            "handshake timeout of future {k} expired at {} ms: task {}, the last to poll it, was not woken{}",
                            c.deadline_ms,
                            c.cur,
                            if others.is_empty() { String::new() } else { format!("; woken instead: task {}", others.join(",")) }
                        ));
                    }
                }
            }
            format!("t={} woken={}", self.now_ms(), self.woken_list())
        }

        /// executor discipline: every future is polled once when spawned and then whenever its waker has fired
        fn sweep(&mut self, done: &mut Vec<String>) {
            loop {
                let ks: Vec<usize> = self.conns.iter().enumerate().filter(|(_, c)| c.sfut.is_some() && (c.flags[c.cur].get() || !c.polled)).map(|(i, _)| i).collect();
                if ks.is_empty() {
                    break;
                }
                for k in ks {
                    let (deadline, now, diligent) = (self.conns[k].deadline_ms, self.now_ms(), self.conns[k].diligent);
                    if let Some(o) = self.poll_one(k, None) {
                        if now > deadline && diligent {
                            self.t3.push(format!("future {k}, polled whenever woken, resolved at {now} ms, later than its deadline {deadline} ms"));
                        }
                        done.push(format!("{k}:{}@{now}", o.s()));
                    }
                }
            }
        }

        async fn op_run(&mut self, ms: u64) -> String {
            let mut done = vec![];
            self.sweep(&mut done);
            for _ in 0..ms {
                tokio::time::advance(Duration::from_millis(1)).await;
                self.sweep(&mut done);
            }
            // "never later than that": a polled, still-pending future past its deadline is a violation
            let now = self.now_ms();
            for (k, c) in self.conns.iter().enumerate() {
                if c.sfut.is_some() && now >= c.deadline_ms {
                    self.t3.push(format!("future {k} (polled whenever woken) is unresolved at {now} ms, deadline {} ms", c.deadline_ms));
                }
            }
            format!("t={} done=[{}] r={}", now, done.join(","), self.rf())
        }

        /// payload both ways over an accepted stream; the harness sits in the middle of the transport
        async fn op_echo(&mut self, k: usize, n: usize, seed: u64) -> Option<String> {
            let c = self.conns.get_mut(k)?;
            if c.result != Some(Outcome::Ok) || c.sstream.is_none() || c.finished || n > (1 << 20) {
                return None;
            }
            // finish the client's side of the handshake (TLS 1.2: it still has to read the server's Finished)
            if let Some(f) = c.cfut.as_mut() {
                let w = noop();
                if let Poll::Ready(r) = pollu(&w, |cx| f.as_mut().poll(cx)) {
                    c.cfut = None;
                    match r {
                        Ok(s) => c.cstream = Some(s),
                        Err(e) => {
                            self.t3.push(format!("acceptor reported success for connection {k} but the {} client failed: {e}", c.cli));
                            return Some("client-failed".into());
                        }
                    }
                }
            }
            let c = self.conns.get_mut(k)?;
            if c.cstream.is_none() || c.hs.is_none() {
                return Some("client-not-connected".into());
            }
            let mut r = Rng::new(seed);
            let up: Vec<u8> = (0..n).map(|_| r.next() as u8).collect();
            let down: Vec<u8> = (0..n).map(|_| r.next() as u8).collect();
            let mut ss = c.sstream.take().unwrap();
            let mut cs = c.cstream.take().unwrap();
            let hs = c.hs.as_mut().unwrap();
            let hd = &mut c.hd;
            let (up2, down2) = (up.clone(), down.clone());
            let work = async {
                let client = async {
                    // write and read concurrently so that neither direction can stall the other
                    let (mut rd, mut wr) = tokio::io::split(&mut cs);
                    let wfut = async {
                        wr.write_all(&up2).await?;
                        wr.flush().await
                    };
                    let mut got = vec![0u8; down2.len()];
                    let rfut = rd.read_exact(&mut got);
                    let (a, b) = tokio::join!(wfut, rfut);
                    a.and(b.map(|_| ())).map(|_| got)
                };
                let server = async {
                    let (mut rd, mut wr) = tokio::io::split(&mut ss);
                    let wfut = async {
                        wr.write_all(&down2).await?;
                        wr.flush().await
                    };
                    let mut got = vec![0u8; up2.len()];
                    let rfut = rd.read_exact(&mut got);
                    let (a, b) = tokio::join!(wfut, rfut);
                    a.and(b.map(|_| ())).map(|_| got)
                };
                let both = async { tokio::join!(client, server) };
                tokio::pin!(both);
                let pump = tokio::io::copy_bidirectional(hs, hd);
                tokio::pin!(pump);
                tokio::select! {
                    r = &mut both => Some(r),
                    _ = &mut pump => None,
                }
            };
            // virtual-time watchdog: fires only if every task is stalled (the paused clock then auto-advances)
            let res = tokio::time::timeout(Duration::from_secs(86_400), work).await;
            let out = match res {
                Err(_) => {
                    self.t3.push(format!("echo of {n} bytes on connection {k} stalled"));
                    "stalled".to_string()
                }
                Ok(None) => {
                    self.t3.push(format!("transport of connection {k} closed during echo"));
                    "closed".to_string()
                }
                Ok(Some((cr, sr))) => match (cr, sr) {
                    (Ok(cgot), Ok(sgot)) => {
                        if cgot != down || sgot != up {
                            self.t3.push(format!("payload of {n} bytes arrived changed on connection {k}"));
                            "mismatch".to_string()
                        } else {
                            "ok".to_string()
                        }
                    }
                    (a, b) => {
                        self.t3.push(format!("echo I/O error on connection {k}: {:?} {:?}", a.err(), b.err()));
                        "io-error".to_string()
                    }
                },
            };
            let c = self.conns.get_mut(k)?;
            c.sstream = Some(ss);
            c.cstream = Some(cs);
            Some(out)
        }

        /// the client's side of the handshake is finished (TLS 1.2: it still has to read the server's Finished)
        fn ensure_client(&mut self, k: usize) -> Result<(), &'static str> {
            let c = &mut self.conns[k];
            if let Some(f) = c.cfut.as_mut() {
                let w = noop();
                if let Poll::Ready(r) = pollu(&w, |cx| f.as_mut().poll(cx)) {
                    c.cfut = None;
                    match r {
                        Ok(s) => c.cstream = Some(s),
                        Err(e) => {
                            self.t3.push(format!("acceptor reported success for connection {k} but the {} client failed: {e}", c.cli));
                            return Err("client-failed");
                        }
                    }
                }
            }
            let c = &self.conns[k];
            if c.cstream.is_none() || c.hs.is_none() {
                return Err("client-not-connected");
            }
            Ok(())
        }

        /// `xfer k <dir> <n> <seed> <cap> <rchunk> <d|b> <wmode> <fin> <rmode>`: the data-path clause of the
        /// property on one accepted stream.  `n` pseudo-random bytes travel acceptor->peer (`s2c`),
        /// peer->acceptor (`c2s`) or both ways at once over a transport whose write window is `cap` bytes
        /// (0 = unlimited), that hands out at most `rchunk` bytes per read (0 = unlimited) and that either
        /// passes writes on directly (`d`) or holds them until flushed (`b`, like a `BufWriter`).  Writers:
        /// one `write_all`-style loop (`all`), random chunks (`chunk`), random chunks each followed by a
        /// flush (`cflush`), vectored writes of 1..4 slices (`vec`).  `fin = flush`: flush, then wait until
        /// the peer has read every byte (nobody shuts down); `fin = shut`: shut down without a flush, the
        /// peer must read the payload followed by a clean end of stream.  Readers: one buffer filled to the
        /// end (`exact`) or random small buffers (`small`).  Everything is polled by hand: a state in which
        /// nobody has been woken and somebody is not done is a lost-bytes stall.
        fn op_xfer(&mut self, k: usize, p: &XferP) -> Option<String> {
            let c = self.conns.get(k)?;
            if c.result != Some(Outcome::Ok) || c.sstream.is_none() || c.finished {
                return None;
            }
            if let Err(e) = self.ensure_client(k) {
                return Some(e.into());
            }
            let c = self.conns.get_mut(k)?;
            let mut r = Rng::new(p.seed);
            let down: Vec<u8> = if p.dir != Dir::C2s { (0..p.n).map(|_| r.next() as u8).collect() } else { vec![] };
            let up: Vec<u8> = if p.dir != Dir::S2c { (0..p.n).map(|_| r.next() as u8).collect() } else { vec![] };
            let mut ss = c.sstream.take().unwrap();
            let mut cs = c.cstream.take().unwrap();
            let ctl = c.ctl.clone();
            ctl.with(|x| {
                x.cap = p.cap;
                x.rchunk = p.rchunk;
                x.buffered = p.buffered;
                x.inflight = 0;
            });
            let mut srv = Side::new(down.clone(), up.len(), p, p.seed ^ 0x5e);
            let mut cli = Side::new(up.clone(), down.len(), p, p.seed ^ 0xc1);
            let mut mid = Mid { io: c.hs.as_mut().unwrap(), ctl: ctl.clone() };
            let hd = &mut c.hd;
            let mut pump = Box::pin(tokio::io::copy_bidirectional(&mut mid, hd));
            let mut pump_done = false;
            let flag = Flag::new();
            let w = Waker::from(flag.clone());
            let mut rounds = 0u64;
            #[derive(PartialEq)]
            enum V {
                Done,
                Stalled,
                Livelock,
            }
            let verdict = loop {
                flag.clear();
                rounds += 1;
                let done = pollu(&w, |cx| {
                    let a = srv.poll(&mut *ss, cx);
                    let b = cli.poll(&mut *cs, cx);
                    if !pump_done && pump.as_mut().poll(cx).is_ready() {
                        pump_done = true;
                    }
                    Poll::Ready(a && b)
                });
                if let Poll::Ready(true) = done {
                    break V::Done;
                }
                if !flag.get() {
                    break V::Stalled;
                }
                if rounds > 20_000_000 {
                    break V::Livelock;
                }
            };
            // nothing but the payload: with everything delivered, a further read finds no byte (and, unless
            // somebody shut down, no end of stream either)
            let mut extra: Vec<String> = vec![];
            if verdict == V::Done && srv.err.is_none() && cli.err.is_none() && p.fin == Fin::Flush {
                for _ in 0..1000 {
                    flag.clear();
                    let _ = pollu(&w, |cx| {
                        if !pump_done && pump.as_mut().poll(cx).is_ready() {
                            pump_done = true;
                        }
                        probe_read(&mut *ss, cx, "acceptor", &mut extra);
                        probe_read(&mut *cs, cx, "peer", &mut extra);
                        Poll::Ready(())
                    });
                    if !flag.get() || !extra.is_empty() {
                        break;
                    }
                }
            }
            drop(pump);
            let held = ctl.with(|x| {
                let held = x.wbuf.len();
                x.cap = 0;
                x.rchunk = 0;
                x.buffered = false;
                held
            });
            let desc = format!("lib={} cli={} {}", c.lib, c.cli, p.text);
            let progress = format!(
                "acceptor->peer {}/{} bytes arrived (writer {}), peer->acceptor {}/{} bytes arrived (writer {})",
                cli.got.len(), down.len(), srv.wstate(), srv.got.len(), up.len(), cli.wstate()
            );
            let mut out = "ok";
            if let Some(e) = srv.err.as_ref().map(|e| format!("acceptor side: {e}")).or(cli.err.as_ref().map(|e| format!("peer side: {e}"))) {
                self.t3.push(format!("xfer on connection {k} failed: {e}; {progress}; {desc}"));
                out = "io-error";
            } else if verdict == V::Stalled {
                self.t3.push(format!("xfer on connection {k} stalled, written bytes never reach the other side: {progress}; {held} bytes left in the transport's buffer; {desc}"));
                out = "stalled";
            } else if verdict == V::Livelock {
                self.t3.push(format!("xfer on connection {k} does not terminate: {progress}; {desc}"));
                out = "livelock";
            } else if cli.got != down || srv.got != up {
                self.t3.push(format!("xfer on connection {k}: payload arrived changed ({} / {} bytes differ); {desc}", diff(&cli.got, &down), diff(&srv.got, &up)));
                out = "mismatch";
            } else if !extra.is_empty() {
                self.t3.push(format!("xfer on connection {k}: {}; {desc}", extra.join("; ")));
                out = "extra";
            } else if held > 0 {
                self.t3.push(format!("xfer on connection {k}: the transport still holds {held} unflushed bytes after the writer's flush/shutdown returned; {desc}"));
                out = "unflushed";
            }
            c.sstream = Some(ss);
            c.cstream = Some(cs);
            if p.fin == Fin::Shut || out != "ok" {
                c.finished = true;
            }
            Some(out.into())
        }

        /// `rdy k <r|p> <r|p>`: the transport answers `poll_read_ready` / `poll_write_ready` with ready (`r`) or
        /// pending (`p`); the accepted stream's `ActixStream` methods must give the transport's own answers
        /// (value, pending-ness, and the wake-up when the transport becomes ready), each asking only its own
        /// direction
        fn op_rdy(&mut self, k: usize, rd_p: bool, wr_p: bool) -> Option<String> {
            let c = self.conns.get_mut(k)?;
            if c.result != Some(Outcome::Ok) || c.sstream.is_none() || c.finished {
                return None;
            }
            let ss = c.sstream.as_ref().unwrap();
            let ctl = c.ctl.clone();
            let counts = |ctl: &Ctl| ctl.with(|x| (x.n_rready, x.n_wready));
            ctl.with(|x| {
                x.rd_pending = rd_p;
                x.wr_pending = wr_p;
            });
            let (fr, fw) = (Flag::new(), Flag::new());
            let c0 = counts(&ctl);
            let a = pollu(&Waker::from(fr.clone()), |cx| ss.rd_ready(cx));
            let c1 = counts(&ctl);
            let b = pollu(&Waker::from(fw.clone()), |cx| ss.wr_ready(cx));
            let c2 = counts(&ctl);
            let mut bad: Vec<String> = vec![];
            if (c1.0 - c0.0, c1.1 - c0.1) != (1, 0) {
                bad.push(format!("poll_read_ready asked the transport ({} read-ready, {} write-ready) times", c1.0 - c0.0, c1.1 - c0.1));
            }
            if (c2.0 - c1.0, c2.1 - c1.1) != (0, 1) {
                bad.push(format!("poll_write_ready asked the transport ({} read-ready, {} write-ready) times", c2.0 - c1.0, c2.1 - c1.1));
            }
            let show = |r: &Poll<std::io::Result<Ready>>| match r {
                Poll::Pending => "pending".to_string(),
                Poll::Ready(Ok(_)) => "ready".to_string(),
                Poll::Ready(Err(e)) => format!("error:{:?}", e.kind()),
            };
            match &a {
                Poll::Pending if rd_p => {}
                Poll::Ready(Ok(v)) if !rd_p && *v == rd_ready_value() => {}
                other => bad.push(format!("poll_read_ready answered {other:?}, the transport answers {}", if rd_p { "Pending".to_string() } else { format!("{:?}", rd_ready_value()) })),
            }
            match &b {
                Poll::Pending if wr_p => {}
                Poll::Ready(Ok(v)) if !wr_p && *v == wr_ready_value() => {}
                other => bad.push(format!("poll_write_ready answered {other:?}, the transport answers {}", if wr_p { "Pending".to_string() } else { format!("{:?}", wr_ready_value()) })),
            }
            // the transport becomes readable, then writable: exactly the task that asked for that direction is woken
            ctl.fire(true);
            if fr.get() != rd_p || fw.get() {
                bad.push(format!("transport became readable: read-ready task woken={} (expected {rd_p}), write-ready task woken={}", fr.get(), fw.get()));
            }
            fr.clear();
            ctl.fire(false);
            if fw.get() != wr_p || fr.get() {
                bad.push(format!("transport became writable: write-ready task woken={} (expected {wr_p}), read-ready task woken={}", fw.get(), fr.get()));
            }
            let (wrapper, wrapped) = ss.wv();
            if wrapper != wrapped {
                bad.push(format!("is_write_vectored is {wrapper} but the TLS stream it wraps says {wrapped}"));
            }
            let out = format!("rd={} wr={}", show(&a), show(&b));
            for m in bad {
                self.t3.push(format!("readiness pass-through of accepted stream {k} (lib={}): {m}", c.lib));
            }
            Some(out)
        }

        pub async fn op(&mut self, ws: &[&str]) -> String {
            let idx = |s: &str| s.parse::<usize>().ok();
            let r: Option<String> = match ws {
                ["ready"] => Some(self.op_ready(0)),
                ["ready", w] => canon_num(w, 2).map(|w| self.op_ready(w as usize)),
                ["call", lib, cli] => self.op_call(lib, cli, 0),
                ["call", lib, cli, sv] => canon_num(sv, 64).and_then(|sv| self.op_call(lib, cli, sv as usize)),
                ["setmax", n] => canon_num(n, 300).and_then(|n| self.op_setmax(n as usize)),
                ["probe"] => self.op_probe(),
                ["fnew"] => self.op_fnew(),
                ["fset", f, ms] => match (canon_num(f, 64), canon_num(ms, 20_000)) {
                    (Some(f), Some(ms)) if ms >= 1 => self.op_fset(f as usize, ms),
                    _ => None,
                },
                ["fclone", f] => canon_num(f, 64).and_then(|f| self.op_fclone(f as usize)),
                ["fsvc", f] => canon_num(f, 64).and_then(|f| self.op_fsvc(f as usize)),
                ["poll", k] => idx(k).and_then(|k| self.op_poll(k, 0)),
                ["poll", k, w] => match (idx(k), canon_num(w, 2)) {
                    (Some(k), Some(w)) => self.op_poll(k, w as usize),
                    _ => None,
                },
                ["drop", k] => idx(k).and_then(|k| self.op_drop(k)),
                ["cflight", k, mode] => idx(k).and_then(|k| self.op_cflight(k, mode)),
                ["garbage", k, kind] => idx(k).and_then(|k| self.op_garbage(k, kind)),
                ["close", k] => idx(k).and_then(|k| self.op_close(k)),
                ["advance", ms] => match ms.parse::<u64>() {
                    Ok(ms) if ms <= 20_000 => Some(self.op_advance(ms).await),
                    _ => None,
                },
                ["run", ms] => match ms.parse::<u64>() {
                    Ok(ms) if ms <= 20_000 => Some(self.op_run(ms).await),
                    _ => None,
                },
                ["echo", k, n, seed] => match (idx(k), n.parse::<usize>(), seed.parse::<u64>()) {
                    (Some(k), Ok(n), Ok(seed)) => self.op_echo(k, n, seed).await,
                    _ => None,
                },
                ["xfer", k, rest @ ..] => match (idx(k), XferP::parse(rest)) {
                    (Some(k), Some(p)) => self.op_xfer(k, &p),
                    _ => None,
                },
                ["rdy", k, a @ ("r" | "p"), b @ ("r" | "p")] => idx(k).and_then(|k| self.op_rdy(k, *a == "p", *b == "p")),
                _ => None,
            };
            r.unwrap_or_else(|| "bad-op".into())
        }
    }

    /// one acceptor case = one fresh thread (the handshake counter is a thread-local) with its own
    /// current-thread runtime whose clock starts paused
    pub fn run_case(max: Option<usize>, tmo: Option<u64>, set_self: bool, ops: Vec<String>, defaults: (usize, u64)) -> (Vec<String>, Vec<String>, Vec<String>) {
        // The limit is process-wide state configured by start-up code: unless the case says `set=self` it is set
        // HERE, on the harness main thread, before the thread that will host the acceptor services exists - its
        // thread-local counter is created later, on first use, and must be built with this limit.
        if let (Some(m), false) = (max, set_self) {
            actix_tls::accept::max_concurrent_tls_connect(m);
        }
        std::thread::spawn(move || {
            let rt = tokio::runtime::Builder::new_current_thread().enable_all().start_paused(true).build().unwrap();
            rt.block_on(async move {
                let mut case = AccCase::new(max, set_self, tmo, defaults.0, defaults.1);
                let mut outs = vec![];
                for line in &ops {
                    let ws: Vec<&str> = line.split_whitespace().collect();
                    outs.push(case.op(&ws).await);
                    tokio::task::yield_now().await;
                }
                (outs, std::mem::take(&mut case.t3), std::mem::take(&mut case.notes))
            })
        })
        .join()
        .unwrap_or_else(|_| (vec![], vec![], vec![]))
    }
}


// ------------------------------------------------------------------------------------------------
// C19 (TLS part): the connector services against in-process TLS servers over tokio::io::duplex
// ------------------------------------------------------------------------------------------------
mod tconn {
    use std::{
        cell::RefCell,
        collections::HashMap,
        pin::Pin,
        rc::Rc,
        sync::Arc,
        task::{Context, Poll},
        time::Duration,
    };

    use actix_service::{Service, ServiceFactory};
    use actix_tls::connect::{openssl as c_ossl, rustls_0_23 as c_rustls, Connection};
    use tokio::io::{AsyncRead, AsyncReadExt, AsyncWrite, AsyncWriteExt, ReadBuf};

    use super::{acc::Dx, conn::HostReq, pki};
    use vh::Rng;

    /// server-side transport that records whether the client ever sent a byte
    struct Counted {
        io: tokio::io::DuplexStream,
        seen: Rc<RefCell<usize>>,
    }
    impl AsyncRead for Counted {
        fn poll_read(mut self: Pin<&mut Self>, cx: &mut Context<'_>, buf: &mut ReadBuf<'_>) -> Poll<std::io::Result<()>> {
            let before = buf.filled().len();
            let r = Pin::new(&mut self.io).poll_read(cx, buf);
            *self.seen.borrow_mut() += buf.filled().len() - before;
            r
        }
    }
    impl AsyncWrite for Counted {
        fn poll_write(mut self: Pin<&mut Self>, cx: &mut Context<'_>, buf: &[u8]) -> Poll<std::io::Result<usize>> {
            Pin::new(&mut self.io).poll_write(cx, buf)
        }
        fn poll_flush(mut self: Pin<&mut Self>, cx: &mut Context<'_>) -> Poll<std::io::Result<()>> {
            Pin::new(&mut self.io).poll_flush(cx)
        }
        fn poll_shutdown(mut self: Pin<&mut Self>, cx: &mut Context<'_>) -> Poll<std::io::Result<()>> {
            Pin::new(&mut self.io).poll_shutdown(cx)
        }
    }

    pub struct Pki {
        good: pki::Ca,
        bad: pki::Ca,
        leaves: HashMap<(String, bool), Arc<pki::Leaf>>,
        rustls_client: Arc<tokio_rustls::rustls::ClientConfig>,
        openssl_client: openssl::ssl::SslConnector,
    }
    impl Pki {
        pub fn new() -> Pki {
            let good = pki::new_ca("verif trusted ca");
            let bad = pki::new_ca("verif untrusted ca");
            let rustls_client = pki::rustls_client_any(&good);
            let openssl_client = pki::openssl_client_any(&good);
            Pki { good, bad, leaves: HashMap::new(), rustls_client, openssl_client }
        }
        fn leaf(&mut self, names: &str, trusted: bool) -> Option<Arc<pki::Leaf>> {
            if let Some(l) = self.leaves.get(&(names.to_string(), trusted)) {
                return Some(l.clone());
            }
            let sans: Vec<String> = names.split(';').filter(|x| !x.is_empty()).map(|x| x.to_string()).collect();
            let l = super::catch(|| pki::new_leaf(if trusted { &self.good } else { &self.bad }, &sans)).ok()?;
            let l = Arc::new(l);
            self.leaves.insert((names.to_string(), trusted), l.clone());
            Some(l)
        }
    }

    pub struct TOp {
        pub lib: String,
        /// construction path of the connector service (`k` = `TlsConnector::service(config)`)
        pub path: String,
        /// `#<slot>[c]`: call the instance kept in this slot (a clone of it if `c`) instead of a one-shot service
        pub slot: Option<(usize, bool)>,
        pub srv: String,
        pub names: String,
        pub trusted: bool,
        pub host: HostReq,
        pub payload: usize,
    }

    /// does a certificate with these SANs cover `host`?  (reference for the oracle; the generator keeps
    /// to names for which this textbook rule is not in dispute: exact, single-label wildcard, IP SAN)
    /// The name a TLS stack verifies when it is handed `host`, and the certificate names it will consider -
    /// the per-library reading of a fully qualified name, measured on the unchanged tree and kept as the reference:
    /// rustls treats ONE trailing dot as the root label (it verifies, and sends as SNI, the name without it) and
    /// never matches a certificate name that itself ends in a dot; OpenSSL takes the name exactly as given.
    /// Anything beyond that (two trailing dots, an inner empty label, ...) is the name as given: not a valid DNS name.
    pub fn covers_for(lib: &str, names: &str, host: &str) -> bool {
        if lib == "r" {
            let stripped = host.strip_suffix('.').unwrap_or(host);
            let names: Vec<&str> = names.split(';').filter(|n| !n.ends_with('.')).collect();
            covers(&names.join(";"), stripped)
        } else {
            covers(names, host)
        }
    }

    pub fn covers(names: &str, host: &str) -> bool {
        let host_l = host.to_ascii_lowercase();
        let is_ip = host.parse::<std::net::IpAddr>().is_ok();
        names.split(';').filter(|x| !x.is_empty()).any(|n| {
            let n = n.to_ascii_lowercase();
            if is_ip || n.parse::<std::net::IpAddr>().is_ok() {
                return is_ip && n.parse::<std::net::IpAddr>().ok() == host.parse::<std::net::IpAddr>().ok();
            }
            if let Some(rest) = n.strip_prefix("*.") {
                match host_l.split_once('.') {
                    Some((label, tail)) => !label.is_empty() && tail == rest,
                    None => false,
                }
            } else {
                n == host_l
            }
        })
    }

    pub enum TRes {
        Ok { sni: Option<String>, echo: String },
        InvalidInput { io: usize },
        Handshake { io: usize },
        Panic,
        Watchdog,
    }

    async fn echo<A: AsyncRead + AsyncWrite + Unpin, B: AsyncRead + AsyncWrite + Unpin>(c: &mut A, s: &mut B, n: usize, seed: u64) -> String {
        let mut r = Rng::new(seed);
        let up: Vec<u8> = (0..n).map(|_| r.next() as u8).collect();
        let down: Vec<u8> = (0..n).map(|_| r.next() as u8).collect();
        let client = async {
            let (mut rd, mut wr) = tokio::io::split(c);
            let wf = async {
                wr.write_all(&up).await?;
                wr.flush().await
            };
            let mut got = vec![0u8; n];
            let rf = rd.read_exact(&mut got);
            let (a, b) = tokio::join!(wf, rf);
            a.and(b.map(|_| ())).map(|_| got)
        };
        let server = async {
            let (mut rd, mut wr) = tokio::io::split(s);
            let wf = async {
                wr.write_all(&down).await?;
                wr.flush().await
            };
            let mut got = vec![0u8; n];
            let rf = rd.read_exact(&mut got);
            let (a, b) = tokio::join!(wf, rf);
            a.and(b.map(|_| ())).map(|_| got)
        };
        match tokio::join!(client, server) {
            (Ok(cg), Ok(sg)) => {
                if cg == down && sg == up {
                    "ok".into()
                } else {
                    "mismatch".into()
                }
            }
            _ => "io-error".into(),
        }
    }

    /// connector service instances a `kind=tlsconn` case keeps between its ops (`#<slot>`)
    #[derive(Default)]
    pub struct Slots {
        r: HashMap<usize, c_rustls::TlsConnectorService>,
        o: HashMap<usize, c_ossl::TlsConnectorService>,
    }

    pub fn run(rt: &tokio::runtime::Runtime, pk: &mut Pki, slots: &mut Slots, op: &TOp) -> Option<TRes> {
        let leaf = pk.leaf(&op.names, op.trusted)?;
        let (cend, send) = tokio::io::duplex(1 << 20);
        let seen = Rc::new(RefCell::new(0usize));
        let sio = Counted { io: send, seen: seen.clone() };
        let conn = Connection::new(op.host.clone(), Dx::plain(cend));
        let n = op.payload;
        let r = super::catch(|| {
            rt.block_on(async {
                let work = async {
                    match (op.lib.as_str(), op.srv.as_str()) {
                        (lib, srv) => {
                            // server side
                            let rcfg = Arc::new(pki::rustls_server(&leaf));
                            let oacc = pki::openssl_server(&leaf);
                            let sfut = async {
                                match srv {
                                    "r" => match tokio_rustls::TlsAcceptor::from(rcfg).accept(sio).await {
                                        Ok(s) => {
                                            let sni = s.get_ref().1.server_name().map(|x| x.to_string());
                                            Ok((sni, Box::new(s) as super::acc::BoxIo))
                                        }
                                        Err(e) => Err(e.to_string()),
                                    },
                                    _ => {
                                        let ssl = openssl::ssl::Ssl::new(oacc.context()).unwrap();
                                        let mut st = tokio_openssl::SslStream::new(ssl, sio).unwrap();
                                        match Pin::new(&mut st).accept().await {
                                            Ok(()) => {
                                                let sni = st.ssl().servername(openssl::ssl::NameType::HOST_NAME).map(|x| x.to_string());
                                                Ok((sni, Box::new(st) as super::acc::BoxIo))
                                            }
                                            Err(e) => Err(e.to_string()),
                                        }
                                    }
                                }
                            };
                            // client side: the connector service under test
                            let cfut = async {
                                type Req = Connection<HostReq, Dx>;
                                let path = op.path.as_str();
                                let r: Result<super::acc::BoxIo, std::io::Error> = match lib {
                                    "r" => {
                                        let build = async {
                                        let svc: c_rustls::TlsConnectorService = match path {
                                            "k" => c_rustls::TlsConnector::service(pk.rustls_client.clone()),
                                            "kc" => {
                                                let a = c_rustls::TlsConnector::service(pk.rustls_client.clone());
                                                let b = a.clone();
                                                drop(a);
                                                b
                                            }
                                            "f" => ServiceFactory::<Req>::new_service(&c_rustls::TlsConnector::new(pk.rustls_client.clone()), ()).await.unwrap(),
                                            "cf" => {
                                                let a = c_rustls::TlsConnector::new(pk.rustls_client.clone());
                                                let b = a.clone();
                                                drop(a);
                                                ServiceFactory::<Req>::new_service(&b, ()).await.unwrap()
                                            }
                                            _ => {
                                                let a = ServiceFactory::<Req>::new_service(&c_rustls::TlsConnector::new(pk.rustls_client.clone()), ()).await.unwrap();
                                                let b = a.clone();
                                                drop(a);
                                                b
                                            }
                                        };
                                        svc
                                        };
                                        // one-shot service, or the instance kept in a slot of the case (built on first
                                        // use, then REUSED for every later call on that slot), or a fresh clone of it
                                        let fut = match op.slot {
                                            None => build.await.call(conn),
                                            Some((k, cloned)) => {
                                                if !slots.r.contains_key(&k) {
                                                    let svc = build.await;
                                                    slots.r.insert(k, svc);
                                                }
                                                let inst = slots.r.get(&k).unwrap();
                                                if cloned {
                                                    let c = inst.clone();
                                                    let f = c.call(conn);
                                                    drop(c);
                                                    f
                                                } else {
                                                    inst.call(conn)
                                                }
                                            }
                                        };
                                        fut.await.map(|c| Box::new(c.into_parts().0) as super::acc::BoxIo)
                                    }
                                    _ => {
                                        let build = async {
                                        let svc: c_ossl::TlsConnectorService = match path {
                                            "k" => c_ossl::TlsConnector::service(pk.openssl_client.clone()),
                                            "kc" => {
                                                let a = c_ossl::TlsConnector::service(pk.openssl_client.clone());
                                                let b = a.clone();
                                                drop(a);
                                                b
                                            }
                                            "f" => ServiceFactory::<Req>::new_service(&c_ossl::TlsConnector::new(pk.openssl_client.clone()), ()).await.unwrap(),
                                            "cf" => {
                                                let a = c_ossl::TlsConnector::new(pk.openssl_client.clone());
                                                let b = a.clone();
                                                drop(a);
                                                ServiceFactory::<Req>::new_service(&b, ()).await.unwrap()
                                            }
                                            _ => {
                                                let a = ServiceFactory::<Req>::new_service(&c_ossl::TlsConnector::new(pk.openssl_client.clone()), ()).await.unwrap();
                                                let b = a.clone();
                                                drop(a);
                                                b
                                            }
                                        };
                                        svc
                                        };
                                        // one-shot service, or the instance kept in a slot of the case (built on first
                                        // use, then REUSED for every later call on that slot), or a fresh clone of it
                                        let fut = match op.slot {
                                            None => build.await.call(conn),
                                            Some((k, cloned)) => {
                                                if !slots.o.contains_key(&k) {
                                                    let svc = build.await;
                                                    slots.o.insert(k, svc);
                                                }
                                                let inst = slots.o.get(&k).unwrap();
                                                if cloned {
                                                    let c = inst.clone();
                                                    let f = c.call(conn);
                                                    drop(c);
                                                    f
                                                } else {
                                                    inst.call(conn)
                                                }
                                            }
                                        };
                                        fut.await.map(|c| Box::new(c.into_parts().0) as super::acc::BoxIo)
                                    }
                                };
                                r
                            };
                            let (sr, cr) = tokio::join!(sfut, cfut);
                            match (cr, sr) {
                                (Ok(mut c), Ok((sni, mut s))) => {
                                    let e = echo(&mut c, &mut s, n, n as u64 + 3).await;
                                    TRes::Ok { sni, echo: e }
                                }
                                (Ok(_), Err(_)) => TRes::Ok { sni: None, echo: "server-failed".into() },
                                (Err(e), _) => {
                                    if e.kind() == std::io::ErrorKind::InvalidInput {
                                        TRes::InvalidInput { io: *seen.borrow() }
                                    } else {
                                        TRes::Handshake { io: *seen.borrow() }
                                    }
                                }
                            }
                        }
                    }
                };
                match tokio::time::timeout(Duration::from_secs(20), work).await {
                    Ok(r) => r,
                    Err(_) => TRes::Watchdog,
                }
            })
        });
        Some(r.unwrap_or(TRes::Panic))
    }
}

// ------------------------------------------------------------------------------------------------
// generator
// ------------------------------------------------------------------------------------------------

fn gen_c19(a: &Args, w: &mut dyn Write) {
    let mut rng = Rng::new(a.seed ^ 0xC19);
    let thorough = a.tier == "thorough";
    let dflt = {
        use std::net::ToSocketAddrs;
        let ips: Vec<String> = "localhost:0".to_socket_addrs().map(|i| i.map(|a| a.ip().to_string()).collect()).unwrap_or_default();
        format!("dflt={}", ips.join(";"))
    };
    let mut n = 0;
    // construction paths, rotated through every grid below: `via` = `<base>[:<path>]`
    let mut pc = 0usize;
    let mut via = |base: &str, dflt_res: bool| -> String {
        pc += 1;
        let mut ps: Vec<&str> = vec!["s", "f", "cs", "cf", "sc", "fc"];
        if base == "resolve" && !dflt_res {
            ps.extend(["k", "kc"]);
        }
        if base == "tcp" || dflt_res {
            ps.extend(["d", "ds", "df"]);
        }
        match ps[pc % ps.len()] {
            "s" if pc % 2 == 0 => base.to_string(),
            p => format!("{base}:{p}"),
        }
    };
    // (0) every way of obtaining a service from its factory (`service()`, `ServiceFactory::new_service`, clones of
    //     the factory / of the service, direct construction, `Default`), each with a custom resolver whose
    //     answer differs from what the OS resolver would say for the same name, with an empty and a failing
    //     resolver, an IP literal, pre-set addresses, and the bare TCP connector
    for p in ["f", "cf", "fc", "s", "cs", "sc"] {
        writeln!(w, "case path-{p} kind=conn eps=L4,L4,C4").unwrap();
        for base in ["full", "resolve"] {
            writeln!(w, "conn {base}:{p} ok=e1 s=localhost:@0").unwrap();
            writeln!(w, "conn {base}:{p} ok= s=localhost:@0").unwrap();
            writeln!(w, "conn {base}:{p} err s=localhost:@0").unwrap();
            writeln!(w, "conn {base}:{p} ok=e2;e1;e0 s=path.test:80").unwrap();
            writeln!(w, "conn {base}:{p} ok=127.0.0.1:P h=path.test,@1 from").unwrap();
            writeln!(w, "conn {base}:{p} ok=e1 t=127.0.0.1:@0").unwrap();
            writeln!(w, "conn {base}:{p} ok=e1;e0 t=path.test:@2").unwrap();
            writeln!(w, "conn {base}:{p} err s=path.test with=e1").unwrap();
            writeln!(w, "conn {base}:{p} ok=e0 s=path.test addrs=e2;e1 port=@0").unwrap();
            // the request's own port wins over `set_port` (resolver asked with it, literal dialled at it);
            // without one (none / not a u16) the `set_port` value counts
            writeln!(w, "conn {base}:{p} ok=127.0.0.1:P s=path.test:@0 port=@1").unwrap();
            writeln!(w, "conn {base}:{p} err t=127.0.0.1:@0 port=@1").unwrap();
            writeln!(w, "conn {base}:{p} ok=127.0.0.1:P h=path.test,@1 port=@0 port=@2").unwrap();
            writeln!(w, "conn {base}:{p} ok=127.0.0.1:P s=path.test:x port=@0 port=@1").unwrap();
            writeln!(w, "conn {base}:{p} ok= s=127.0.0.1 from port=@1").unwrap();
        }
        writeln!(w, "conn tcp:{p} err s=path.test addrs=e2;e1").unwrap();
        writeln!(w, "conn tcp:{p} err s=path.test:@0").unwrap();
        writeln!(w, "conn tcp:{p} ok=e0 s=127.0.0.1:@0 from").unwrap();
        writeln!(w, "conn tcp:{p} ok=e0 s=path.test with=e0 local=127.0.0.1").unwrap();
    }
    writeln!(w, "case path-direct kind=conn eps=L4,L4,C4").unwrap();
    for p in ["k", "kc"] {
        writeln!(w, "conn resolve:{p} ok=e1 s=localhost:@0").unwrap();
        writeln!(w, "conn resolve:{p} ok= s=localhost:@0").unwrap();
        writeln!(w, "conn resolve:{p} err s=path.test:1").unwrap();
        writeln!(w, "conn resolve:{p} err s=127.0.0.1:@1").unwrap();
        writeln!(w, "conn resolve:{p} ok=e0 s=path.test addr=e1").unwrap();
    }
    writeln!(w, "case path-default kind=conn eps=L4,L4,C4").unwrap();
    for p in ["d", "ds", "df", "s", "f", "cf"] {
        for base in ["full", "resolve"] {
            writeln!(w, "conn {base}:{p} {dflt} s=localhost:@0").unwrap();
            writeln!(w, "conn {base}:{p} {dflt} s=nx.invalid:@0").unwrap();
            writeln!(w, "conn {base}:{p} {dflt} s=127.0.0.1:@1").unwrap();
            writeln!(w, "conn {base}:{p} {dflt} s=nx.invalid with=e1").unwrap();
            // a failing OS look-up is `ConnectError::Resolver` (no network needed: `.invalid` never resolves)
            writeln!(w, "conn {base}:{p} {dflt} t=nonexistent.invalid:80").unwrap();
            writeln!(w, "conn {base}:{p} {dflt} h=nonexistent.invalid,- from port=@0").unwrap();
            writeln!(w, "conn {base}:{p} {dflt} s=localhost:@1 port=@0").unwrap();
        }
        writeln!(w, "conn tcp:{p} err s=path.test addrs=e2;e0").unwrap();
        writeln!(w, "conn tcp:{p} {dflt} s=localhost:@0").unwrap();
    }
    // malformed / inapplicable paths
    for bad in ["conn full:k ok=e0 s=a.test", "conn tcp:kc err s=a.test addr=e0", "conn full:d ok=e0 s=a.test", "conn resolve:df err s=a.test", "conn full:x ok=e0 s=a.test", "conn full: ok=e0 s=a.test", "conn full:f:f ok=e0 s=a.test", "conn :f ok=e0 s=a.test", "conn full:f ok=e0 s=a.test port=1 from"] {
        writeln!(w, "{bad}").unwrap();
    }
    writeln!(w, "conn resolve:k {dflt} s=localhost").unwrap();
    // (B) the ConnectInfo builder surface in every order: set_addr(Some / None), set_addrs (0, 1, several), with_addr,
    //     set_port before / after, `take` (= take_addrs: the addresses are handed out, the request is unresolved again)
    //     - pre-set addresses are used iff present at connect time, otherwise IP literal / resolver / Unresolved
    let pieces = ["addr=e0", "addrs=e2;e0", "addrs=e1", "addrs=", "addr=none", "take", "port=@1", "with=e0"];
    let mut bi = 0usize;
    for a in 0..pieces.len() {
        writeln!(w, "case builder-{a} kind=conn eps=L4,L4,C4").unwrap();
        for b in 0..pieces.len() - 1 {
            for c in [5usize, 0, 3, 6] {
                // (`with=` can only come first)
                let mut seq: Vec<&str> = vec![pieces[a], pieces[b], pieces[c]];
                if a != pieces.len() - 1 {
                    seq.retain(|x| !x.starts_with("with="));
                }
                bi += 1;
                let steps = seq.join(" ");
                let host = ["s=build.test:80", "s=127.0.0.1:@1", "h=build.test,-", "t=build.test"][bi % 4];
                writeln!(w, "conn {} ok=e1;e0 {host} {steps}", via("full", false)).unwrap();
                match bi % 3 {
                    0 => writeln!(w, "conn {} err {host} {steps}", via("tcp", false)).unwrap(),
                    1 => writeln!(w, "conn {} ok= {host} {steps}", via("resolve", false)).unwrap(),
                    _ => writeln!(w, "conn {} err {host} {steps} take", via("full", false)).unwrap(),
                }
            }
        }
    }
    // (U) `http::Uri` requests (feature `uri`; `u=` http 1, `v=` http 0.2): every scheme of connect/uri.rs and
    //     two unlisted ones, with / without an explicit port, name and IP-literal hosts, authority form, path-only
    //     form, a bracketed IPv6 host.  The well-known ports themselves are never dialled (a developer machine
    //     may run a redis or postgres there): names go through a custom resolver that answers with an endpoint
    //     and logs the port it was asked for; literals go through the resolver service only.
    let schemes = ["http", "https", "ws", "wss", "amqp", "amqps", "mqtt", "mqtts", "ftp", "ftps", "redis", "mysql", "postgres", "gopher", "h2c"];
    for (si, sch) in schemes.iter().enumerate() {
        writeln!(w, "case uri-{sch} kind=conn eps=L4,L4,C4").unwrap();
        for tag in ["u", "v"] {
            writeln!(w, "conn {} ok=e1 {tag}={sch}://uri.test/some/path", via("full", false)).unwrap();
            writeln!(w, "conn {} ok=127.0.0.1:P;e0 {tag}={sch}://uri.test", via("resolve", false)).unwrap();
            writeln!(w, "conn {} err {tag}={sch}://uri.test/ port=@1", via("resolve", false)).unwrap();
            writeln!(w, "conn {} ok=e0 {tag}={sch}://uri.test:@1/x port=@0", via("full", false)).unwrap();
            writeln!(w, "conn {} ok=e0 {tag}={sch}://127.0.0.1/ port=@1", via("resolve", false)).unwrap();
            writeln!(w, "conn {} err {tag}={sch}://127.0.0.1:@0/x_y port=@1", via("full", false)).unwrap();
            if si % 3 == 0 {
                writeln!(w, "conn {} ok=e1 {tag}={sch}://[::1]/ from", via("resolve", false)).unwrap();
                writeln!(w, "conn {} ok= {tag}={sch}://uri.test:0/", via("resolve", false)).unwrap();
                writeln!(w, "conn {} err {tag}={sch}://uri.test/ with=e0", via("full", false)).unwrap();
                writeln!(w, "conn {} err {tag}={sch}://uri.test/ addrs=e2;e1", via("tcp", false)).unwrap();
            }
        }
    }
    writeln!(w, "case uri-forms kind=conn eps=L4,L4,C4").unwrap();
    for tag in ["u", "v"] {
        for l in [
            "conn full ok=e1 {t}=uri.test:@0 port=@1", "conn resolve ok=e1 {t}=uri.test port=@1", "conn resolve ok=e1 {t}=uri.test", "conn resolve ok=e1 {t}=/only/a/path port=@1",
            "conn resolve ok=e1 {t}=/", "conn full err {t}=127.0.0.1:@0", "conn resolve err {t}=127.0.0.1 port=@1", "conn resolve ok=e0 {t}=[::1]:@1", "conn resolve ok=e0 {t}=x+y.z-1://uri.test/ port=@0",
            "conn resolve dflt= {t}=wss://nonexistent.invalid/", "conn resolve ok=e0 {t}=wss://uri.test:65535/", "conn resolve ok=e0 {t}=wss://uri.test:443/ port=80",
            // malformed (the op grammar; never handed to the crate)
            "conn resolve ok=e0 {t}=WSS://uri.test/", "conn resolve ok=e0 {t}=wss://Uri.test/", "conn resolve ok=e0 {t}=wss://uri.test:0443/", "conn resolve ok=e0 {t}=wss://uri.test:65536/",
            "conn resolve ok=e0 {t}=wss://uri.test:/", "conn resolve ok=e0 {t}=wss:///x", "conn resolve ok=e0 {t}=uri.test:80/x", "conn resolve ok=e0 {t}=wss://uri.test/a?b", "conn resolve ok=e0 {t}=1ws://uri.test/",
            "conn resolve ok=e0 {t}=wss://u_i.test/", "conn resolve ok=e0 {t}=", "conn resolve ok=e0 {t}=wss://uri.test:@9/", "conn resolve ok=e0 {t}=wss://[::2]/",
        ] {
            writeln!(w, "{}", l.replace("{t}", tag)).unwrap();
        }
    }
    // (1) every live/closed pattern of length 0..4, through the resolver, pre-set, and the bare TCP connector
    for len in 0..=4usize {
        for mask in 0..(1u32 << len) {
            for fam in 0..(if thorough { 3 } else { 2 }) {
                // fam 0: all v4; fam 1/2: random v4/v6 mix (makes the per-address errors differ under a local bind)
                let kinds: Vec<&str> = (0..len)
                    .map(|i| {
                        let live = mask >> i & 1 == 1;
                        let v6 = fam > 0 && rng.chance(1, 2);
                        match (live, v6) {
                            (true, false) => "L4",
                            (false, false) => "C4",
                            (true, true) => "L6",
                            (false, true) => "C6",
                        }
                    })
                    .collect();
                n += 1;
                writeln!(w, "case pat-{n} kind=conn eps={}", kinds.join(",")).unwrap();
                let list: Vec<String> = (0..len).map(|i| format!("e{i}")).collect();
                let l = list.join(";");
                let locals: &[&str] = if fam == 0 { &[""] } else { &["", " local=127.0.0.1", " local=::1"] };
                for loc in locals {
                    writeln!(w, "conn {} ok={l} s=pat.test:80{loc}", via("full", false)).unwrap();
                    writeln!(w, "conn {} err s=pat.test:80 addrs={l}{loc}", via("full", false)).unwrap();
                    writeln!(w, "conn {} err s=pat.test addrs={l}{loc}", via("tcp", false)).unwrap();
                    if len == 1 {
                        writeln!(w, "conn {} err s=pat.test with=e0{loc}", via("full", false)).unwrap();
                        writeln!(w, "conn {} ok= h=pat.test,- addr=e0{loc}", via("tcp", false)).unwrap();
                    }
                    writeln!(w, "conn {} ok={l} s=pat.test:80{loc}", via("resolve", false)).unwrap();
                }
            }
        }
    }
    // (1b) all addresses fail with *different* errors: the answer must be the LAST one's
    //      (IPv4-bound socket -> IPv6 target: 97; IPv6-bound -> IPv4 target: 22; refused: 111)
    writeln!(w, "case lasterr kind=conn eps=C4,C6,C4,C6,L4,L6").unwrap();
    for loc in ["127.0.0.1", "::1", "127.0.0.3"] {
        for l in ["e0;e1", "e1;e0", "e0;e1;e2", "e1;e0;e3", "e0;e1;e2;e3", "e3;e2;e1;e0", "e1;e1;e0", "e0;e0;e1", "e5;e0", "e4;e1", "e1;e4", "e0;e5"] {
            writeln!(w, "conn {} ok={l} s=last.test:1 local={loc}", via("full", false)).unwrap();
            writeln!(w, "conn {} err s=last.test addrs={l} local={loc}", via("tcp", false)).unwrap();
        }
    }
    // (2) host strings, ports, IP literals, precedence of request port / set_port / with_addr
    let hosts = [
        "lit.test", "lit.test:80", "lit.test:@0", "lit.test:+@0", "lit.test:0@0", "lit.test:false", "lit.test:false:false",
        "lit.test:", ":@0", "~", "lit.test:65535", "lit.test:65536", "lit.test:-1", "127.0.0.1", "127.0.0.1:@0", "127.0.0.1:@1",
        "127.0.0.1:x", "127.0.0.01:@0", "127.0.0.256:@0", "127.0.1:@0", "127.0.0.1.:@0", "127.0.0.2:@0", "localhost:@0", "localhost", "nx.invalid:@0",
        "LIT.test:@0", "lit.test:@0:@1", "127.0.0.1:@0:9",
    ];
    for (k, h) in hosts.iter().enumerate() {
        writeln!(w, "case host-{k} kind=conn eps=L4,C4,L6").unwrap();
        for res in ["ok=e0", "ok=127.0.0.1:P", "ok=127.0.0.1:P;e0", "ok=", "err", dflt.as_str()] {
            for steps in ["", " port=@0", " port=@1", " with=e0", " with=e1 port=@0", " addr=e0", " addrs=e1;e0 addr=none", " port=@1 port=@0"] {
                for base in ["full", "resolve"] {
                    // the OS resolver is only exercised for `localhost`, a name that cannot exist, and strict IPv4 literals
                    // (getaddrinfo also accepts inet_aton forms such as 127.0.1, which is outside the claim)
                    if res.starts_with("dflt") && !(h.starts_with("localhost") || h.starts_with("nx.invalid") || h.starts_with("127.0.0.1:@") || *h == "127.0.0.1" || h.starts_with("127.0.0.2:")) {
                        continue;
                    }
                    let from = if !steps.contains("with=") && k % 3 == 0 { " from" } else { "" };
                    // the request is a `String` or a `&'static str` (two `Host` impls with the same parsing rule)
                    let tag = if (k + steps.len()) % 3 == 1 { "t" } else { "s" };
                    writeln!(w, "conn {} {res} {tag}={h}{from}{steps}", via(base, res.starts_with("dflt"))).unwrap();
                }
            }
        }
        writeln!(w, "conn {} err t={h}", via("tcp", false)).unwrap();
        writeln!(w, "conn {} err s={h} port=@0", via("tcp", false)).unwrap();
    }
    // custom Host impls: hostname and port independent of any string syntax (incl. an IPv6 literal)
    let hs = ["c.test,-", "c.test,@0", "c.test,@1", "127.0.0.1,@0", "127.0.0.1,-", "::1,@2", "::1,-", "::1,@0", "c.test:99,@0", "~,@0"];
    for (k, h) in hs.iter().enumerate() {
        writeln!(w, "case chost-{k} kind=conn eps=L4,C4,L6").unwrap();
        for res in ["ok=e0", "ok=::1:P;127.0.0.1:P", "ok=", "err"] {
            for steps in ["", " port=@0", " port=@2", " with=e2", " addrs=e1;e2;e0", " local=127.0.0.1", " local=::1 port=@2"] {
                for base in ["full", "resolve", "tcp"] {
                    writeln!(w, "conn {} {res} h={h}{steps}", via(base, false)).unwrap();
                }
            }
        }
    }
    // (3) random compositions
    let cases = if thorough { 3000 } else { 300 };
    let kinds = ["L4", "C4", "L6", "C6"];
    for c in 0..cases {
        let ne = rng.range(1, 5);
        let eps: Vec<&str> = (0..ne).map(|_| *rng.pick(&kinds)).collect();
        writeln!(w, "case rnd-{c} kind=conn eps={}", eps.join(",")).unwrap();
        let addr = |rng: &mut Rng| format!("e{}", rng.below(ne));
        let addrs = |rng: &mut Rng, max: usize| {
            let k = rng.below(max + 1);
            (0..k).map(|_| format!("e{}", rng.below(ne))).collect::<Vec<_>>().join(";")
        };
        for _ in 0..rng.range(2, 6) {
            let base = *rng.pick(&["full", "full", "full", "resolve", "tcp"]);
            let via = via(base, false);
            let res = match rng.below(6) {
                0 => "err".to_string(),
                1 => "ok=".to_string(),
                2 => format!("ok=127.0.0.1:P;{}", addrs(&mut rng, 2)),
                _ => format!("ok={}", addrs(&mut rng, 4)),
            };
            let host = match rng.below(8) {
                0 => format!("s=127.0.0.1:@{}", rng.below(ne)),
                1 => "s=127.0.0.1".to_string(),
                2 => format!("h=::1,@{}", rng.below(ne)),
                3 => format!("{}=r.test:@{}", rng.pick(&["s", "t"]), rng.below(ne)),
                4 => format!("h=r.test,@{}", rng.below(ne)),
                5 => "s=r.test:bad".to_string(),
                6 => format!("{}={}://r.test{}", rng.pick(&["u", "v"]), rng.pick(&["http", "https", "ws", "wss", "amqp", "amqps", "mqtt", "mqtts", "ftp", "nope"]), rng.pick(&["", "/", ":@0", ":@0/x"])),
                _ => "s=r.test".to_string(),
            };
            let mut steps = String::new();
            if rng.chance(1, 6) {
                steps.push_str(&format!(" with={}", addr(&mut rng)));
            } else if rng.chance(1, 5) {
                steps.push_str(" from");
            }
            for _ in 0..rng.below(3) {
                match rng.below(5) {
                    0 => steps.push_str(&format!(" port=@{}", rng.below(ne))),
                    1 => steps.push_str(&format!(" addr={}", if rng.chance(1, 4) { "none".to_string() } else { addr(&mut rng) })),
                    2 => steps.push_str(&format!(" addrs={}", addrs(&mut rng, 4))),
                    3 => steps.push_str(*rng.pick(&[" local=127.0.0.1", " local=::1", " local=127.0.0.2", " local=198.51.100.7"])),
                    4 if rng.chance(1, 2) => steps.push_str(" take"),
                    _ => {}
                }
            }
            writeln!(w, "conn {via} {res} {host}{steps}").unwrap();
        }
        // malformed
        if rng.chance(1, 10) {
            writeln!(w, "{}", rng.pick(&["conn", "conn full", "conn x err s=a", "conn full ok=e9 s=a", "conn full err q=a", "conn full err s=a with", "conn full err s=a port=70000", "frob"])).unwrap();
        }
    }
    // (4) TLS connector services (rustls 0.23, OpenSSL) against in-process servers (rustls / OpenSSL) whose
    //     certificate (rcgen, run time) does / does not cover the requested name, trusted / untrusted issuer
    let l63 = "a".repeat(63);
    let name_of_len = |n: usize| -> String {
        // labels of at most 63 bytes, total length n (n >= 200)
        if n <= 255 {
            format!("{l63}.{l63}.{l63}.{}", "b".repeat(n - 192))
        } else {
            format!("{l63}.{l63}.{l63}.{}.{}", "b".repeat(31), "c".repeat(n - 224))
        }
    };
    let mut thosts: Vec<String> = [
        "s=a.test", "s=a.test:443", "s=b.a.test", "s=c.b.a.test", "s=A.TEST", "s=B.a.Test:8443", "s=127.0.0.1", "s=127.0.0.1:8443", "h=::1,-", "h=a.test,8443",
        "h=b.a.test:1,-", "s=a%b.test", "s=-a.test", "s=a-.test", "s=a..test", "s=.a.test", "s=~", "s=:443", "s=a_b.test", "s=1.2.3", "s=1.2.3.4a", "s=xn--nxasmq6b.test",
        "s=other.test", "s=test", "s=localhost", "s=a.test:bad", "s=127.0.0.2", "h=~,443",
    ]
    .iter()
    .map(|x| x.to_string())
    .collect();
    thosts.push(format!("s={l63}.test"));
    thosts.push(format!("s={l63}a.test"));
    for n in [253usize, 254, 255, 256, 300] {
        thosts.push(format!("s={}", name_of_len(n)));
        thosts.push(format!("s={}:443", name_of_len(n)));
    }
    let certs = ["a.test", "*.a.test", "a.test;b.a.test;127.0.0.1", "127.0.0.1;::1", "other.test", "*.b.a.test", "b.a.test;*.a.test"];
    let pay = [0usize, 1, 100, 5000, 65536, 16384, 333];
    let mut k = 0usize;
    // construction paths of the TLS connector services: `TlsConnector::service(config)` (no suffix), the factory
    // `TlsConnector::new(config)` through `ServiceFactory::new_service` (`f`), clones of the factory / the service
    let tpaths = ["", ":f", ":cf", ":fc", ":kc"];
    writeln!(w, "case tls-paths kind=tlsconn").unwrap();
    for lib in ["r", "o"] {
        for tp in tpaths {
            writeln!(w, "tconn {lib}{tp} {} good n=a.test s=a.test:443 100", if lib == "r" { "o" } else { "r" }).unwrap();
            writeln!(w, "tconn {lib}{tp} r good n=other.test s=a.test 1").unwrap();
            writeln!(w, "tconn {lib}{tp} o bad n=a.test s=a.test 1").unwrap();
            writeln!(w, "tconn {lib}{tp} r good n=a.test s=a..test 1").unwrap();
            // `http::Uri` requests: the name verified is the URI's host
            writeln!(w, "tconn {lib}{tp} r good n=a.test u=wss://a.test/chat 100").unwrap();
            writeln!(w, "tconn {lib}{tp} o good n=a.test v=https://b.a.test:8443/ 1").unwrap();
            writeln!(w, "tconn {lib}{tp} o good n=*.a.test v=b.a.test:443 17").unwrap();
        }
    }
    for bad in ["tconn r:s r good n=a.test s=a.test 1", "tconn r:d r good n=a.test s=a.test 1", "tconn r: r good n=a.test s=a.test 1", "tconn x:f r good n=a.test s=a.test 1", "tconn o:f:f r good n=a.test s=a.test 1"] {
        writeln!(w, "{bad}").unwrap();
    }
    // (N) the name the connector hands to the TLS library is EXACTLY the request's host name: names that differ from a
    //     covered name only by trailing dots, an inner empty label, a leading / trailing space (`^_`) or case, and
    //     the same shapes of a name the certificate does not cover.  One trailing dot is a fully qualified name:
    //     what each library makes of it is recorded from the unchanged tree (rustls: the name without it, OpenSSL:
    //     as given); more than one is never a valid name and never a success.
    let shapes = ["{b}", "{b}.", "{b}..", "{b}...", ".{b}", "{h}..{t}", "^_{b}", "{b}^_", "{B}", "{B}.", "{b}.^_"];
    let mut ni = 0usize;
    for lib in ["r", "o"] {
        for (base, upper, head, tail) in [("localhost", "LOCALHOST", "local", "host"), ("wrong.test", "WRONG.test", "wrong", "test")] {
            writeln!(w, "case tls-exact-name-{lib}-{base} kind=tlsconn").unwrap();
            for sh in shapes {
                // OpenSSL's X509_check_host reads a leading dot as "any sub-domain of": not driven through it (see `partial`)
                if lib == "o" && sh.starts_with('.') {
                    continue;
                }
                let name = sh.replace("{b}", base).replace("{B}", upper).replace("{h}", head).replace("{t}", tail);
                for cert in ["localhost", "localhost.", "localhost;localhost.", "other.test;wrong.test"] {
                    ni += 1;
                    let tp = tpaths[ni % tpaths.len()];
                    let srv = if ni % 2 == 0 { "r" } else { "o" };
                    let slot = if ni % 3 == 0 { format!("#{}", ni % 4) } else { String::new() };
                    let tag = if ni % 5 == 0 { "t" } else { "s" };
                    writeln!(w, "tconn {lib}{tp}{slot} {srv} good n={cert} {tag}={name} {}", pay[ni % pay.len()]).unwrap();
                    if ni % 4 == 0 {
                        writeln!(w, "tconn {lib}{tp}{slot} {srv} good n={cert} h={name},443 1").unwrap();
                        writeln!(w, "tconn {lib}{slot} {srv} good n={cert} {tag}={name}:8443 1").unwrap();
                    }
                }
            }
        }
    }
    // (S) SEVERAL calls on ONE connector service instance (`#<slot>`; `#<slot>c` = on a fresh clone of it), every
    //     order of {name the certificate covers, name it does not cover, syntactically invalid name, covered again}:
    //     each call is judged for its OWN hostname - a name verified (or rejected) earlier must not stick to the service
    let kinds_s = ["s=a.test", "s=other.test:443", "s=a..test", "h=b.a.test,8443", "s=127.0.0.1", "t=a.test:1", "s=~"];
    let mut sn = 0usize;
    for lib in ["r", "o"] {
        for (ti, tp) in tpaths.iter().enumerate() {
            // all ordered pairs (first call, second call) of request kinds on one fresh instance, then a third on a clone
            for a in 0..kinds_s.len() {
                sn += 1;
                writeln!(w, "case tls-same-svc-{lib}-{ti}-{a} kind=tlsconn").unwrap();
                for b in 0..kinds_s.len() {
                    let slot = b % 4;
                    let srv = if (sn + b) % 2 == 0 { "r" } else { "o" };
                    // slots are reused across `b` (4 instances for 7 second-calls): longer histories on one instance
                    writeln!(w, "tconn {lib}{tp}#{slot} {srv} good n=a.test;b.a.test {} {}", kinds_s[a], pay[(sn + b) % pay.len()]).unwrap();
                    writeln!(w, "tconn {lib}#{slot} {} good n=a.test;b.a.test {} 1", if srv == "r" { "o" } else { "r" }, kinds_s[b]).unwrap();
                    writeln!(w, "tconn {lib}#{slot}c {srv} good n=a.test;b.a.test {} 17", kinds_s[(a + b + 1) % kinds_s.len()]).unwrap();
                    if b % 3 == 0 {
                        // the same name against a certificate that does not cover it / an untrusted issuer, then covered again
                        writeln!(w, "tconn {lib}#{slot} {srv} good n=other.test s=a.test 1").unwrap();
                        writeln!(w, "tconn {lib}#{slot} {srv} bad n=a.test s=a.test 1").unwrap();
                        writeln!(w, "tconn {lib}#{slot} {srv} good n=a.test s=a.test 100").unwrap();
                    }
                }
            }
        }
    }
    for bad in ["case tls-slot-bad kind=tlsconn", "tconn r#4 r good n=a.test s=a.test 1", "tconn r#0cc r good n=a.test s=a.test 1", "tconn r# r good n=a.test s=a.test 1", "tconn r#0#1 r good n=a.test s=a.test 1", "tconn r#1:f r good n=a.test s=a.test 1", "tconn o#c r good n=a.test s=a.test 1", "tconn o#3c r good n=a.test s=a.test 1"] {
        writeln!(w, "{bad}").unwrap();
    }
    for (hi, h) in thosts.iter().enumerate() {
        writeln!(w, "case tls-{hi} kind=tlsconn").unwrap();
        for c in certs {
            for lib in ["r", "o"] {
                // OpenSSL's X509_check_host reads a name with a leading dot as "any sub-domain of": that is the
                // library's matching rule, outside the claim (see `partial`), so it is not driven through OpenSSL
                if lib == "o" && h.starts_with("s=.") {
                    continue;
                }
                k += 1;
                let srvs: &[&str] = if thorough { &["r", "o"] } else if k % 2 == 0 { &["r"] } else { &["o"] };
                let tp = tpaths[k % tpaths.len()];
                // `String` / `&'static str` requests alternate
                let h = &(if k % 4 == 1 && h.starts_with("s=") { h.replacen("s=", "t=", 1) } else { h.clone() });
                for srv in srvs {
                    writeln!(w, "tconn {lib}{tp} {srv} good n={c} {h} {}", pay[k % pay.len()]).unwrap();
                }
                if thorough || k % 3 == 0 {
                    // same certificate names, but issued by a CA the client does not trust
                    writeln!(w, "tconn {lib}{} {} bad n={c} {h} {}", tpaths[(k / 5) % tpaths.len()], if k % 2 == 0 { "o" } else { "r" }, pay[(k + 1) % pay.len()]).unwrap();
                }
            }
        }
    }
    // random TLS connects
    let tcases = if thorough { 600 } else { 60 };
    for c in 0..tcases {
        writeln!(w, "case tlsrnd-{c} kind=tlsconn").unwrap();
        for _ in 0..rng.range(2, 8) {
            let h = rng.pick(&thosts).clone();
            let lib = if h.starts_with("s=.") { "r" } else { *rng.pick(&["r", "o"]) };
            let nn = rng.range(1, 3);
            let names: Vec<&str> = (0..nn).map(|_| *rng.pick(&["a.test", "*.a.test", "b.a.test", "127.0.0.1", "::1", "other.test", "*.b.a.test", "c.b.a.test", "127.0.0.2"])).collect();
            let slot = match rng.below(4) {
                0 => String::new(),
                1 => format!("#{}c", rng.below(2)),
                _ => format!("#{}", rng.below(2)),
            };
            writeln!(w, "tconn {lib}{}{slot} {} {} n={} {h} {}", rng.pick(&tpaths), rng.pick(&["r", "o"]), if rng.chance(1, 5) { "bad" } else { "good" }, names.join(";"), rng.below(70000).min(65536)).unwrap();
        }
        if rng.chance(1, 8) {
            writeln!(w, "{}", rng.pick(&["tconn r r good n=a.test s=a.test", "tconn x r good n=a.test s=a.test 1", "tconn r r good a.test s=a.test 1", "tconn r r good n=a.test a.test 1", "tconn r r good n=a.test s=a.test 70000", "conn full err s=a", "poll 0"])).unwrap();
        }
    }
}


fn gen_c18(a: &Args, w: &mut dyn Write) {
    let mut rng = Rng::new(a.seed ^ 0xC18);
    let thorough = a.tier == "thorough";
    let libs = ["r", "o"];
    let clis = ["r13", "r12", "o13", "o12"];
    let tmos: &[u64] = if thorough { &[100, 137, 250, 1000, 3000, 5000] } else { &[100, 250, 1000, 5000] };
    let kinds = ["http", "zero", "ff", "rnd"];
    let sizes = [0usize, 1, 17, 1000, 16384, 16385, 40000, 65536];
    let mut n = 0;
    // stage i of a handshake on connection k: 0 = called+polled, 1 = half of flight 1 delivered,
    // 2 = flight 1 complete, 3 = half of flight 2, 4 = complete (accept future resolves)
    let stage = |w: &mut dyn Write, k: usize, upto: usize| {
        writeln!(w, "poll {k}").unwrap();
        let steps = ["part", "rest", "part", "rest"];
        for st in steps.iter().take(upto) {
            writeln!(w, "cflight {k} {st}").unwrap();
            writeln!(w, "poll {k}").unwrap();
        }
    };
    // (F) the configuration / construction surface: `Acceptor::new`, `set_handshake_timeout`, `clone`,
    //     `ServiceFactory::new_service` — for both flavours at once (`f*` ops act on a rustls and an OpenSSL
    //     factory configured alike; the `call` picks the flavour).  A multi-worker server clones the factory for
    //     every worker and builds the service from the clone: the configured timeout must be the clone's, too
    //     (shorter and longer than the 3 s default), and every service of the thread gates on the one counter.
    // (F1) configure, clone `depth` times, build the service from the last clone, stall the client
    let ftmos: &[u64] = if thorough { &[100, 200, 1000, 2999, 3000, 3001, 5000] } else { &[200, 5000] };
    let mut fi = 0usize;
    for lib in libs {
        for &t in ftmos {
            for depth in 1..=(if thorough { 3 } else { 2 }) {
                fi += 1;
                let cli = clis[fi % 4];
                writeln!(w, "case fac-clone-{lib}-{t}-{depth} kind=acc max=2 tmo={t}").unwrap();
                for d in 0..depth {
                    writeln!(w, "fclone {d}").unwrap();
                }
                writeln!(w, "fsvc {depth}").unwrap();
                writeln!(w, "ready").unwrap();
                writeln!(w, "call {lib} {cli} 1").unwrap();
                stage(w, 0, fi % 4);
                writeln!(w, "run {}", t - 1).unwrap();
                writeln!(w, "run 1").unwrap();
                writeln!(w, "run 20").unwrap();
                writeln!(w, "ready").unwrap();
            }
        }
        // a slow but legitimate handshake (3.5 s) through the clone of a factory configured with 5 s
        writeln!(w, "case fac-slow-{lib} kind=acc max=2 tmo=5000").unwrap();
        writeln!(w, "fclone 0").unwrap();
        writeln!(w, "fsvc 1").unwrap();
        writeln!(w, "call {lib} {} 1", clis[fi % 4]).unwrap();
        stage(w, 0, 3);
        writeln!(w, "run 3500").unwrap();
        writeln!(w, "cflight 0 rest").unwrap();
        writeln!(w, "run 0").unwrap();
        writeln!(w, "echo 0 1000 7").unwrap();
        // (F2) clones are independent copies, services keep what their factory had when they were built
        writeln!(w, "case fac-indep-{lib} kind=acc max=4 tmo=300").unwrap();
        for l in ["fclone 0", "fset 0 700", "fsvc 1", "fsvc 0", "fset 1 150", "fclone 1", "fsvc 2", "fset 2 1234", "fset 0 9"] {
            writeln!(w, "{l}").unwrap();
        }
        for sv in 0..4 {
            writeln!(w, "call {lib} {} {sv}", clis[sv]).unwrap();
        }
        for l in ["run 149", "run 1", "run 149", "run 1", "run 399", "run 1", "ready"] {
            writeln!(w, "{l}").unwrap();
        }
        // (F3) factories that were never configured have the default; configured after `new`
        writeln!(w, "case fac-new-{lib} kind=acc max=3 tmo=default").unwrap();
        for l in ["fclone 0", "fsvc 1", "fnew", "fsvc 2", "fnew", "fset 3 250", "fclone 3", "fsvc 4"] {
            writeln!(w, "{l}").unwrap();
        }
        for sv in 1..4 {
            writeln!(w, "call {lib} {} {sv}", clis[sv]).unwrap();
        }
        for l in ["run 249", "run 1", "run 2749", "run 1", "ready"] {
            writeln!(w, "{l}").unwrap();
        }
        // (F4) services built from clones gate on the thread's counter, and are woken through it
        for max in 1..=2usize {
            for ending in ["drop", "timeout", "ok"] {
                writeln!(w, "case fac-gate-{lib}-{max}-{ending} kind=acc max={max} tmo=400").unwrap();
                writeln!(w, "fclone 0").unwrap();
                writeln!(w, "fsvc 1").unwrap();
                for k in 0..max {
                    writeln!(w, "ready").unwrap();
                    writeln!(w, "call {} {} {}", if k == 0 { lib } else { libs[max % 2] }, clis[(max + k) % 4], (k + 1) % 2).unwrap();
                    writeln!(w, "poll {k}").unwrap();
                }
                writeln!(w, "ready").unwrap(); // parks
                match ending {
                    "drop" => writeln!(w, "drop 0").unwrap(),
                    "timeout" => {
                        writeln!(w, "advance 400").unwrap();
                        writeln!(w, "poll 0").unwrap();
                    }
                    _ => {
                        writeln!(w, "cflight 0 full").unwrap();
                        writeln!(w, "poll 0").unwrap();
                        writeln!(w, "cflight 0 full").unwrap();
                        writeln!(w, "poll 0").unwrap();
                    }
                }
                writeln!(w, "ready").unwrap();
                writeln!(w, "call {lib} r13 1").unwrap();
                writeln!(w, "ready").unwrap();
            }
        }
    }
    // (W) the accept future is polled by different tasks in turn (distinct wakers: moved to another task, `select!`,
    //     `FuturesUnordered` re-polling with a new waker) while the client stalls: the handshake timeout must wake
    //     the task that polled LAST, which then gets `Timeout` - and so must bytes arriving on the transport
    let mut wi = 0usize;
    for lib in libs {
        for order in [&[0usize, 1][..], &[1, 0], &[1, 2], &[2, 0, 1], &[0, 1, 0], &[2, 2, 1], &[1]] {
            for st in 0..4usize {
                wi += 1;
                let cli = clis[wi % 4];
                let t = [200u64, 300, 1000, 3500][wi % 4];
                let last = *order.last().unwrap();
                // (a) by hand: polls under the wakers of `order`, clock to the deadline, the last poller polls again
                writeln!(w, "case fut-wakers-{lib}-{wi}a kind=acc max=2 tmo={t}").unwrap();
                writeln!(w, "call {lib} {cli}").unwrap();
                for (j, wk) in order.iter().enumerate() {
                    if j == 1 {
                        // the client moves on between two polls (up to handshake stage `st`)
                        for step in ["part", "rest", "part"].iter().take(st) {
                            writeln!(w, "cflight 0 {step}").unwrap();
                            writeln!(w, "poll 0 {}", order[0]).unwrap();
                        }
                    }
                    writeln!(w, "advance {}", 7 * j).unwrap();
                    writeln!(w, "poll 0 {wk}").unwrap();
                }
                writeln!(w, "advance {}", t - 7 * (order.len() as u64 - 1) * order.len() as u64 / 2 - 1).unwrap();
                writeln!(w, "advance 1").unwrap();
                writeln!(w, "poll 0 {last}").unwrap();
                writeln!(w, "ready").unwrap();
                // (b) the executor discipline: the owning task re-polls whenever IT is woken
                writeln!(w, "case fut-wakers-{lib}-{wi}b kind=acc max=2 tmo={t}").unwrap();
                writeln!(w, "call {lib} {cli}").unwrap();
                for wk in order {
                    writeln!(w, "poll 0 {wk}").unwrap();
                }
                if st >= 2 {
                    writeln!(w, "cflight 0 full").unwrap();
                    writeln!(w, "run 5").unwrap();
                    writeln!(w, "poll 0 {}", (last + 1) % 3).unwrap();
                }
                writeln!(w, "run {}", t - 1).unwrap();
                writeln!(w, "run 1").unwrap();
                writeln!(w, "run 20").unwrap();
                if st == 3 {
                    // a handshake that completes after the future changed hands
                    writeln!(w, "call {lib} {cli}").unwrap();
                    writeln!(w, "poll 1 {}", order[0]).unwrap();
                    writeln!(w, "cflight 1 full").unwrap();
                    writeln!(w, "poll 1 {last}").unwrap();
                    writeln!(w, "cflight 1 full").unwrap();
                    writeln!(w, "run 0").unwrap();
                    writeln!(w, "echo 1 100 {wi}").unwrap();
                }
            }
        }
    }
    for l in ["case fut-wakers-bad kind=acc max=2 tmo=100", "call r r13", "poll 0 3", "poll 0 00", "poll 0 x", "poll 0 1 1", "poll 1 1", "poll 0 2"] {
        writeln!(w, "{l}").unwrap();
    }
    // (H) the limit is process-wide state configured by start-up code on ANOTHER thread than the one the services
    //     live on.  Every case of this file with `max=<n>` has its limit set on the harness main thread before the
    //     case's thread is spawned (`set=main`, the default); here: the demo shape on its own (limit-many stalled
    //     handshakes on the fresh thread: Pending; one ends: wake-up and Ready), the same with the limit set on
    //     the case's own thread (`set=self`), `probe` (a further fresh thread gets the limit configured last),
    //     and the converse order: `setmax` after the thread's counter exists changes nothing on that thread.
    let mut hi = 0usize;
    for lib in libs {
        for max in 1..=3usize {
            for set in ["", " set=main", " set=self"] {
                hi += 1;
                writeln!(w, "case xthread-{lib}-{max}-{hi} kind=acc max={max} tmo=400{set}").unwrap();
                for k in 0..max {
                    writeln!(w, "ready").unwrap();
                    writeln!(w, "call {} {}", if k % 2 == 0 { lib } else { libs[hi % 2] }, clis[(hi + k) % 4]).unwrap();
                    writeln!(w, "poll {k}").unwrap();
                }
                writeln!(w, "ready").unwrap(); // Pending at exactly `max`
                writeln!(w, "probe").unwrap();
                writeln!(w, "setmax {}", max + 2).unwrap(); // too late for this thread
                writeln!(w, "ready").unwrap();
                writeln!(w, "drop 0").unwrap(); // wake-up
                writeln!(w, "ready").unwrap();
                writeln!(w, "call {lib} r13").unwrap();
                writeln!(w, "ready").unwrap(); // still `max`, not max + 2
                writeln!(w, "probe").unwrap(); // a fresh thread: max + 2
                writeln!(w, "setmax {}", if hi % 2 == 0 { 0 } else { 1 }).unwrap();
                writeln!(w, "probe").unwrap();
            }
        }
    }
    for l in ["case xthread-bad kind=acc max=2 tmo=100 set=main", "setmax 301", "setmax 01", "setmax", "setmax x", "probe 1", "setmax 300", "probe",
        "case xthread-bad2 kind=acc max=2 tmo=100 set=none", "ready", "case xthread-bad3 kind=acc max=2 set=self", "ready", "case xthread-bad4 kind=acc max=2 tmo=100 set=self x=1", "ready"] {
        writeln!(w, "{l}").unwrap();
    }
    // (G) several tasks ask for readiness (distinct wakers): the one that asked LAST and was answered Pending is
    //     the one a handshake's end wakes, not one that asked earlier in the same not-ready period
    let mut gi = 0usize;
    for lib in libs {
        for max in 1..=2usize {
            for ending in ["drop", "timeout", "ok", "tlserr"] {
                for order in [&[1usize, 2][..], &[0, 1], &[2, 0, 1], &[1, 0, 1], &[2, 2]] {
                    gi += 1;
                    writeln!(w, "case wak-{gi} kind=acc max={max} tmo=300").unwrap();
                    for k in 0..max {
                        writeln!(w, "ready {}", order[0]).unwrap();
                        writeln!(w, "call {} {}", if k == 0 { lib } else { libs[gi % 2] }, clis[(gi + k) % 4]).unwrap();
                        writeln!(w, "poll {k}").unwrap();
                    }
                    for t in order {
                        writeln!(w, "ready {t}").unwrap();
                    }
                    match ending {
                        "drop" => writeln!(w, "drop 0").unwrap(),
                        "timeout" => {
                            writeln!(w, "advance 300").unwrap();
                            writeln!(w, "poll 0").unwrap();
                        }
                        "ok" => {
                            writeln!(w, "cflight 0 full").unwrap();
                            writeln!(w, "poll 0").unwrap();
                            writeln!(w, "cflight 0 full").unwrap();
                            writeln!(w, "poll 0").unwrap();
                        }
                        _ => {
                            writeln!(w, "garbage 0 {}", kinds[gi % 4]).unwrap();
                            writeln!(w, "poll 0").unwrap();
                        }
                    }
                    // the woken task asks again and takes the slot; an earlier asker parks anew; next end
                    let last = *order.last().unwrap();
                    writeln!(w, "ready {last}").unwrap();
                    writeln!(w, "call {lib} r13").unwrap();
                    writeln!(w, "ready {}", order[0]).unwrap();
                    writeln!(w, "ready {}", (last + 1) % 3).unwrap();
                    writeln!(w, "drop {max}").unwrap();
                    writeln!(w, "ready {}", (last + 1) % 3).unwrap();
                }
            }
        }
    }
    for l in ["case wak-bad kind=acc max=1 tmo=100", "ready 3", "ready 00", "ready x", "ready 1 1", "ready 2"] {
        writeln!(w, "{l}").unwrap();
    }
    // malformed / inapplicable factory ops
    writeln!(w, "case fac-bad kind=acc max=2 tmo=100").unwrap();
    for l in ["fclone 1", "fsvc 1", "fset 1 100", "fset 0 0", "fset 0 20001", "fset 0 0100", "fset 0", "fclone", "fclone 00", "fnew 1", "call r r13 1", "call r r13 00", "call r r13 x", "fsvc x"] {
        writeln!(w, "{l}").unwrap();
    }
    for _ in 0..7 {
        writeln!(w, "fnew").unwrap();
        writeln!(w, "fsvc 0").unwrap();
    }
    for l in ["fnew", "fclone 0", "fsvc 0", "call o o13 7", "call o o13 8", "run 100"] {
        writeln!(w, "{l}").unwrap();
    }
    // (E) the data path of an accepted stream ("bytes written on either side arrive unchanged on the other"):
    //     both acceptors x four client stacks; transports with a small write window (back-pressure on the
    //     last write), short reads, or a buffer that only a flush / shutdown empties; payloads 0..64 KiB;
    //     writers that flush and then wait for the peer to have read everything, writers that shut down;
    //     chunked and vectored writes; partial reads; the ActixStream readiness methods.
    // (E1) the smallest scenarios first, one transfer per case (these are what a replay shrinks to)
    let minimal = [
        "s2c 1024 1 1024 0 d all flush exact",
        "c2s 1024 2 1024 0 d all flush exact",
        "s2c 1024 3 0 0 b all flush exact",
        "s2c 1024 4 1024 0 d all shut exact",
        "s2c 1024 5 1024 0 d vec flush exact",
        "both 5000 6 4096 0 d all flush exact",
    ];
    for lib in libs {
        for cli in clis {
            for (i, x) in minimal.iter().enumerate() {
                writeln!(w, "case data-min-{lib}-{cli}-{i} kind=acc max=2 tmo=1000").unwrap();
                writeln!(w, "call {lib} {cli}").unwrap();
                stage(w, 0, 4);
                writeln!(w, "xfer 0 {x}").unwrap();
            }
            writeln!(w, "case data-min-{lib}-{cli}-rdy kind=acc max=2 tmo=1000").unwrap();
            writeln!(w, "call {lib} {cli}").unwrap();
            stage(w, 0, 4);
            writeln!(w, "rdy 0 p p").unwrap();
            writeln!(w, "rdy 0 r r").unwrap();
        }
    }
    // (E2) systematic: every (direction, writer, reader) combination for every (acceptor, client, transport
    //      kind), sizes / windows / read chunks rotating through the boundary values; each connection ends
    //      with a transfer that shuts down
    let xn = [0usize, 1, 17, 1000, 1023, 1024, 1025, 4096, 4097, 5000, 16384, 16385, 16406, 20000, 40000, 65536];
    let xcap = [1024usize, 0, 4096, 1, 2048, 100, 333];
    let xrc = [0usize, 1, 0, 7, 100, 0, 1024, 5000];
    let dirs = ["s2c", "c2s", "both"];
    let wms = ["all", "chunk", "cflush", "vec"];
    let rms = ["exact", "small"];
    let mut xi = 0usize;
    for lib in libs {
        for cli in clis {
            for tb in ["d", "b"] {
                writeln!(w, "case data-{lib}-{cli}-{tb} kind=acc max=2 tmo=1000").unwrap();
                let mut combos: Vec<(usize, usize, usize)> = vec![];
                for d in 0..3 {
                    for wm in 0..4 {
                        for rm in 0..2 {
                            combos.push((d, wm, rm));
                        }
                    }
                }
                let per_conn = if thorough { 4 } else { 6 };
                for (k, chunk) in combos.chunks(per_conn).enumerate() {
                    writeln!(w, "call {lib} {cli}").unwrap();
                    stage(w, k, 4);
                    writeln!(w, "rdy {k} {} {}", ["r", "p"][k % 2], ["r", "p"][(k / 2) % 2]).unwrap();
                    for (j, (d, wm, rm)) in chunk.iter().enumerate() {
                        xi += 1;
                        // a window of one byte costs one scheduling round per byte: keep those payloads moderate
                        let cap = xcap[xi % xcap.len()];
                        let n = if cap == 1 { xn[xi % 10] } else { xn[(xi * 7) % xn.len()] };
                        let last = j + 1 == chunk.len();
                        writeln!(w, "xfer {k} {} {n} {xi} {cap} {} {tb} {} {} {}", dirs[*d], xrc[(xi / 3) % xrc.len()], wms[*wm], if last { "shut" } else { "flush" }, rms[*rm]).unwrap();
                    }
                    if k == 0 {
                        // a stream that was shut down carries nothing further
                        writeln!(w, "echo {k} 10 1").unwrap();
                        writeln!(w, "rdy {k} r r").unwrap();
                    }
                }
                writeln!(w, "ready").unwrap();
            }
        }
    }
    // (E3) seeded random transfers
    let xcases = if thorough { 640 } else { 64 };
    for c in 0..xcases {
        let lib = libs[c % 2];
        let cli = clis[(c / 2) % 4];
        writeln!(w, "case data-rnd-{c} kind=acc max=2 tmo=1000").unwrap();
        writeln!(w, "call {lib} {cli}").unwrap();
        stage(w, 0, 4);
        let nx = rng.range(3, 10);
        for j in 0..nx {
            if rng.chance(1, 5) {
                writeln!(w, "rdy 0 {} {}", rng.pick(&["r", "p"]), rng.pick(&["r", "p"])).unwrap();
            }
            let cap = *rng.pick(&[0usize, 1, 2, 64, 100, 512, 1024, 1500, 2048, 4096, 16384]);
            let n = match rng.below(4) {
                0 => *rng.pick(&xn),
                1 => rng.below(if cap <= 2 { 3000 } else { 65537 }),
                2 => cap.saturating_sub(30) + rng.below(60),
                _ => rng.below(3000),
            };
            let n = if cap <= 2 { n.min(20000) } else { n };
            writeln!(
                w,
                "xfer 0 {} {n} {} {cap} {} {} {} {} {}",
                rng.pick(&dirs),
                rng.below(100000),
                rng.pick(&[0usize, 0, 1, 2, 7, 100, 1024, 4096, 20000]),
                rng.pick(&["d", "b"]),
                rng.pick(&wms),
                if j + 1 == nx { "shut" } else { "flush" },
                rng.pick(&rms)
            )
            .unwrap();
        }
        if rng.chance(1, 4) {
            writeln!(w, "{}", rng.pick(&["xfer 0 s2c 10 1 0 0 d all flush exact", "echo 0 5 5", "rdy 0 p p", "xfer 0 s2c 10 1 0 0 d all flush", "xfer 0 up 10 1 0 0 d all flush exact", "xfer 0 s2c 010 1 0 0 d all flush exact", "xfer 0 s2c 10 1 0 0 x all flush exact", "xfer 0 s2c 1048577 1 0 0 d all flush exact", "rdy 0 r", "rdy 0 x r"])).unwrap();
        }
    }
    // (A) one connection, every client behaviour, both acceptors, four client stacks
    let mut rot = 0usize;
    for lib in libs {
        for cli in clis {
            for sc in 0..22 {
                // quick: one timeout per scenario (rotating); thorough: all
                let ts: Vec<u64> = if thorough { tmos.to_vec() } else { rot += 1; vec![tmos[rot % tmos.len()]] };
                for t in ts {
                    n += 1;
                    writeln!(w, "case one-{n} kind=acc max=2 tmo={t}").unwrap();
                    writeln!(w, "ready").unwrap();
                    writeln!(w, "call {lib} {cli}").unwrap();
                    match sc {
                        0 => {
                            stage(w, 0, 4);
                            writeln!(w, "echo 0 {} {n}", sizes[n % sizes.len()]).unwrap();
                            writeln!(w, "echo 0 {} {}", sizes[(n / 3) % sizes.len()], n + 1).unwrap();
                        }
                        1..=4 => {
                            // stalls at stage sc-1; the executor polls whenever woken: Timeout exactly at the deadline
                            stage(w, 0, sc - 1);
                            writeln!(w, "run {}", t - 1).unwrap();
                            writeln!(w, "run 1").unwrap();
                            writeln!(w, "run 20").unwrap();
                        }
                        5..=8 => {
                            stage(w, 0, sc - 5);
                            writeln!(w, "advance {}", rng.below(t as usize)).unwrap();
                            writeln!(w, "garbage 0 {}", kinds[(n + sc) % 4]).unwrap();
                            writeln!(w, "poll 0").unwrap();
                        }
                        9..=12 => {
                            stage(w, 0, sc - 9);
                            writeln!(w, "advance {}", rng.below(t as usize)).unwrap();
                            writeln!(w, "close 0").unwrap();
                            writeln!(w, "run 0").unwrap();
                        }
                        13 => {
                            // slow but in time
                            stage(w, 0, 3);
                            writeln!(w, "advance {}", t - 1).unwrap();
                            writeln!(w, "cflight 0 rest").unwrap();
                            writeln!(w, "poll 0").unwrap();
                            writeln!(w, "echo 0 100 1").unwrap();
                        }
                        14 => {
                            // the last flight arrives before the deadline but the task is only polled at the deadline
                            stage(w, 0, 2);
                            writeln!(w, "advance {}", t - 1).unwrap();
                            writeln!(w, "cflight 0 full").unwrap();
                            writeln!(w, "advance 1").unwrap();
                            writeln!(w, "poll 0").unwrap();
                            writeln!(w, "echo 0 5000 2").unwrap();
                        }
                        15 => {
                            // timer fired, task not polled yet, then the handshake completes: the handshake wins
                            stage(w, 0, 2);
                            writeln!(w, "advance {}", t + 30).unwrap();
                            writeln!(w, "cflight 0 full").unwrap();
                            writeln!(w, "poll 0").unwrap();
                        }
                        16 => {
                            stage(w, 0, 2);
                            writeln!(w, "advance {}", t + 30).unwrap();
                            writeln!(w, "poll 0").unwrap();
                        }
                        17 => {
                            // first poll after the deadline
                            writeln!(w, "advance {}", t + 5).unwrap();
                            writeln!(w, "poll 0").unwrap();
                        }
                        18 => {
                            // peer closes after its last flight, before the server looks
                            stage(w, 0, 3);
                            writeln!(w, "cflight 0 rest").unwrap();
                            writeln!(w, "close 0").unwrap();
                            writeln!(w, "poll 0").unwrap();
                        }
                        19 => {
                            stage(w, 0, 2);
                            writeln!(w, "drop 0").unwrap();
                            writeln!(w, "ready").unwrap();
                            writeln!(w, "advance {}", t + 1).unwrap();
                        }
                        20 => {
                            // driven purely by the executor discipline
                            writeln!(w, "run 0").unwrap();
                            writeln!(w, "cflight 0 full").unwrap();
                            writeln!(w, "run 3").unwrap();
                            writeln!(w, "cflight 0 full").unwrap();
                            writeln!(w, "run 3").unwrap();
                            writeln!(w, "echo 0 65536 {n}").unwrap();
                        }
                        _ => {
                            // a second flight is asked for before the server has seen the first
                            writeln!(w, "cflight 0 full").unwrap();
                            writeln!(w, "cflight 0 full").unwrap();
                            writeln!(w, "poll 0").unwrap();
                            writeln!(w, "cflight 0 part").unwrap();
                            writeln!(w, "cflight 0 part").unwrap();
                            writeln!(w, "poll 0").unwrap();
                            writeln!(w, "cflight 0 rest").unwrap();
                            writeln!(w, "run {}", t + 1).unwrap();
                        }
                    }
                    writeln!(w, "ready").unwrap();
                }
            }
        }
    }
    // (B) the gate: limits 1..3, up to 5 calls, every way a handshake can end
    for max in 1..=3usize {
        for ending in ["ok", "tlserr", "timeout", "drop"] {
            for extra in 0..=(5 - max).min(2) {
                for lib in libs {
                    n += 1;
                    let cli = clis[n % 4];
                    writeln!(w, "case gate-{n} kind=acc max={max} tmo=200").unwrap();
                    for k in 0..max {
                        writeln!(w, "ready").unwrap();
                        writeln!(w, "call {} {cli}", if k % 2 == 0 { lib } else { libs[(n + k) % 2] }).unwrap();
                        writeln!(w, "poll {k}").unwrap();
                    }
                    writeln!(w, "ready").unwrap(); // parks
                    for k in max..max + extra {
                        // calls made although not ready (contract violation): the count goes past the limit
                        writeln!(w, "call {lib} {cli}").unwrap();
                        writeln!(w, "poll {k}").unwrap();
                        writeln!(w, "ready").unwrap();
                    }
                    let total = max + extra;
                    // end them one by one, checking readiness and the wake-up after each
                    for k in 0..total {
                        match ending {
                            "ok" => {
                                writeln!(w, "cflight {k} full").unwrap();
                                writeln!(w, "poll {k}").unwrap();
                                writeln!(w, "cflight {k} full").unwrap();
                                writeln!(w, "poll {k}").unwrap();
                            }
                            "tlserr" => {
                                writeln!(w, "{}", if k % 2 == 0 { format!("garbage {k} {}", kinds[k % 4]) } else { format!("close {k}") }).unwrap();
                                writeln!(w, "poll {k}").unwrap();
                            }
                            "timeout" => {
                                if k == 0 {
                                    writeln!(w, "advance 200").unwrap();
                                }
                                writeln!(w, "poll {k}").unwrap();
                            }
                            _ => writeln!(w, "drop {k}").unwrap(),
                        }
                        writeln!(w, "ready").unwrap();
                        if k == 0 && extra == 0 {
                            // the freed slot is taken again
                            writeln!(w, "call {lib} {cli}").unwrap();
                            writeln!(w, "ready").unwrap();
                            writeln!(w, "drop {total}").unwrap();
                            writeln!(w, "ready").unwrap();
                        }
                    }
                }
            }
        }
    }
    // (C) the crate's defaults: 256 handshakes per thread, 3 s
    writeln!(w, "case defaults-fresh-thread kind=acc max=default tmo=default").unwrap();
    writeln!(w, "probe").unwrap();
    writeln!(w, "case defaults kind=acc max=default tmo=default").unwrap();
    for k in 0..256 {
        if k % 64 == 0 || k == 255 {
            writeln!(w, "ready").unwrap();
        }
        writeln!(w, "call {} r13", libs[k % 2]).unwrap();
    }
    writeln!(w, "ready").unwrap();
    writeln!(w, "drop 7").unwrap();
    writeln!(w, "ready").unwrap();
    writeln!(w, "call o o13").unwrap();
    writeln!(w, "ready").unwrap();
    writeln!(w, "poll 0").unwrap();
    writeln!(w, "poll 1").unwrap();
    writeln!(w, "advance 2999").unwrap();
    writeln!(w, "poll 0").unwrap();
    writeln!(w, "advance 1").unwrap();
    writeln!(w, "poll 0").unwrap();
    writeln!(w, "ready").unwrap();
    writeln!(w, "run 0").unwrap();
    writeln!(w, "ready").unwrap();
    // (D) random schedules: up to 5 concurrent calls, limits 1..3
    let cases = if thorough { 4000 } else { 400 };
    for c in 0..cases {
        let max = rng.range(1, 3);
        let t = *rng.pick(&[100u64, 150, 300, 1000, 2500, 5000]);
        writeln!(w, "case rnd-{c} kind=acc max={max} tmo={t}").unwrap();
        let mut calls = 0usize;
        let (mut nf, mut ns) = (1usize, 1usize);
        let nops = rng.range(8, 40);
        for _ in 0..nops {
            let k = rng.below(calls.max(1));
            match rng.below(24) {
                0 if rng.chance(1, 2) => writeln!(w, "ready {}", rng.below(3)).unwrap(),
                1 if rng.chance(1, 6) => writeln!(w, "setmax {}", rng.range(1, 4)).unwrap(),
                1 if rng.chance(1, 8) => writeln!(w, "probe").unwrap(),
                20 => match rng.below(3) {
                    0 if nf < 8 => {
                        writeln!(w, "fnew").unwrap();
                        nf += 1;
                    }
                    1 if nf < 8 => {
                        writeln!(w, "fclone {}", rng.below(nf)).unwrap();
                        nf += 1;
                    }
                    _ => writeln!(w, "fset {} {}", rng.below(nf), rng.pick(&[50u64, 100, 101, 333, 1000, 2999, 3000, 3001, 4000])).unwrap(),
                },
                21 | 22 if ns < 8 => {
                    writeln!(w, "fsvc {}", rng.below(nf)).unwrap();
                    ns += 1;
                }
                21 | 22 | 23 if calls < 5 => {
                    if rng.chance(3, 4) {
                        writeln!(w, "ready").unwrap();
                    }
                    writeln!(w, "call {} {} {}", rng.pick(&libs), rng.pick(&clis), rng.below(ns)).unwrap();
                    calls += 1;
                }
                21 | 22 | 23 => writeln!(w, "poll {k}").unwrap(),
                0 | 1 => writeln!(w, "ready").unwrap(),
                2 | 3 if calls < 5 => {
                    if rng.chance(3, 4) {
                        writeln!(w, "ready").unwrap();
                    }
                    writeln!(w, "call {} {}", rng.pick(&libs), rng.pick(&clis)).unwrap();
                    calls += 1;
                }
                4 if rng.chance(1, 2) => writeln!(w, "poll {k} {}", rng.below(3)).unwrap(),
                4..=7 => writeln!(w, "poll {k}").unwrap(),
                8..=11 => writeln!(w, "cflight {k} {}", rng.pick(&["full", "full", "full", "part", "rest"])).unwrap(),
                12 => writeln!(w, "garbage {k} {}", rng.pick(&kinds)).unwrap(),
                13 => writeln!(w, "close {k}").unwrap(),
                14 => writeln!(w, "drop {k}").unwrap(),
                15 => writeln!(w, "advance {}", rng.pick(&[0u64, 1, 10, 50, 99, 100, 101, t - 1, t, t + 1, 700])).unwrap(),
                16 | 17 => writeln!(w, "run {}", rng.pick(&[0u64, 1, 5, 50, 100, t / 2, t, t + 7])).unwrap(),
                18 => match rng.below(4) {
                    0 => writeln!(w, "echo {k} {} {}", rng.pick(&sizes), rng.below(1000)).unwrap(),
                    1 => writeln!(w, "rdy {k} {} {}", rng.pick(&["r", "p"]), rng.pick(&["r", "p"])).unwrap(),
                    _ => writeln!(
                        w,
                        "xfer {k} {} {} {} {} {} {} {} {} {}",
                        rng.pick(&["s2c", "c2s", "both"]),
                        rng.pick(&sizes),
                        rng.below(1000),
                        rng.pick(&[0usize, 100, 1024, 4096]),
                        rng.pick(&[0usize, 1, 100]),
                        rng.pick(&["d", "b"]),
                        rng.pick(&["all", "chunk", "cflush", "vec"]),
                        rng.pick(&["flush", "flush", "shut"]),
                        rng.pick(&["exact", "small"])
                    )
                    .unwrap(),
                },
                _ => writeln!(w, "{}", rng.pick(&["poll 9", "poll x", "cflight 0 half", "garbage 0 salt", "advance 20001", "run -1", "echo 0 1", "call x r13", "call r tls9", "ready now", "frob", "xfer 0 s2c 1 1 0 0 d all flush", "xfer 0 s2c 1 1 0 0 d all close exact", "rdy 0 r", "rdy 0 w r"])).unwrap(),
            }
        }
        writeln!(w, "run {}", if nf > 1 { 4001 } else { t + 1 }).unwrap();
        writeln!(w, "ready").unwrap();
    }
    // malformed headers
    for (i, h) in ["kind=acc max=4", "kind=acc max=301 tmo=100", "kind=acc max=02 tmo=100", "kind=acc max=1 tmo=0", "kind=acc max=1 tmo=20001", "kind=tls max=1 tmo=100", "kind=acc max=x tmo=100"].iter().enumerate() {
        writeln!(w, "case badhdr-{i} {h}").unwrap();
        writeln!(w, "ready").unwrap();
        writeln!(w, "call r r13").unwrap();
    }
}

fn gen(a: &Args) {
    let mut w = out_writer(&a.output);
    match a.prop.as_str() {
        "C19" => gen_c19(a, &mut *w),
        "C18" => gen_c18(a, &mut *w),
        _ => {}
    }
    w.flush().unwrap();
}

// ------------------------------------------------------------------------------------------------
// run
// ------------------------------------------------------------------------------------------------

enum Case {
    None,
    Conn(Ctx),
    TlsConn,
}

struct GroupOut {
    real: Vec<String>,
    t3: Vec<(String, String)>, // (prop, message)
    notes: Vec<String>,
}

/// header of an acceptor case: (max, tmo, where the limit is set); `None` inside = `default`.
/// `set=main` (default): `max_concurrent_tls_connect(max)` is called on the harness MAIN thread before the
/// case's thread exists (start-up code configuring the workers); `set=self`: on the case's own thread, before
/// its first service is built.
fn parse_acc_header(rest: &[&str]) -> Option<(Option<usize>, Option<u64>, bool)> {
    let kv: std::collections::HashMap<&str, &str> = rest.iter().filter_map(|x| x.split_once('=')).collect();
    let set_self = match (rest.len(), kv.get("set").copied()) {
        (3, None) => false,
        (4, Some("main")) => false,
        (4, Some("self")) => true,
        _ => return None,
    };
    if kv.get("kind").copied() != Some("acc") {
        return None;
    }
    let max = match kv.get("max").copied()? {
        "default" => None,
        m => Some(m.parse::<usize>().ok().filter(|m| *m <= 300 && m.to_string() == *kv.get("max").unwrap())?),
    };
    let tmo = match kv.get("tmo").copied()? {
        "default" => None,
        t => Some(t.parse::<u64>().ok().filter(|x| *x >= 1 && *x <= 20_000 && x.to_string() == t)?),
    };
    Some((max, tmo, set_self))
}

fn run_conn_group(rt: &tokio::runtime::Runtime, lines: &[String]) -> GroupOut {
    let mut rep_t3: Vec<(String, String)> = vec![];
    let mut notes = vec![];
    let mut real = vec![];
    let mut case = Case::None;
    let mut tpki: Option<tconn::Pki> = None;
    let mut tslots = tconn::Slots::default();
    for line in lines {
        let ws: Vec<&str> = line.split_whitespace().collect();
        let r: String = match ws.as_slice() {
            ["case", _name, rest @ ..] => {
                case = Case::None;
                let kv: std::collections::HashMap<&str, &str> = rest.iter().filter_map(|x| x.split_once('=')).collect();
                match kv.get("kind").copied() {
                    Some("conn") => {
                        let kinds: Option<Vec<EpKind>> = kv.get("eps").copied().unwrap_or("").split(',').filter(|x| !x.is_empty()).map(parse_kind).collect();
                        match kinds {
                            Some(ks) if ks.len() <= 8 && rest.len() == 2 => {
                                let mut taken = vec![];
                                let eps: std::io::Result<Vec<Ep>> = ks
                                    .into_iter()
                                    .map(|k| {
                                        let e = make_ep(k, &taken)?;
                                        taken.push(e.addr.port());
                                        Ok(e)
                                    })
                                    .collect();
                                match eps {
                                    Ok(eps) => {
                                        case = Case::Conn(Ctx { eps });
                                        "ok".into()
                                    }
                                    Err(e) => {
                                        notes.push(format!("cannot set up endpoints: {e}"));
                                        "env-error".into()
                                    }
                                }
                            }
                            _ => "bad-op".into(),
                        }
                    }
                    Some("tlsconn") if rest.len() == 1 => {
                        case = Case::TlsConn;
                        tslots = tconn::Slots::default();
                        "ok".into()
                    }
                    _ => "bad-op".into(),
                }
            }
            ["tconn", lib0, srv @ ("r" | "o"), ca @ ("good" | "bad"), names, host, payload]
                if matches!(case, Case::TlsConn)
                    && matches!(lib0.split('#').collect::<Vec<_>>().as_slice(), [_] | [_, "0" | "1" | "2" | "3" | "0c" | "1c" | "2c" | "3c"])
                    && matches!(lib0.split('#').next().unwrap().split(':').collect::<Vec<_>>().as_slice(), ["r" | "o"] | ["r" | "o", "k" | "kc" | "f" | "cf" | "fc"]) =>
            {
                let (lib0, slot) = match lib0.split_once('#') {
                    Some((l, sl)) => (l, Some((sl[..1].parse::<usize>().unwrap(), sl.ends_with('c')))),
                    None => (*lib0, None),
                };
                let (lib, tpath) = match lib0.split_once(':') {
                    Some((l, p)) => (l, p),
                    None => (lib0, "k"),
                };
                let lib = &lib;
                let cx0 = Ctx { eps: vec![] };
                let host = if let Some(h) = HostReq::of_token(|x| cx0.subst(x), host) {
                    Some(h)
                } else if let Some(h) = host.strip_prefix("h=") {
                    h.rsplit_once(',').and_then(|(h, p)| {
                        let p = if p == "-" { Some(None) } else { p.parse::<u16>().ok().filter(|x| x.to_string() == p).map(Some) };
                        Some(HostReq::H(cx0.subst(h)?, p?))
                    })
                } else {
                    None
                };
                let names = names.strip_prefix("n=");
                let payload = payload.parse::<usize>().ok().filter(|n| *n <= 65536 && n.to_string() == *payload);
                match (host, names, payload) {
                    (Some(host), Some(names), Some(payload)) => {
                        let op = tconn::TOp { lib: lib.to_string(), path: tpath.to_string(), slot, srv: srv.to_string(), names: names.to_string(), trusted: *ca == "good", host, payload };
                        let pk = tpki.get_or_insert_with(tconn::Pki::new);
                        match tconn::run(rt, pk, &mut tslots, &op) {
                            None => "bad-op".into(),
                            Some(r) => {
                                // (from the op text, not read back from the `Host` impl under test)
                                let hostname = op.host.expected().0;
                                let is_ip = hostname.parse::<IpAddr>().is_ok();
                                let covered = op.trusted && tconn::covers_for(lib, &op.names, &hostname);
                                // conservative: names every TLS stack accepts (lower-case LDH labels) or IP literals
                                let plain = is_ip
                                    || (!hostname.is_empty()
                                        && hostname.len() <= 253
                                        && hostname.split('.').all(|l| {
                                            !l.is_empty() && l.len() <= 63 && !l.starts_with('-') && !l.ends_with('-') && l.chars().all(|c| c.is_ascii_lowercase() || c.is_ascii_digit() || c == '-')
                                        })
                                        && !hostname.split('.').last().unwrap().chars().all(|c| c.is_ascii_digit()));
                                let out = match &r {
                                    tconn::TRes::Ok { sni, echo } => format!("ok sni={} echo={echo}", sni.clone().unwrap_or_else(|| "-".into())),
                                    tconn::TRes::InvalidInput { io } => format!("err invalid-input io={}", (*io > 0) as u8),
                                    tconn::TRes::Handshake { .. } => "err handshake".into(),
                                    tconn::TRes::Panic => "panic".into(),
                                    tconn::TRes::Watchdog => "watchdog".into(),
                                };
                                let mut t3 = |m: String| rep_t3.push(("C19".to_string(), m));
                                match &r {
                                    tconn::TRes::Panic | tconn::TRes::Watchdog => t3(format!("TLS connector ({lib}) did not return a result for hostname {:?}: {out}", hostname)),
                                    tconn::TRes::Ok { sni, echo } => {
                                        // (a leading-dot name under OpenSSL is a sub-domain query by X509_check_host's own rule: not judged)
                                        if !covered && !(*lib == "o" && hostname.starts_with('.')) {
                                            t3(format!("TLS connector ({lib}) succeeded for hostname {:?} but the certificate (names {}, trusted issuer: {}) is not valid for it", hostname, op.names, op.trusted));
                                        }
                                        // the name on the wire is the request's own (rustls: without the root dot of an absolute name)
                                        let on_wire = if *lib == "r" { hostname.strip_suffix('.').unwrap_or(&hostname).to_string() } else { hostname.clone() };
                                        let plain = plain || (*lib == "r" && hostname.ends_with('.') && on_wire.split('.').all(|l| !l.is_empty() && l.chars().all(|c| c.is_ascii_lowercase() || c.is_ascii_digit())));
                                        let want = if is_ip { None } else { Some(on_wire) };
                                        if plain && *sni != want {
                                            t3(format!("server saw SNI {:?}, expected the request's hostname {:?}", sni, want));
                                        }
                                        if echo != "ok" {
                                            t3(format!("payload of {} bytes did not arrive unchanged: {echo}", op.payload));
                                        }
                                    }
                                    tconn::TRes::InvalidInput { io } => {
                                        if *io > 0 {
                                            t3("InvalidInput although bytes were sent to the server".to_string());
                                        }
                                        if plain {
                                            t3(format!("hostname {:?} rejected as invalid", hostname));
                                        }
                                    }
                                    tconn::TRes::Handshake { .. } => {
                                        if covered && plain {
                                            t3(format!("TLS connector ({lib}) failed although the certificate (names {}) covers hostname {:?}", op.names, hostname));
                                        }
                                    }
                                }
                                out
                            }
                        }
                    }
                    _ => "bad-op".into(),
                }
            }
            ["conn", ..] => match &case {
                Case::Conn(cx) => match parse_conn_op(cx, &ws) {
                    Some(op) => {
                        let mut sink = T3Sink::default();
                        let out = run_conn_op(rt, cx, &op, &mut sink);
                        rep_t3.extend(sink.t3.into_iter().map(|m| ("C19".to_string(), m)));
                        notes.extend(sink.notes);
                        out
                    }
                    None => "bad-op".into(),
                },
                _ => "bad-op".into(),
            },
            _ => "bad-op".into(),
        };
        real.push(r);
    }
    GroupOut { real, t3: rep_t3, notes }
}

#[derive(Default)]
pub struct T3Sink {
    pub t3: Vec<String>,
    pub notes: Vec<String>,
}
impl T3Sink {
    pub fn t3(&mut self, _prop: &str, m: &str) {
        self.t3.push(m.to_string())
    }
    pub fn note(&mut self, m: &str) {
        self.notes.push(m.to_string())
    }
}

/// the crate's documented defaults (used only by the oracle's bookkeeping for `default` cases)
const DOC_DEFAULT_MAX: usize = 256;
const DOC_DEFAULT_TMO_MS: u64 = 3000;

fn run_acc_group(lines: &[String], hdr: (Option<usize>, Option<u64>, bool)) -> GroupOut {
    let ops: Vec<String> = lines[1..].to_vec();
    let n = ops.len();
    let (mut outs, t3, notes) = acc::run_case(hdr.0, hdr.1, hdr.2, ops, (DOC_DEFAULT_MAX, DOC_DEFAULT_TMO_MS));
    let mut t3: Vec<(String, String)> = t3.into_iter().map(|m| ("C18".to_string(), m)).collect();
    if outs.len() != n {
        outs = vec!["panic".to_string(); n];
        t3.push(("C18".into(), "the acceptor case panicked".into()));
    }
    let mut real = vec!["ok".to_string()];
    real.extend(outs);
    GroupOut { real, t3, notes }
}

fn run(a: &Args) {
    silence_panics();
    let mut rep = Report::new(&a.output);
    let rt = tokio::runtime::Builder::new_current_thread().enable_all().build().unwrap();
    let lines: Vec<String> = in_lines(&a.input).collect();
    // split into cases
    let mut groups: Vec<(usize, usize)> = vec![];
    let mut start = 0;
    for (i, l) in lines.iter().enumerate() {
        if l.split_whitespace().next() == Some("case") && i > start {
            groups.push((start, i));
            start = i;
        }
    }
    if start < lines.len() {
        groups.push((start, lines.len()));
    }
    let header = |g: &(usize, usize)| -> Option<(Option<usize>, Option<u64>, bool)> {
        let ws: Vec<&str> = lines[g.0].split_whitespace().collect();
        match ws.as_slice() {
            ["case", _name, rest @ ..] => parse_acc_header(rest),
            _ => None,
        }
    };
    let mut outs: Vec<Option<GroupOut>> = groups.iter().map(|_| None).collect();
    // acceptor cases that rely on the crate's default limit run first: the limit is process-global
    for (gi, g) in groups.iter().enumerate() {
        if let Some((None, tmo, set_self)) = header(g) {
            outs[gi] = Some(run_acc_group(&lines[g.0..g.1], (None, tmo, set_self)));
        }
    }
    for (gi, g) in groups.iter().enumerate() {
        if outs[gi].is_some() {
            continue;
        }
        outs[gi] = Some(match header(g) {
            Some(h) => run_acc_group(&lines[g.0..g.1], h),
            None => run_conn_group(&rt, &lines[g.0..g.1]),
        });
    }
    for (gi, g) in groups.iter().enumerate() {
        let o = outs[gi].take().unwrap();
        for (k, line) in lines[g.0..g.1].iter().enumerate() {
            rep.obs(line, o.real.get(k).map(|s| s.as_str()).unwrap_or("panic"));
        }
        for (p, m) in &o.t3 {
            rep.t3(p, m);
        }
        for m in &o.notes {
            rep.note(m);
        }
    }
    rep.finish();
}

fn main() {
    let a = parse_args();
    match a.cmd.as_str() {
        "gen" => gen(&a),
        "run" => run(&a),
        _ => {
            eprintln!("usage: tls gen|run ...");
            std::process::exit(2)
        }
    }
}
