import ActixNet.Lemmas.Avail
import ActixNet.Lemmas.SrvRR
/-!
# C04 — dispatch is round-robin over available workers only; availability bits are independent

Part 1 (this section): the availability tracking.  The theorems are about the **generated** bodies
of `Availability::{offset, get_available, set_available, available}` (T1) and hold for all 2^512
bitset states and all index pairs — by bit-level lemmas with symbolic indices, not by enumeration.
-/
namespace ActixNet.C04
open ActixNet ActixNet.Avail

/-- reading an index below the documented maximum never panics and reads that worker's bit -/
theorem get_total (a : Avail) (i : Nat) (h : i < 512) : get a i = some (bits a i) := get_eq_bits a h

/-- `offset` panics exactly for indices ≥ 512 (the documented maximum worker count) -/
theorem offset_total (i : Nat) : Src.availOffset i = none ↔ 512 ≤ i := by
  constructor
  · intro h
    apply Classical.byContradiction
    intro hn
    obtain ⟨o, j, he, _⟩ := offset_some (idx := i) (by omega)
    simp [he] at h
  · exact offset_none

/-- **independence**: setting worker `i`'s bit changes worker `i`'s bit to the given value and no
other worker's bit, for every pair of indices below 512 and every state of the bitset -/
theorem avail_frame (a : Avail) (i j : Nat) (v : Bool) (hi : i < 512) (hj : j < 512) :
    ∃ a', set a i v = some a' ∧ get a' j = some (if j = i then v else bits a j) := by
  obtain ⟨a', hs, hb⟩ := set_bits a v hi
  exact ⟨a', hs, by rw [get_eq_bits a' hj, hb j]⟩

theorem avail_same (a : Avail) (i : Nat) (v : Bool) (hi : i < 512) :
    ∃ a', set a i v = some a' ∧ get a' i = some v := by
  obtain ⟨a', hs, hg⟩ := avail_frame a i i v hi hi
  exact ⟨a', hs, by simpa using hg⟩

/-- `available()` is true exactly when some worker below 512 has its bit set -/
theorem available_iff_some_bit (a : Avail) : available a = true ↔ ∃ i, i < 512 ∧ get a i = some true := by
  rw [available_iff]
  constructor
  · rintro ⟨i, hi, hb⟩; exact ⟨i, hi, by rw [get_eq_bits a hi, hb]⟩
  · rintro ⟨i, hi, hb⟩; rw [get_eq_bits a hi] at hb; exact ⟨i, hi, by simpa using hb⟩

/-- a freshly built bitset has no worker available -/
theorem default_none_available : available ({} : Avail) = false := by decide

-- non-vacuity: worker 300 and worker 5 on a non-trivial state
example : get ({ w2 := 1 <<< 44 } : Avail) 300 = some true ∧ get ({ w2 := 1 <<< 44 } : Avail) 5 = some false := by
  decide
example : (set ({ w0 := 32 } : Avail) 300 true).bind (fun a => get a 5) = some true := by decide


/-! ## Part 2: dispatch order over the accept-loop model (`ActixNet.Srv`, fault-free histories, any
schedule of other threads' actions at the yield points) -/
open ActixNet.Srv

/-- **round robin**: a connection handed to `accept_one` while the worker at the rotation cursor is
marked available goes to exactly that worker, and the cursor advances by one modulo the number of
workers — whatever other threads do inside the send/increment window. -/
theorem dispatch_goes_to_cursor (cfg : Cfg) (ok : CfgOk cfg) (fuel : Nat) (s : St) (c : Conn)
    (h : AccInv cfg s) (hnf : s.fault = none) (hav : s.avail s.next = true) :
    (acceptOne cfg (fuel + 1) s c).dispatched = s.dispatched ++ [(c, s.next)] ∧
    (acceptOne cfg (fuel + 1) s c).next = (s.next + 1) % cfg.nIdx :=
  acceptOne_dispatches_to_cursor ok fuel s c h hnf hav

/-- consequently, while no worker is saturated (every cursor position met is available), any
`k ≤ W` consecutive dispatches go to the cursor positions `next, next+1, …` — pairwise distinct workers -/
theorem rr_distinct (W next k : Nat) (hk : k ≤ W) : ((List.range k).map (fun j => (next + j) % W)).Nodup :=
  cursor_positions_distinct W next k hk

/-- **a saturated (not-available) worker is skipped and receives nothing**: `accept_one` only moves
the cursor past it -/
theorem saturated_worker_is_skipped (cfg : Cfg) (ok : CfgOk cfg) (fuel : Nat) (s : St) (c : Conn)
    (h : AccInv cfg s) (hnf : s.fault = none) (hav : s.avail s.next = false) (hany : anyAvail cfg s = true) :
    acceptOne cfg (fuel + 1) s c = acceptOne cfg fuel { s with next := (s.next + 1) % cfg.nIdx } c :=
  acceptOne_skips_unavailable ok fuel s c h hnf hav hany

/-- and "not available" means really saturated, unless a wake-up is pending (C03); "available" means
spare capacity (C02) — so skipping is exact -/
theorem available_iff_capacity_modulo_wakeup (cfg : Cfg) (s : St) (g : Good cfg s) (hp : s.pend = none) (w : Nat)
    (hw : w < cfg.nIdx) :
    (s.avail w = true → (s.wk w).queue.length + (s.wk w).inflight.length < cfg.limit) ∧
    (s.avail w = false → tokOf s.wk s.wq w = 0 → (s.wk w).queue.length + (s.wk w).inflight.length = cfg.limit) := by
  have gw := g.2 w hw
  have hp' : (core s).pend = none := hp
  simp only [GoodWC, hp', pendIs_none] at gw
  unfold GW at gw
  simp only [qOf, core, Bool.false_eq_true, ↓reduceIte] at gw
  refine ⟨fun h => ?_, fun h ht => ?_⟩
  · have := gw.2.1 h; omega
  · have := gw.2.2.2.2.1 h ht; omega

end ActixNet.C04
