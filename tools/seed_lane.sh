#!/bin/sh
# tools/seed_lane.sh <queue-file>: like seed_daemon.sh for another queue file (a second / third lane of confirmations;
# the environment, e.g. SEEDFEATURES, is inherited by every confirmation of the lane); stop with <queue-file>.stop
Q=$1; cd /verif; touch "$Q"; N=0
while [ ! -f "$Q.stop" ]; do
  T=$(wc -l < "$Q")
  if [ "$N" -lt "$T" ]; then
    N=$((N+1)); L=$(sed -n "${N}p" "$Q")
    [ -n "$L" ] && tools/seed_queue.sh $L
    echo "$(basename $Q) $N $L done $(date -u +%H:%M:%S)" >> .build/seedq.done
  else sleep 15; fi
done
