import ActixNet.Model.Tls
/-! Helper lemmas for `Props/C18.lean` (acceptor model). -/
namespace ActixNet.Tls

/-! ### what the regenerated `Counter` kernels compute -/

theorem ucInc_eq (c cap : Nat) : Src.ucInc c cap = c + 1 := by simp [Src.ucInc]
theorem ucDec_fst (c cap : Nat) (w : Bool) : (Src.ucDec c cap w).1 = c - 1 := by
  simp only [Src.ucDec]; split <;> rfl
theorem ucDec_snd (c cap : Nat) : (Src.ucDec c cap false).2 = decide (c = cap) := by
  simp only [Src.ucDec]; split <;> simp_all
theorem ucAvail_fst (c cap : Nat) (r : Bool) : (Src.ucAvailable c cap r).1 = decide (c < cap) := by
  simp only [Src.ucAvailable]; split <;> simp_all
theorem ucAvail_snd (c cap : Nat) (r : Bool) : (Src.ucAvailable c cap r).2 = (if c < cap then r else true) := by
  simp only [Src.ucAvailable]; split <;> simp_all

/-! ### `AcceptFut::poll` driven by an executor -/

theorem pollFut_at_deadline_ne_none (T : Nat) (h : HsPoll) : pollFut T T h ≠ none := by
  cases h <;> simp [pollFut]

theorem drive_none (T : Nat) (hs : Nat → HsPoll) (times : List Nat) (h : drive T hs times = none) :
    ∀ t ∈ times, pollFut T t (hs t) = none := by
  induction times with
  | nil => intro t ht; cases ht
  | cons x xs ih =>
    intro t ht
    simp only [drive] at h
    cases hp : pollFut T x (hs x) with
    | some o => simp [hp] at h
    | none =>
      simp only [hp] at h
      rcases List.mem_cons.mp ht with rfl | ht
      · exact hp
      · exact ih h t ht

theorem drive_some (T : Nat) (hs : Nat → HsPoll) (times : List Nat) (hsorted : times.Pairwise (· ≤ ·))
    (o : Outcome) (t : Nat) (h : drive T hs times = some (o, t)) :
    t ∈ times ∧ pollFut T t (hs t) = some o ∧ ∀ t' ∈ times, t' < t → pollFut T t' (hs t') = none := by
  induction times with
  | nil => simp [drive] at h
  | cons x xs ih =>
    simp only [drive] at h
    have hx := List.pairwise_cons.mp hsorted
    cases hp : pollFut T x (hs x) with
    | some o' =>
      simp only [hp] at h
      injection h with h; injection h with h1 h2
      subst h1; subst h2
      refine ⟨by simp, hp, ?_⟩
      intro t' ht' hlt
      rcases List.mem_cons.mp ht' with rfl | ht'
      · omega
      · have := hx.1 t' ht'; omega
    | none =>
      simp only [hp] at h
      obtain ⟨h1, h2, h3⟩ := ih hx.2 h
      refine ⟨by simp [h1], h2, ?_⟩
      intro t' ht' hlt
      rcases List.mem_cons.mp ht' with rfl | ht'
      · exact hp
      · exact h3 t' ht' hlt

/-! ### wakers of a pending accept future -/

theorem FutW.poll_deadline (g : FutW) (w t : Nat) (hs : HsPoll) : (g.poll w t hs).1.deadline = g.deadline := by
  simp only [FutW.poll]; split <;> rfl

theorem FutW.tick_deadline (g : FutW) (old new : Nat) : (g.tick old new).deadline = g.deadline := by
  simp only [FutW.tick]
  split
  · cases g.lastW <;> rfl
  · rfl

theorem FutW.polls_deadline (polls : List (Nat × Nat)) (g : FutW) :
    (polls.foldl (fun g p => (g.poll p.1 p.2 .pending).1) g).deadline = g.deadline := by
  induction polls generalizing g with
  | nil => rfl
  | cons p ps ih => simp only [List.foldl]; rw [ih, FutW.poll_deadline]

/-! ### counting alive futures -/

@[simp] theorem upd_same {α : Type} (f : Nat → α) (i : Nat) (v : α) : upd f i v i = v := by simp [upd]
theorem upd_other {α : Type} (f : Nat → α) (i j : Nat) (v : α) (h : j ≠ i) : upd f i v j = f j := by simp [upd, h]

theorem aliveBelow_upd_ge (f : Nat → FutSt) (k : Nat) (v : FutSt) (n : Nat) (h : n ≤ k) :
    aliveBelow (upd f k v) n = aliveBelow f n := by
  induction n with
  | zero => rfl
  | succ m ih =>
    have hm : m ≠ k := by omega
    simp [aliveBelow, ih (by omega), upd_other f k m v hm]

theorem aliveBelow_upd_lt (f : Nat → FutSt) (k : Nat) (v : FutSt) (n : Nat) (h : k < n) :
    aliveBelow (upd f k v) n + (if (f k).isAlive then 1 else 0) = aliveBelow f n + (if v.isAlive then 1 else 0) := by
  induction n with
  | zero => omega
  | succ m ih =>
    by_cases hk : k = m
    · subst hk
      simp only [aliveBelow, upd_same, aliveBelow_upd_ge f k v k (Nat.le_refl k)]
      omega
    · have hlt : k < m := by omega
      have hm : m ≠ k := fun e => hk e.symm
      have := ih hlt
      simp only [aliveBelow, upd_other f k m v hm]
      omega

/-- the invariant of the gate, for **all** op histories (also contract-violating ones) -/
structure Good (s : Svc) : Prop where
  count_eq : s.count = s.inProgress
  fresh : ∀ k, s.next ≤ k → s.futs k = .absent
  parked : s.registered = true → s.cap ≤ s.count

theorem alive_lt_next (s : Svc) (g : Good s) (k d : Nat) (h : s.futs k = .alive d) : k < s.next := by
  rcases Nat.lt_or_ge k s.next with h1 | h1
  · exact h1
  · have := g.fresh k h1; rw [h] at this; cases this

theorem release_count (s : Svc) : s.release.count = s.count - 1 := by
  simp only [Svc.release]; split <;> simp [ucDec_fst]
theorem release_futs (s : Svc) : s.release.futs = s.futs := by
  simp only [Svc.release]; split <;> rfl
theorem release_next (s : Svc) : s.release.next = s.next := by
  simp only [Svc.release]; split <;> rfl
theorem release_cap (s : Svc) : s.release.cap = s.cap := by
  simp only [Svc.release]; split <;> rfl

/-- effect of ending (resolving or dropping) the alive future `k` -/
def Svc.endK (s : Svc) (k : Nat) : Svc := { s.release with futs := upd s.futs k .done }

theorem endK_inProgress (s : Svc) (g : Good s) (k d : Nat) (h : s.futs k = .alive d) :
    (s.endK k).inProgress + 1 = s.inProgress := by
  have hk := alive_lt_next s g k d h
  have := aliveBelow_upd_lt s.futs k .done s.next hk
  simp only [Svc.endK, Svc.inProgress, release_next]
  simp [h, FutSt.isAlive] at this
  omega

theorem endK_good (s : Svc) (g : Good s) (k d : Nat) (h : s.futs k = .alive d) : Good (s.endK k) := by
  have hip := endK_inProgress s g k d h
  have hc := g.count_eq
  have hcnt : (s.endK k).count = s.count - 1 := by simp [Svc.endK, release_count]
  refine ⟨?_, ?_, ?_⟩
  · omega
  · intro j hj
    simp only [Svc.endK, release_next] at hj ⊢
    have hk := alive_lt_next s g k d h
    have : j ≠ k := by omega
    simp [upd_other _ _ _ _ this, g.fresh j hj]
  · simp only [Svc.endK, Svc.release]
    split
    · simp
    · rename_i hw
      simp only [ucDec_snd, decide_eq_true_eq] at hw
      simp only [ucDec_fst]
      intro hr
      have := g.parked hr
      omega

theorem callT_good (s : Svc) (g : Good s) (tmo now : Nat) : Good (s.callT tmo now) := by
  refine ⟨?_, ?_, ?_⟩
  · simp only [Svc.callT, Svc.inProgress, aliveBelow, upd_same, ucInc_eq,
      aliveBelow_upd_ge s.futs s.next _ s.next (Nat.le_refl _)]
    have := g.count_eq
    simp only [Svc.inProgress] at this
    simp [FutSt.isAlive, this]
  · intro k hk
    simp only [Svc.callT] at hk ⊢
    have : k ≠ s.next := by omega
    simp [upd_other _ _ _ _ this, g.fresh k (by omega)]
  · simp only [Svc.callT, ucInc_eq]
    intro hr; have := g.parked hr; omega

theorem pollReadyW_good (s : Svc) (g : Good s) (w : Nat) : Good (s.pollReadyW w).1 := by
  refine ⟨g.count_eq, g.fresh, ?_⟩
  simp only [Svc.pollReadyW, ucAvail_snd]
  intro hr
  split at hr
  · rename_i hlt; have := g.parked hr; omega
  · rename_i hlt; omega

theorem good_step (s : Svc) (g : Good s) (op : Op) : Good (s.step op) := by
  cases op with
  | ready => exact pollReadyW_good s g 0
  | readyW w => exact pollReadyW_good s g w
  | call now => exact callT_good s g s.tmo now
  | callT tmo now => exact callT_good s g tmo now
  | poll k now hs =>
    simp only [Svc.step, Svc.pollK]
    split
    · rename_i d hk
      split
      · exact endK_good s g k d hk
      · exact g
    · exact g
  | drop k =>
    simp only [Svc.step, Svc.dropK]
    split
    · rename_i d hk; exact endK_good s g k d hk
    · exact g

def Svc.init (cap tmo : Nat) : Svc := { cap := cap, tmo := tmo }

theorem good_init (cap tmo : Nat) : Good (Svc.init cap tmo) :=
  ⟨rfl, fun _ _ => rfl, fun h => by simp [Svc.init] at h⟩

theorem good_run (s : Svc) (g : Good s) (ops : List Op) : Good (s.run ops) := by
  induction ops generalizing s with
  | nil => exact g
  | cons op ops ih => exact ih (s.step op) (good_step s g op)

theorem step_cap (s : Svc) (op : Op) : (s.step op).cap = s.cap := by
  cases op with
  | ready => rfl
  | readyW w => rfl
  | call now => rfl
  | callT tmo now => rfl
  | poll k now hs =>
    simp only [Svc.step, Svc.pollK]
    split
    · split
      · simp [release_cap]
      · rfl
    · rfl
  | drop k =>
    simp only [Svc.step, Svc.dropK]
    split
    · simp [release_cap]
    · rfl

theorem run_cap (s : Svc) (ops : List Op) : (s.run ops).cap = s.cap := by
  induction ops generalizing s with
  | nil => rfl
  | cons op ops ih => simp only [Svc.run, List.foldl] at ih ⊢; rw [ih, step_cap]

theorem step_count_le (s : Svc) (op : Op) (h : s.count ≤ s.cap) (hc : s.contractOk op) :
    (s.step op).count ≤ (s.step op).cap := by
  rw [step_cap]
  cases op with
  | ready => exact h
  | readyW w => exact h
  | call now => simp only [Svc.step, Svc.call, Svc.callT, ucInc_eq]; simp only [Svc.contractOk] at hc; omega
  | callT tmo now => simp only [Svc.step, Svc.callT, ucInc_eq]; simp only [Svc.contractOk] at hc; omega
  | poll k now hs =>
    simp only [Svc.step, Svc.pollK]
    split
    · split
      · simp only [release_count]; omega
      · exact h
    · exact h
  | drop k =>
    simp only [Svc.step, Svc.dropK]
    split
    · simp only [release_count]; omega
    · exact h

theorem run_count_le (s : Svc) (ops : List Op) (h : s.count ≤ s.cap) (hr : s.Respects ops) :
    (s.run ops).count ≤ (s.run ops).cap := by
  induction ops generalizing s with
  | nil => exact h
  | cons op ops ih =>
    exact ih (s.step op) (step_count_le s op h hr.1) hr.2

instance decContract (s : Svc) (op : Op) : Decidable (s.contractOk op) := by
  cases op <;> simp only [Svc.contractOk] <;> infer_instance

instance decRespects : (s : Svc) → (ops : List Op) → Decidable (s.Respects ops)
  | _, [] => isTrue trivial
  | s, op :: ops =>
    match decContract s op, decRespects (s.step op) ops with
    | isTrue a, isTrue b => isTrue ⟨a, b⟩
    | isFalse a, _ => isFalse (fun h => a h.1)
    | _, isFalse b => isFalse (fun h => b h.2)

end ActixNet.Tls
