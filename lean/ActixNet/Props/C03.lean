import ActixNet.Lemmas.SrvKernels
/-!
# C03 — back-pressure releases: spare worker capacity is always used (no lost wake-up)

(first instalment: the kernel-level statement; the system-level invariant theorems over
`ActixNet.Srv` are added below it as they are proved)
-/
namespace ActixNet.C03
open ActixNet

/-- The release that takes a saturated worker (raw counter `L + 1` = `L` connections in progress)
below its limit is reported as "crossed" — the event that queues `WorkerAvailable` — and no other
release is.  Holds for every limit, including 1. -/
theorem release_of_saturated_worker_wakes (L old : Nat) (h : 1 ≤ old) :
    Src.wcDecCrossed old L = true ↔ old = L + 1 :=
  SrvKernels.decCrossed_iff old L h

example : (1 : Nat) ≤ 2 ∧ (2 : Nat) = 1 + 1 := by omega  -- limit 1, saturated: raw value 2

end ActixNet.C03
