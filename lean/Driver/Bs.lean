import ActixNet.Model.Utf8
import Driver.Util
/-! Engine `bs`: line protocol for the UTF-8 / ByteString model. -/
namespace Driver.Bs
open ActixNet.Utf8 ActixNet.ByteString Driver

def ordStr : Ordering → String | .lt => "lt" | .eq => "eq" | .gt => "gt"

/-- where a value lives: buffer id and offset (only meaningful for non-empty values; `Bytes` views of
one allocation share the id).  This is the memory side of `Bytes::slice_ref` (trusted: the `bytes`
crate), kept in the driver; the bytes of every value are those of the verified model `Store`. -/
structure State where
  st : Store := []
  prov : List (Nat × Nat) := []
  nextBuf : Nat := 0

def init : State := {}

def stepStore (st : Store) (line : String) : Store × String :=
  match words line with
  | "case" :: _ => ([], "ok")
  | ["valid", h] => match parseHex h with
    | some bs => (st, if valid bs then "1" else "0")
    | none => (st, "bad-op")
  | ["tryfrom", h] => match parseHex h with
    | some bs => match ActixNet.ByteString.step st (.tryFrom bs) with
      | some st' => (st', s!"ok {st.length}")
      | none => (st, "err")
    | none => (st, "bad-op")
  | ["fromstr", h] => match parseHex h with
    | some bs => match ActixNet.ByteString.step st (.fromStr bs) with
      | some st' => (st', s!"ok {st.length}")
      | none => (st, "bad-op")   -- not a `str`: the harness cannot even issue it
    | none => (st, "bad-op")
  | ["split", k, i] => match k.toNat?, i.toNat? with
    | some k, some i =>
      if k < st.length then
        match ActixNet.ByteString.step st (.splitAt k i) with
        | some st' => (st', s!"ok {toHex (st'.getD st.length [])} {toHex (st'.getD (st.length + 1) [])}")
        | none => (st, "panic")
      else (st, "bad-op")
    | _, _ => (st, "bad-op")
  | ["slice", k, i, j] => match k.toNat?, i.toNat?, j.toNat? with
    | some k, some i, some j =>
      if k < st.length then
        match ActixNet.ByteString.step st (.sliceRef k i j) with
        | some st' => (st', s!"ok {toHex (st'.getD st.length [])}")
        | none => (st, "panic")
      else (st, "bad-op")
    | _, _, _ => (st, "bad-op")
  | ["clone", k] => match k.toNat? with
    | some k => match ActixNet.ByteString.step st (.clone k) with
      | some st' => (st', s!"ok {st.length}")
      | none => (st, "bad-op")
    | none => (st, "bad-op")
  | ["cmp", a, b] => match a.toNat?, b.toNat? with
    | some a, some b => match st[a]?, st[b]? with
      | some x, some y => (st, ordStr (cmpBytes x y))
      | _, _ => (st, "bad-op")
    | _, _ => (st, "bad-op")
  | ["get", k] => match k.toNat? with
    | some k => match st[k]? with
      | some x => (st, toHex x)
      | none => (st, "bad-op")
    | none => (st, "bad-op")
  | ["fmt", k, al, fl, w, p] =>
    -- `format!("{:<fill><align><w>.<p>}", st[k])`; `-` = absent
    let num (x : String) : Option (Option Nat) := if x == "-" then some none else x.toNat?.map some
    match k.toNat?, num w, num p with
    | some k, some w, some p =>
      match st[k]?, (match al with | "l" => some Align.left | "r" => some Align.right | "c" => some Align.center | "d" => some Align.left | _ => none),
            (match fl with | "s" => some 0x20 | "x" => some 0x2a | _ => none) with
      | some x, some a, some f =>
        if (w.getD 0) ≤ 64 ∧ (p.getD 0) ≤ 64 ∧ !(al == "d" && fl == "x") then (st, toHex (fmtPad x w p a f)) else (st, "bad-op")
      | _, _, _ => (st, "bad-op")
    | _, _, _ => (st, "bad-op")
  | ["boundary", k, i] => match k.toNat?, i.toNat? with
    | some k, some i => match st[k]? with
      | some x => (st, if isBoundary x i then "1" else "0")
      | none => (st, "bad-op")
    | _, _ => (st, "bad-op")
  | _ => (st, "bad-op")

def step (s : State) (line : String) : State × String :=
  let ws := words line
  match ws with
  | "case" :: _ => ({}, "ok")
  | ["xslice", r, k, i, j] =>
    -- `st[r].slice_ref(&st[k][i..j])`: the subset comes from ANOTHER value (possibly another view of the same buffer)
    match r.toNat?, k.toNat?, i.toNat?, j.toNat? with
    | some r, some k, some i, some j =>
      match s.st[r]?, s.st[k]?, s.prov[r]?, s.prov[k]? with
      | some br, some bk, some pr, some pk =>
        if i ≤ j && isBoundary bk i && isBoundary bk j then
          let contained := pr.1 == pk.1 && decide (pr.2 ≤ pk.2 + i) && decide (pk.2 + j ≤ pr.2 + br.length)
          if i == j || contained then
            match ActixNet.ByteString.step s.st (.sliceRef k i j) with
            | some st' => ({ s with st := st', prov := s.prov ++ [(pk.1, pk.2 + i)] }, s!"ok {toHex (st'.getD s.st.length [])}")
            | none => (s, "panic")
          else (s, "panic")
        else (s, "panic")
      | _, _, _, _ => (s, "bad-op")
    | _, _, _, _ => (s, "bad-op")
  | _ =>
    let (st', out) := stepStore s.st line
    -- provenance of the values the operation pushed
    let added := st'.length - s.st.length
    let prov' :=
      match ws with
      | ["split", k, i] => match k.toNat?, i.toNat?, s.prov[k.toNat?.getD 0]? with
        | some _, some i, some p => if added == 2 then s.prov ++ [p, (p.1, p.2 + i)] else s.prov
        | _, _, _ => s.prov
      | ["slice", k, i, _] => match k.toNat?, i.toNat?, s.prov[k.toNat?.getD 0]? with
        | some _, some i, some p => if added == 1 then s.prov ++ [(p.1, p.2 + i)] else s.prov
        | _, _, _ => s.prov
      | ["clone", k] => match s.prov[k.toNat?.getD 0]? with
        | some p => if added == 1 then s.prov ++ [p] else s.prov
        | none => s.prov
      | _ => if added == 1 then s.prov ++ [(s.nextBuf, 0)] else s.prov
    let fresh := match ws with
      | ["tryfrom", _] | ["fromstr", _] => added == 1
      | _ => false
    ({ st := st', prov := prov', nextBuf := if fresh then s.nextBuf + 1 else s.nextBuf }, out)

end Driver.Bs
