/-
  The waker queue at the granularity of its critical sections.  Producers (`WakerQueue::wake`: the server's commands,
  the workers' notifications) push under the queue's lock; the accept thread (`Accept::handle_waker`) takes the lock once
  per loop iteration and either pops the head, or finds the queue empty and replaces it by a fresh one WITHOUT releasing
  the lock in between (T1 facts `wqGuardPerIteration`, `wqPopUnderGuard`, `wqDrainedResetsUnderSameGuard`,
  `wqWakePushesUnderLock`).  So an execution is an interleaving of the whole steps below.
-/
namespace ActixNet.WakerQueue

structure Q (α : Type) where
  queue : List α := []
  processed : List α := []

inductive Step (α : Type) where
  | push (x : α)   -- one `wake`: lock, push_back, unlock (then the mio waker is rung)
  | pop            -- one locked section of the accept thread: pop the head and handle it, or reset the empty queue

def step {α : Type} (q : Q α) : Step α → Q α
  | .push x => { q with queue := q.queue ++ [x] }
  | .pop => match q.queue with
    | [] => { q with queue := [] }
    | x :: r => { queue := r, processed := q.processed ++ [x] }

def run {α : Type} (q : Q α) (steps : List (Step α)) : Q α := steps.foldl step q

def pushed {α : Type} : List (Step α) → List α
  | [] => []
  | .push x :: r => x :: pushed r
  | .pop :: r => pushed r

/-- The same consumer with the lock released between "found empty" and "replace the queue" (what seed13 C05-25 did):
    the reset is a step of its own and wipes whatever was pushed in between. -/
inductive Step' (α : Type) where
  | push (x : α)
  | pop
  | resetAfterEmpty   -- second half of a drained pop: swap in a fresh queue

def step' {α : Type} (q : Q α) : Step' α → Q α
  | .push x => { q with queue := q.queue ++ [x] }
  | .pop => match q.queue with
    | [] => q
    | x :: r => { queue := r, processed := q.processed ++ [x] }
  | .resetAfterEmpty => { q with queue := [] }

end ActixNet.WakerQueue
