import ActixNet.Lemmas.Connect
/-!
# C19 — connector: resolution precedence, ordered fallback, hostname-verified TLS

Property theorems only.  They hold for **every** environment: any IP-literal parser `parseIp`, any
resolver answer function `lookup`, any per-address connect behaviour `connect`, any TLS name check /
certificate verification (`validName`, `verify` are uninterpreted: certificate and hostname
verification themselves are the TLS library's — see the `partial` note of `props/C19.json`).
Each function of the model returns, besides its result, the log of environment calls it made
(`lookups`, `tried`); the correspondence run compares those logs with the real resolver call log and
the accept logs of the loopback listeners.
-/
namespace ActixNet.C19
open ActixNet.Connect

/-! ### Resolution precedence -/

/-- a request that already carries addresses is returned unchanged and the resolver is never called -/
theorem preset_never_resolved (parseIp : String → Option String) (lookup : String → Nat → Lookup)
    (r : Req) (h : r.addr ≠ .none) :
    (resolve parseIp lookup r).result = .ok r ∧ (resolve parseIp lookup r).lookups = [] := by
  have : r.addr.isResolved = true := by
    cases ha : r.addr <;> simp_all [Addrs.isResolved, Addrs.isUnresolved]
  simp [resolve, this]

/-- an IP-literal host is turned into the single address `literal : req.port()`; no resolver call -/
theorem ip_literal_direct (parseIp : String → Option String) (lookup : String → Nat → Lookup)
    (r : Req) (ip : String) (h : r.addr = .none) (hp : parseIp r.hostname = some ip) :
    (resolve parseIp lookup r).result = .ok { r with addr := .one { ip := ip, port := r.effPort } } ∧
    (resolve parseIp lookup r).lookups = [] := by
  simp [resolve, h, hp, Addrs.isResolved, Addrs.isUnresolved, Req.setAddr, Addrs.ofOption]

/-- any other host goes to the resolver exactly once, with `(hostname, req.port())`; a non-empty
answer becomes the request's address list, in the resolver's order, everything else unchanged -/
theorem resolver_answer_used (parseIp : String → Option String) (lookup : String → Nat → Lookup)
    (r : Req) (l : List Addr) (h : r.addr = .none) (hp : parseIp r.hostname = none)
    (hl : lookup r.hostname r.effPort = .ok l) (hne : l ≠ []) :
    ∃ r', (resolve parseIp lookup r).result = .ok r' ∧ r'.addr.toList = l ∧ r'.addr.wf ∧
      r'.host = r.host ∧ r'.port = r.port ∧ r'.localAddr = r.localAddr ∧
      (resolve parseIp lookup r).lookups = [(r.hostname, r.effPort)] := by
  have hu : (r.setAddrs l).addr.isUnresolved = false := by
    cases hh : (r.setAddrs l).addr.isUnresolved with
    | false => rfl
    | true => exact absurd ((setAddrs_unresolved_iff r l).mp hh) hne
  have hres : r.addr.isResolved = false := by simp [h, Addrs.isResolved, Addrs.isUnresolved]
  refine ⟨r.setAddrs l, ?_, setAddrs_toList r l, setAddrs_wf r l, rfl, rfl, rfl, ?_⟩ <;>
    simp only [resolve, hres, hp, hl, hu] <;> simp

/-- an empty resolver answer is `NoRecords` -/
theorem no_records (parseIp : String → Option String) (lookup : String → Nat → Lookup)
    (r : Req) (h : r.addr = .none) (hp : parseIp r.hostname = none)
    (hl : lookup r.hostname r.effPort = .ok []) :
    (resolve parseIp lookup r).result = .error .noRecords ∧
    (resolve parseIp lookup r).lookups = [(r.hostname, r.effPort)] := by
  have hu : (r.setAddrs []).addr.isUnresolved = true := (setAddrs_unresolved_iff r []).mpr rfl
  have hres : r.addr.isResolved = false := by simp [h, Addrs.isResolved, Addrs.isUnresolved]
  simp only [resolve, hres, hp, hl, hu]; simp

/-- a failing resolver is `Resolver` -/
theorem resolver_error (parseIp : String → Option String) (lookup : String → Nat → Lookup)
    (r : Req) (h : r.addr = .none) (hp : parseIp r.hostname = none)
    (hl : lookup r.hostname r.effPort = .fail) :
    (resolve parseIp lookup r).result = .error .resolver ∧
    (resolve parseIp lookup r).lookups = [(r.hostname, r.effPort)] := by
  simp [resolve, h, hp, hl, Addrs.isResolved, Addrs.isUnresolved]

/-- whatever the resolver service returns successfully is resolved and well-formed -/
theorem resolve_ok_resolved (parseIp : String → Option String) (lookup : String → Nat → Lookup)
    (r r' : Req) (hwf : r.addr.wf) (h : (resolve parseIp lookup r).result = .ok r') :
    r'.addr ≠ .none ∧ r'.addr.wf := by
  unfold resolve at h
  split at h
  · rename_i hr
    simp at h; subst h
    refine ⟨?_, hwf⟩
    intro hn; simp [hn, Addrs.isResolved, Addrs.isUnresolved] at hr
  · split at h
    · simp at h; subst h; simp [Req.setAddr, Addrs.ofOption, Addrs.wf]
    · split at h
      · simp at h
      · split at h
        · simp at h
        · rename_i hu
          simp at h; subst h
          refine ⟨?_, setAddrs_wf r _⟩
          intro hn; exact hu ((unresolved_iff_none _).mpr hn)

/-- `take_addrs` hands out exactly the carried addresses, in order, and leaves the request unresolved:
whatever was set before, a request whose addresses were taken goes through resolution again (an
IP-literal host directly, any other host through the configured resolver, exactly once), and handed to
the bare TCP connector it is `Unresolved` — never the `unwrap` panic of an empty address list -/
theorem take_addrs_unresolves (parseIp : String → Option String) (lookup : String → Nat → Lookup)
    {S : Type} (connect : Addr → Except Nat S) (r : Req) :
    r.takeAddrs.2 = r.addr.toList ∧ r.takeAddrs.1.addr = .none ∧ r.takeAddrs.1.addr.wf ∧
    r.takeAddrs.1.effPort = r.effPort ∧ r.takeAddrs.1.hostname = r.hostname ∧
    dial connect r.takeAddrs.1.addr = some { result := .error .unresolved, tried := [] } ∧
    (parseIp r.hostname = none →
      (resolve parseIp lookup r.takeAddrs.1).lookups = [(r.hostname, r.effPort)]) := by
  refine ⟨rfl, rfl, trivial, rfl, rfl, rfl, ?_⟩
  intro hn
  have ha : r.takeAddrs.1.addr = .none := rfl
  have hn' : parseIp r.takeAddrs.1.hostname = none := hn
  cases hl : lookup r.takeAddrs.1.hostname r.takeAddrs.1.effPort with
  | fail => exact (resolver_error parseIp lookup r.takeAddrs.1 ha hn' hl).2
  | ok l =>
    cases l with
    | nil => exact (no_records parseIp lookup r.takeAddrs.1 ha hn' hl).2
    | cons x t =>
      obtain ⟨_, _, _, _, _, _, _, h⟩ := resolver_answer_used parseIp lookup r.takeAddrs.1 (x :: t) ha hn' hl (by simp)
      exact h

/-! ### `set_addrs` normalisation, `port()` precedence, host parsing -/

/-- `set_addrs` keeps the addresses and their order; 0 ⇒ `None`, 1 ⇒ `One`, ≥ 2 ⇒ `Multi` -/
theorem set_addrs_normalises (r : Req) (l : List Addr) :
    (r.setAddrs l).addr.toList = l ∧ (r.setAddrs l).addr.wf ∧
    ((r.setAddrs l).addr = .none ↔ l = []) := by
  refine ⟨setAddrs_toList r l, setAddrs_wf r l, ?_⟩
  rw [← unresolved_iff_none]; exact setAddrs_unresolved_iff r l

/-- `port()`: the request's own port if it has one, else the `port` field (set by `new` to 0 or by
`set_port`) -/
theorem port_precedence (r : Req) :
    (∀ p, r.host.port = some p → r.effPort = p) ∧ (r.host.port = none → r.effPort = r.port) := by
  constructor
  · intro p hp; simp [Req.effPort, hp]
  · intro hp; simp [Req.effPort, hp]

/-- a host string without `:` is all hostname and has no port -/
theorem host_no_colon (cs : List Char) (h : ':' ∉ cs) :
    hostOfChars cs = { hostname := String.ofList cs, port := none } := by
  simp [hostOfChars, splitOnce_none cs h]

/-- `hostname:rest` splits at the **first** colon; the port is `rest.parse::<u16>().ok()` -/
theorem host_with_port (hn rest : List Char) (h : ':' ∉ hn) :
    hostOfChars (hn ++ ':' :: rest) = { hostname := String.ofList hn, port := parseU16 rest } := by
  simp [hostOfChars, splitOnce_append hn rest h]

/-! ### `http::Uri` requests (feature `uri`) -/

/-- T1: the scheme → port table of connect/uri.rs, re-translated arm by arm from the source by every
check run, is the reference table of well-known ports (in particular `ws` 80 / `wss` 443, `http` 80 /
`https` 443, `amqp` 5672 / `amqps` 5671, `mqtt` 1883 / `mqtts` 8883), and both `Host` impls (http 0.2,
http 1) take the explicit port first and the host or `""` as hostname -/
theorem uri_scheme_table :
    (∀ sch, schemePort Src.tlsSchemePorts sch = schemePort wellKnownPorts sch) ∧
    Src.tlsSchemePorts = wellKnownPorts ∧ Src.tlsUriShape.all (·.2) = true ∧ Src.tlsUriShape.length = 5 := by
  have h : Src.tlsSchemePorts = wellKnownPorts := by decide
  exact ⟨fun sch => by rw [h], h, by decide, by decide⟩

/-- an explicit port in the URI always wins over the scheme's well-known port, whatever the table -/
theorem uri_explicit_port_wins (table : List (String × Nat)) (sch host : Option String) (p : Nat) :
    (hostOfUri table { scheme := sch, host := host, port := some p }).port = some p := rfl

/-- without an explicit port the scheme decides; a scheme that is not listed (or no scheme) gives no
port, and then — as for every `Host` without a port — the `set_port` value of the request counts -/
theorem uri_default_port (table : List (String × Nat)) (sch host : Option String) :
    (hostOfUri table { scheme := sch, host := host, port := none }).port = schemePort table sch ∧
    (schemePort table sch = none → ∀ r : Req, r.host = hostOfUri table { scheme := sch, host := host, port := none } →
      r.effPort = r.port) := by
  refine ⟨rfl, ?_⟩
  intro hn r hr
  simp [Req.effPort, hr, hostOfUri, hn]

/-- end to end for a `wss://name/` request through the connector: the resolver is asked for
`(name, 443)`, and `wss://<ip literal>/` is dialled at `:443` — with the source's table -/
theorem uri_wss_goes_to_443 (parseIp : String → Option String) (lookup : String → Nat → Lookup) (name : String) :
    let r := Req.new (hostOfUri Src.tlsSchemePorts { scheme := some "wss", host := some name, port := none })
    r.effPort = 443 ∧
    (parseIp name = none → (resolve parseIp lookup r).lookups = [(name, 443)]) ∧
    (∀ ip, parseIp name = some ip → (resolve parseIp lookup r).result = .ok { r with addr := .one { ip := ip, port := 443 } }) := by
  intro r
  have hs : schemePort Src.tlsSchemePorts (some "wss") = some 443 := by decide
  have hp : r.effPort = 443 := by simp [r, Req.new, Req.effPort, hostOfUri, hs]
  have ha : r.addr = .none := rfl
  have hh : r.hostname = name := rfl
  refine ⟨hp, ?_, ?_⟩
  · intro hn
    have hn' : parseIp r.hostname = none := by rw [hh]; exact hn
    cases hl : lookup r.hostname r.effPort with
    | fail => have := (resolver_error parseIp lookup r ha hn' hl).2; rw [this, hh, hp]
    | ok l =>
      cases l with
      | nil => have := (no_records parseIp lookup r ha hn' hl).2; rw [this, hh, hp]
      | cons x t =>
        obtain ⟨_, _, _, _, _, _, _, h⟩ := resolver_answer_used parseIp lookup r (x :: t) ha hn' hl (by simp)
        rw [h, hh, hp]
  · intro ip hi
    have := (ip_literal_direct parseIp lookup r ip ha (by rw [hh]; exact hi)).1
    rw [this, hp]

/-! ### TCP connector: ordered fallback -/

/-- unresolved input to the TCP connector is `Unresolved`, and nothing is dialled -/
theorem unresolved_to_tcp {S : Type} (connect : Addr → Except Nat S) :
    dial connect .none = some { result := .error .unresolved, tried := [] } := rfl

/-- address sets built through the public API never hit the `unwrap` in `TcpConnectorFut::new` -/
theorem dial_never_panics {S : Type} (connect : Addr → Except Nat S) (a : Addrs) (hwf : a.wf) :
    dial connect a ≠ none := by
  cases a with
  | none => simp [dial]
  | one x => simp [dial]
  | multi l =>
    cases l with
    | nil => simp [Addrs.wf] at hwf
    | cons x t => simp [dial]

/-- the connector returns the connection to the first address, in order, whose connect succeeds, and
has tried exactly the addresses before it (all of which failed) and that one -/
theorem dial_first_success {S : Type} (connect : Addr → Except Nat S) (a : Addrs) (hwf : a.wf)
    (pre post : List Addr) (x : Addr) (s : S)
    (hl : a.toList = pre ++ x :: post) (hpre : ∀ b ∈ pre, Fails connect b) (hx : connect x = .ok s) :
    dial connect a = some { result := .ok s, tried := pre ++ [x] } := by
  cases hcr : pre ++ x :: post with
  | nil => simp at hcr
  | cons cur rest =>
    rw [hcr] at hl
    rw [dial_eq_loop connect a cur rest hl hwf, dialLoop_first_ok connect pre cur rest x post s hcr.symm hpre hx]
    rfl

/-- conversely: a successful result is always that first connectable address -/
theorem dial_success_is_first {S : Type} (connect : Addr → Except Nat S) (a : Addrs) (hwf : a.wf)
    (d : Dialed S) (s : S) (hd : dial connect a = some d) (hs : d.result = .ok s) :
    ∃ pre x post, a.toList = pre ++ x :: post ∧ (∀ b ∈ pre, Fails connect b) ∧ connect x = .ok s ∧
      d.tried = pre ++ [x] := by
  rcases first_ok_or_all_fail connect a.toList with hall | ⟨pre, x, post, s', hl, hpre, hx⟩
  · cases hal : a.toList with
    | nil =>
      cases a with
      | none => simp [dial] at hd; subst hd; simp at hs
      | one y => simp [Addrs.toList] at hal
      | multi l => simp [Addrs.toList] at hal; subst hal; simp [Addrs.wf] at hwf
    | cons cur rest =>
      rw [hal] at hall
      obtain ⟨e, _, hloop⟩ := dialLoop_all_fail connect rest cur hall
      rw [dial_eq_loop connect a cur rest hal hwf, hloop] at hd
      simp at hd; subst hd; simp [liftIo] at hs
  · have := dial_first_success connect a hwf pre post x s' hl hpre hx
    rw [this] at hd
    simp at hd; subst hd
    simp at hs; subst hs
    exact ⟨pre, x, post, hl, hpre, hx, rfl⟩

/-- if every address fails, the error is the **last** address's I/O error and all were tried in order -/
theorem dial_all_fail_last_error {S : Type} (connect : Addr → Except Nat S) (a : Addrs) (hwf : a.wf)
    (hne : a.toList ≠ []) (hall : ∀ b ∈ a.toList, Fails connect b) :
    ∃ last e, a.toList.getLast? = some last ∧ connect last = .error e ∧
      dial connect a = some { result := .error (.io e), tried := a.toList } := by
  cases hal : a.toList with
  | nil => exact absurd hal hne
  | cons cur rest =>
    rw [hal] at hall
    obtain ⟨e, hlast, hloop⟩ := dialLoop_all_fail connect rest cur hall
    refine ⟨(cur :: rest).getLast (by simp), e, ?_, hlast, ?_⟩
    · exact List.getLast?_eq_some_getLast _
    · rw [dial_eq_loop connect a cur rest hal hwf, hloop]; rfl

/-! ### Connector service = resolver, then TCP connector -/

/-- pre-set addresses: the whole connector makes no resolver call and dials exactly those addresses -/
theorem connector_preset (parseIp : String → Option String) (lookup : String → Nat → Lookup)
    {S : Type} (connect : Option String → Addr → Except Nat S) (r : Req) (h : r.addr ≠ .none) (hwf : r.addr.wf) :
    ∃ d, dial (connect r.localAddr) r.addr = some d ∧
      connectFull parseIp lookup connect r = some { result := d.result, lookups := [], tried := d.tried } := by
  have ⟨h1, h2⟩ := preset_never_resolved parseIp lookup r h
  cases hd : dial (connect r.localAddr) r.addr with
  | none => exact absurd hd (dial_never_panics _ _ hwf)
  | some d => exact ⟨d, rfl, by simp [connectFull, h1, h2, hd]⟩

/-- the combined connector never panics and never answers `Unresolved` (that error is reserved for
unresolved input handed directly to the TCP connector) -/
theorem connector_total (parseIp : String → Option String) (lookup : String → Nat → Lookup)
    {S : Type} (connect : Option String → Addr → Except Nat S) (r : Req) (hwf : r.addr.wf) :
    ∃ c, connectFull parseIp lookup connect r = some c ∧ c.result ≠ .error .unresolved := by
  cases hr : (resolve parseIp lookup r).result with
  | error e =>
    simp only [connectFull, hr]
    refine ⟨_, rfl, ?_⟩
    simp only [ne_eq]
    intro he
    have : e = .unresolved := by injection he
    subst this
    unfold resolve at hr
    split at hr
    · simp at hr
    · split at hr
      · simp at hr
      · split at hr
        · simp at hr
        · split at hr <;> simp at hr
  | ok r' =>
    have ⟨hne, hwf'⟩ := resolve_ok_resolved parseIp lookup r r' hwf hr
    cases hd : dial (connect r'.localAddr) r'.addr with
    | none => exact absurd hd (dial_never_panics _ _ hwf')
    | some d =>
      simp only [connectFull, hr, hd]
      refine ⟨_, rfl, ?_⟩
      simp only
      cases hal : r'.addr.toList with
      | nil =>
        cases hra : r'.addr with
        | none => exact absurd hra hne
        | one y => simp [hra, Addrs.toList] at hal
        | multi l => simp [hra, Addrs.toList] at hal; subst hal; simp [hra, Addrs.wf] at hwf'
      | cons cur rest =>
        rw [dial_eq_loop _ r'.addr cur rest hal hwf'] at hd
        simp at hd; subst hd
        simp only [ne_eq]
        cases (dialLoop (connect r'.localAddr) cur rest).1 <;> simp [liftIo]

/-! ### Construction paths: the configured resolver / TLS configuration reaches the service -/

/-- whichever way a service is obtained from a factory (`service()`, `ServiceFactory::new_service`, with
clones of the factory or of the service in between, or built directly), it carries the configuration
the factory was given; the `Default` paths carry the default configuration -/
theorem construction_path_keeps_config {κ : Type} (dflt k : κ) (p : Path) :
    (p.build dflt k).cfg = if p.isDefault then dflt else k := by
  cases p <;> rfl

/-- hence a connector service built along any non-default path consults exactly the configured
resolver: it behaves as `connectFull` with that resolver (one look-up with `(hostname, port())` for an
unresolved non-literal host, `NoRecords` / `Resolver` for an empty / failing answer, none otherwise) -/
theorem factory_built_connector_uses_configured_resolver {S : Type} (parseIp : String → Option String)
    (dflt lookup : String → Nat → Lookup) (connect : Option String → Addr → Except Nat S) (r : Req)
    (p : Path) (hp : p.isDefault = false) :
    connectFull parseIp (p.build dflt lookup).cfg connect r = connectFull parseIp lookup connect r ∧
    resolve parseIp (p.build dflt lookup).cfg r = resolve parseIp lookup r := by
  have := construction_path_keeps_config dflt lookup p
  simp only [hp] at this
  simp [this]

/-- T1: the factories' source has the shape the `Factory` model is written from, for the connector,
the resolver, the TCP connector and **all six** TLS connector flavours (also those the harness does
not compile).  Regenerated from the source text by every check run (`tools/spans/tls.py`). -/
theorem source_shape :
    (Src.tlsConnectorShape ++ Src.tlsResolverShape ++ Src.tlsTcpConnectorShape ++ Src.tlsConnShapeRustls020 ++
      Src.tlsConnShapeRustls021 ++ Src.tlsConnShapeRustls022 ++ Src.tlsConnShapeRustls023 ++
      Src.tlsConnShapeOpenssl ++ Src.tlsConnShapeNativeTls ++ Src.tlsConnectionShape).all (·.2) = true ∧
    (Src.tlsConnectorShape.map (·.1)).contains "new_service_is_service" = true := by decide

/-! ### TLS connector step -/

/-- the name handed to the TLS library for verification is the request's hostname; the connector
succeeds only if the library accepts the name syntactically **and** verifies the peer's certificate
for exactly that hostname; a name the library rejects gives `InvalidInput` without any handshake -/
theorem tls_name_is_hostname {Cert : Type} (validName : String → Bool) (verify : Cert → String → Bool)
    (h : Host) (cert : Cert) :
    (∀ n, (tlsConnect validName verify h cert).handshakeName = some n → n = h.hostname) ∧
    (∀ n, tlsConnect validName verify h cert = .established n →
        n = h.hostname ∧ validName h.hostname = true ∧ verify cert h.hostname = true) ∧
    (validName h.hostname = false ↔ tlsConnect validName verify h cert = .invalidInput) ∧
    (validName h.hostname = true → verify cert h.hostname = false →
        tlsConnect validName verify h cert = .handshakeError h.hostname) := by
  by_cases hv : validName h.hostname = true <;> by_cases hc : verify cert h.hostname = true <;>
    simp [tlsConnect, hv, hc, TlsOutcome.handshakeName, eq_comm]

/-- One service instance, many calls: whatever was asked before (and after), the call for request `h`
against certificate `cert` is judged for `h`'s own hostname — it succeeds only if the library verifies
`cert` for exactly that name (so a request for a name the certificate does not cover fails even right
after a successful call for a covered name), and a name the library rejects is `InvalidInput` every
time. -/
theorem tls_calls_are_independent {Cert : Type} (validName : String → Bool) (verify : Cert → String → Bool)
    (pre post : List (Host × Cert)) (h : Host) (cert : Cert) :
    (tlsConnectMany validName verify (pre ++ (h, cert) :: post))[pre.length]? = some (tlsConnect validName verify h cert) ∧
    (∀ n, tlsConnect validName verify h cert = .established n → n = h.hostname ∧ verify cert h.hostname = true) ∧
    (validName h.hostname = false → tlsConnect validName verify h cert = .invalidInput) := by
  refine ⟨by simp [tlsConnectMany], ?_, ?_⟩
  · intro n hn
    have := (tls_name_is_hostname validName verify h cert).2.1 n hn
    exact ⟨this.1, this.2.2⟩
  · intro hv
    exact (tls_name_is_hostname validName verify h cert).2.2.1.mp hv

/-! ### Non-vacuity: the hypotheses are satisfiable by non-trivial requests -/

private def a1 : Addr := { ip := "127.0.0.1", port := 4001 }
private def a2 : Addr := { ip := "127.0.0.1", port := 4002 }
private def a3 : Addr := { ip := "::1", port := 4003 }
/-- `a1` refuses (111), `a2` is unreachable (101), `a3` accepts -/
private def conn1 (a : Addr) : Except Nat Nat := if a = a1 then .error 111 else if a = a2 then .error 101 else .ok a.port
private def pIp (s : String) : Option String := if isIpv4 s.toList then some s else none
private def lk (h : String) (p : Nat) : Lookup :=
  if h = "two.test" then .ok [{ ip := "127.0.0.1", port := p }, { ip := "::1", port := p }]
  else if h = "empty.test" then .ok [] else .fail

example : (resolve pIp lk ((Req.new (hostOfString "x.test:1")).setAddrs [a1, a2])).lookups = [] := by decide
example : (resolve pIp lk (Req.new (hostOfString "127.0.0.1:8080"))).result
    = .ok { host := hostOfString "127.0.0.1:8080", port := 8080, addr := .one { ip := "127.0.0.1", port := 8080 } } := by rfl
example : (resolve pIp lk ((Req.new (hostOfString "10.1.2.3")).setPort 77)).result
    = .ok { host := hostOfString "10.1.2.3", port := 77, addr := .one { ip := "10.1.2.3", port := 77 } } := by rfl
example : ((resolve pIp lk (Req.new (hostOfString "two.test:443"))).result.toOption.map (·.addr.toList))
    = some [{ ip := "127.0.0.1", port := 443 }, { ip := "::1", port := 443 }] := by decide
example : (resolve pIp lk (Req.new (hostOfString "empty.test:443"))).lookups = [("empty.test", 443)] := by decide
example : (resolve pIp lk (Req.new (hostOfString "nx.test"))).lookups = [("nx.test", 0)] := by decide
example : (((Req.new (hostOfString "x.test:1")).setAddrs [a1, a2]).takeAddrs.2 = [a1, a2]) ∧
    (resolve pIp lk ((Req.new (hostOfString "two.test:7")).setAddrs [a1, a2]).takeAddrs.1).lookups = [("two.test", 7)] := by decide
example : hostOfString "example.com:false:false" = { hostname := "example.com", port := none } := by decide
example : (dial conn1 (.multi [a1, a2, a3, a1])).map (·.tried) = some [a1, a2, a3] := by decide
example : (dial conn1 (.multi [a1, a2])).map (·.result) = some (.error (.io 101)) := by rfl
example : (dial conn1 (.multi [a2, a1])).map (·.result) = some (.error (.io 111)) := by rfl
example : Fails conn1 a1 ∧ Fails conn1 a2 ∧ conn1 a3 = .ok 4003 := ⟨⟨111, by rfl⟩, ⟨101, by rfl⟩, by rfl⟩
/-- the factory path with a custom resolver: the look-up goes to the configured resolver `lk`, not to the default -/
example : (resolve pIp (Path.build (fun _ _ => Lookup.fail) Path.cf lk).cfg (Req.new (hostOfString "two.test:443"))).lookups = [("two.test", 443)] := by decide
example : (resolve pIp (Path.build (fun _ _ => Lookup.fail) Path.cf lk).cfg (Req.new (hostOfString "empty.test:1"))).lookups = [("empty.test", 1)] := by decide
example : Path.cf.isDefault = false ∧ Path.df.isDefault = true := by decide
example : (hostOfUri Src.tlsSchemePorts { scheme := some "wss", host := some "a.test", port := none }) = { hostname := "a.test", port := some 443 } := by decide
example : (hostOfUri Src.tlsSchemePorts { scheme := some "ws", host := some "a.test", port := some 8080 }).port = some 8080 := by decide
example : (hostOfUri Src.tlsSchemePorts { scheme := some "gopher", host := some "a.test", port := none }).port = none := by decide
example : (resolve pIp lk (Req.new (hostOfUri Src.tlsSchemePorts { scheme := some "mqtts", host := some "two.test", port := none }))).lookups = [("two.test", 8883)] := by decide
example : tlsConnect (fun n => n != "") (fun (c : List String) n => c.contains n) (hostOfString "a.test:443") ["a.test"]
    = .established "a.test" := by decide
example : tlsConnect (fun n => n != "") (fun (c : List String) n => c.contains n) (hostOfString "b.test:443") ["a.test"]
    = .handshakeError "b.test" := by decide
example : tlsConnect (fun n => n != "") (fun (c : List String) n => c.contains n) (hostOfString ":443") ["a.test"]
    = .invalidInput := by decide
/-- the connector hands over `localhost..` as it is: rustls' name syntax rejects it (`InvalidInput`), a library that
takes any name finds no certificate for `localhost` covering it -/
example : tlsConnect validDnsName (fun (c : List String) n => covers (fun _ => false) (certNamesFor "r" c) (verifiedName "r" n))
    (hostOfString "localhost..") ["localhost"] = .invalidInput := by decide
example : tlsConnect (fun _ => true) (fun (c : List String) n => covers (fun _ => false) (certNamesFor "o" c) (verifiedName "o" n))
    (hostOfString "localhost.") ["localhost"] = .handshakeError "localhost." := by decide
example : tlsConnect validDnsName (fun (c : List String) n => covers (fun _ => false) (certNamesFor "r" c) (verifiedName "r" n))
    (hostOfString "localhost.") ["localhost"] = .established "localhost." := by decide
/-- covered, then not covered, then invalid, then covered again — on one service -/
example : tlsConnectMany (fun n => n != "") (fun (c : List String) n => c.contains n)
    [(hostOfString "a.test:443", ["a.test"]), (hostOfString "b.test", ["a.test"]), (hostOfString ":1", ["a.test"]), (hostOfString "a.test", ["a.test"])]
    = [.established "a.test", .handshakeError "b.test", .invalidInput, .established "a.test"] := by decide

end ActixNet.C19
