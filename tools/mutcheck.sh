#!/bin/sh
# tools/mutcheck.sh <patch.diff> <Cxx> [tier]   — run ./check Cxx against a MUTATED copy of /repo without
# touching /repo or /verif: a scratch clone of /repo gets the patch, a scratch copy of /verif gets its
# harness path-deps pointed at that clone.  (The official way — git -C /repo apply; ./check; git checkout —
# is equivalent but disturbs concurrent builds.)  Prints the check's output; removes the scratch copies.
set -e
PATCH=$(readlink -f "$1"); PROP=$2; TIER=${3:-quick}
NAME=$(basename "$(dirname "$PATCH")")-$(basename "$PATCH" .diff)-$PROP-$$
W=/tmp/vm/$NAME
mkdir -p /tmp/vm
rm -rf "$W"; mkdir -p "$W"
git -C /repo worktree add --detach "$W/repo" HEAD >/dev/null 2>&1
git -C "$W/repo" apply "$PATCH"
rsync -a --exclude '.build' --exclude 'replays' /verif/ "$W/verif/" || true
sed -i "s|/repo/|$W/repo/|g" "$W/verif/harness/Cargo.toml"
rm -f "$W/verif/harness/Cargo.lock"
# reuse the compiled dependencies of the main target dir (hard links, no extra space, rebuilds only the path crates)
mkdir -p "$W/verif/.build"
cp -al /verif/.build/target "$W/verif/.build/target" 2>/dev/null || true
cp -al /verif/.build/target-ndebug "$W/verif/.build/target-ndebug" 2>/dev/null || true
cd "$W/verif"
set +e
VERIF_REPO="$W/repo" python3 tools/check.py "$PROP" --tier "$TIER" > "$W/check.out" 2>&1
RC=$?
tail -25 "$W/check.out"
mkdir -p /verif/.build/mutcheck
cp -r "$W/verif/replays" "/verif/.build/mutcheck/$NAME-replays" 2>/dev/null
cp "$W/verif/evidence/$PROP.json" "/verif/.build/mutcheck/$NAME-evidence.json" 2>/dev/null
cd /
git -C /repo worktree remove --force "$W/repo" >/dev/null 2>&1
rm -rf "$W"
exit $RC
