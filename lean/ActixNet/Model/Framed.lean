import ActixNet.Generated.Src
import ActixNet.Model.Lines
/-!
# Model: `Framed` (actix-codec/src/framed.rs)

Read side (`next_item` / `Stream::poll_next`, framed.rs:177–233) over an abstract codec and a
scripted transport; write side (`write`/`start_send`, `flush`/`poll_flush`, `close`/`poll_close`,
`poll_ready`, framed.rs:161–175, 237–321) over a scripted *buffering* transport (what `poll_write`
accepted is staged and reaches the wire when the transport's `poll_flush`/`poll_shutdown` completes).

The codec is a parameter of the poll functions, not part of the state: a codec swap
(`into_map_codec`, `replace_codec`, `into_parts` + `from_parts`, which carry flags and both buffers
over) is polling on with another codec from the same state; `into_map_io` changes nothing.
`Framed::from_parts` of `FramedParts::new` / `with_read_buf` is a state with `room = 0` / a
pre-filled `buf`, flags clear.

The water marks and the comparisons on them are **not** written here: they are the T1 kernels
`Src.framedLW`, `Src.framedHW`, `Src.framedRdNeedReserve`, … regenerated from framed.rs by
tools/extract.py on every run.

Bytes are `Nat` (< 256 by construction in the driver).  Error kinds are `Src.ErrorKind`.
-/
namespace ActixNet.Framed
open ActixNet.Src

abbrev Bytes := List Nat

/-! ## Codecs -/

/-- result of `Decoder::decode` / `decode_eof` on a buffer: `Ok(None)` (buffer untouched),
`Ok(Some(frame))` or `Err(kind)`, the last two with the buffer that is left -/
inductive Dec (F : Type) where
  | need
  | frame (f : F) (rest : Bytes)
  | err (k : ErrorKind) (rest : Bytes)
deriving Repr, DecidableEq

structure Codec (F : Type) where
  decode : Bytes → Dec F
  decodeEof : Bytes → Dec F

/-- tokio-util's default `Decoder::decode_eof` -/
def defaultEof {F} (decode : Bytes → Dec F) (b : Bytes) : Dec F :=
  match decode b with
  | .frame f r => .frame f r
  | .err k r => .err k r
  | .need => if b.isEmpty then .need else .err .Other b   -- "bytes remaining on stream"

/-- `LinesCodec` (Model/Lines.lean) -/
def linesCodec : Codec Bytes where
  decode b := match Lines.decode b with
    | (.none, _) => .need
    | (.ok s, r) => .frame s r
    | (.err, r) => .err .InvalidData r
  decodeEof b := match Lines.decodeEof b with
    | (.none, _) => .need
    | (.ok s, r) => .frame s r
    | (.err, r) => .err .InvalidData r

/-- `BytesCodec::decode` (bcodec.rs:25–31): everything that is buffered, if anything -/
def bytesDecode (b : Bytes) : Dec Bytes := if b.isEmpty then .need else .frame b []

def bytesCodec : Codec Bytes := ⟨bytesDecode, defaultEof bytesDecode⟩

/-- the length-prefixed test codec of the harness (`LenCodec` in harness/src/bin/codec.rs): one
length byte `n`, then `n` payload bytes; the length byte 255 is a protocol error (`InvalidInput`,
the byte is consumed); `decode_eof` is tokio-util's default -/
def lenDecode : Bytes → Dec Bytes
  | [] => .need
  | n :: t =>
    if n = 255 then .err .InvalidInput t
    else if t.length < n then .need
    else .frame (t.take n) (t.drop n)

def lenCodec : Codec Bytes := ⟨lenDecode, defaultEof lenDecode⟩

/-- end of stream of the second length-prefixed test codec (`LenXCodec` in the harness), which has
SEVERAL end-of-stream frames: what `decode` yields first; then a truncated frame comes out as one
`T`-frame (`84 :: leftover`, everything consumed); then, on the empty buffer, one `E`-frame (`[69]`)
— the codec remembers that it has emitted it by leaving the mark `254` in the buffer (a `Decoder`
owns `&mut BytesMut`), on which `decode_eof` answers `None` for good -/
def lenxEof (b : Bytes) : Dec Bytes :=
  match lenDecode b with
  | .frame f r => .frame f r
  | .err k r => .err k r
  | .need => if b.isEmpty then .frame [69] [254] else if b = [254] then .need else .frame (84 :: b) []

def lenxCodec : Codec Bytes := ⟨lenDecode, lenxEof⟩

/-! ## Read side -/

/-- what the scripted transport answers to one `poll_read` -/
inductive Rd where
  | data (bs : Bytes)         -- `Ready(Ok(()))` after filling in (a prefix of) `bs`; `data []` is EOF
  | pending                   -- `Pending`
  | ioErr (k : ErrorKind)     -- `Ready(Err(k))`
  | eof                       -- `Ready(Ok(()))` with nothing filled in
deriving Repr

/-- result of one `poll_next` -/
inductive Out (F : Type) where
  | item (f : F)              -- `Ready(Some(Ok(f)))`
  | decErr (k : ErrorKind)    -- `Ready(Some(Err(e)))`, `e` from the codec
  | ioErr (k : ErrorKind)     -- `Ready(Some(Err(e)))`, `e` from the transport
  | pending                   -- `Pending`
  | none                      -- `Ready(None)`
  | spin                      -- the loop did not return (fuel exhausted): proved unreachable
deriving Repr, DecidableEq

structure RState where
  eof : Bool := false               -- `Flags::EOF`
  readable : Bool := false          -- `Flags::READABLE`
  buf : Bytes := []                 -- `read_buf`
  room : Nat := framedHW            -- lower bound of `read_buf.capacity() - read_buf.len()`
  script : List Rd := []            -- what the transport will answer; exhausted = EOF
  nDecode : Nat := 0                -- calls of `decode` so far (observed through a counting codec)
  nDecodeEof : Nat := 0             -- calls of `decode_eof`
  nRead : Nat := 0                  -- calls of `poll_read`

/-- `Framed::new`: `BytesMut::with_capacity(HW)` -/
def rinit (script : List Rd) : RState := { script := script }

/-- first half of the loop body (framed.rs:192–213): returns, or falls through to the read -/
def decodePhase {F} (c : Codec F) (s : RState) : (Out F × RState) ⊕ RState :=
  if s.readable then
    if s.eof then
      match c.decodeEof s.buf with
      | .frame f r => .inl (.item f, { s with buf := r, nDecodeEof := s.nDecodeEof + 1 })
      | .need => .inl (.none, { s with nDecodeEof := s.nDecodeEof + 1 })
      | .err k r => .inl (.decErr k, { s with buf := r, nDecodeEof := s.nDecodeEof + 1 })
    else
      match c.decode s.buf with
      | .frame f r => .inl (.item f, { s with buf := r, nDecode := s.nDecode + 1 })
      | .err k r => .inl (.decErr k, { s with buf := r, nDecode := s.nDecode + 1 })
      | .need => .inr { s with readable := false, nDecode := s.nDecode + 1 }  -- `flags.remove(READABLE)`
  else .inr s

/-- room after `if remaining < LW { read_buf.reserve(HW - remaining) }` (framed.rs:218–221);
`reserve(n)` guarantees `capacity - len ≥ n` -/
def readRoom (remaining : Nat) : Nat :=
  if framedRdNeedReserve remaining then max remaining (framedRdReserveArg remaining) else remaining

/-- second half of the loop body (framed.rs:215–232): one `poll_read_buf` -/
def readPhase {F} (s : RState) : (Out F × RState) ⊕ RState :=
  let room := readRoom s.room
  let s := { s with room := room, nRead := s.nRead + 1 }
  match s.script with
  | [] =>                       -- script exhausted: `cnt = 0`
    .inr { s with eof := s.eof || framedReadEof 0, readable := true }
  | .eof :: t =>
    .inr { s with script := t, eof := s.eof || framedReadEof 0, readable := true }
  | .pending :: t => .inl (.pending, { s with script := t })
  | .ioErr k :: t => .inl (.ioErr k, { s with script := t })
  | .data bs :: t =>
    let cnt := min bs.length room      -- the transport fills in what fits
    { s with
        buf := s.buf ++ bs.take cnt
        room := room - cnt
        script := if cnt < bs.length then .data (bs.drop cnt) :: t else t
        eof := s.eof || framedReadEof cnt
        readable := true } |> .inr

/-- `Framed::next_item`: the `loop` with fuel; `spin` when the fuel runs out -/
def nextItem {F} (c : Codec F) : Nat → RState → Out F × RState
  | 0, s => (.spin, s)
  | fuel + 1, s =>
    match decodePhase c s with
    | .inl r => r
    | .inr s1 =>
      match readPhase s1 with
      | .inl r => r
      | .inr s2 => nextItem c fuel s2

/-- size of a transport script: every loop iteration that does not return makes it smaller -/
def scriptSize : List Rd → Nat
  | [] => 0
  | .data bs :: t => bs.length + 1 + scriptSize t
  | _ :: t => 1 + scriptSize t

/-- `Stream::poll_next` with enough fuel for the loop (see `C13.poll_never_spins`) -/
def pollNext {F} (c : Codec F) (s : RState) : Out F × RState :=
  nextItem c (scriptSize s.script + 3) s

/-- `n` consecutive polls -/
def pollN {F} (c : Codec F) : Nat → RState → List (Out F) × RState
  | 0, s => ([], s)
  | n + 1, s =>
    let (o, s1) := pollNext c s
    let (os, s2) := pollN c n s1
    (o :: os, s2)

/-! ## Reference: decoding the whole stream at once -/

/-- call `decode` until it needs more data; fuel `= length + 1` suffices for a codec whose
frames/errors consume input -/
def drain {F} (c : Codec F) : Nat → Bytes → List (Out F) × Bytes
  | 0, b => ([], b)
  | n + 1, b =>
    match c.decode b with
    | .need => ([], b)
    | .frame f r => let (os, r') := drain c n r; (.item f :: os, r')
    | .err k r => let (os, r') := drain c n r; (.decErr k :: os, r')

def drainAll {F} (c : Codec F) (b : Bytes) : List (Out F) × Bytes := drain c (b.length + 1) b

/-- `k` calls of `decode_eof` at end of stream (`None` does not stop a consumer from polling on) -/
def eofDrain {F} (c : Codec F) : Nat → Bytes → List (Out F)
  | 0, _ => []
  | k + 1, b =>
    match c.decodeEof b with
    | .need => .none :: eofDrain c k b
    | .frame f r => .item f :: eofDrain c k r
    | .err e r => .decErr e :: eofDrain c k r

/-- the outputs a consumer of the whole stream `str` sees from a fresh codec: all frames and
decode errors of `str`, then `k` end-of-stream outputs -/
def whole {F} (c : Codec F) (k : Nat) (str : Bytes) : List (Out F) :=
  (drainAll c str).1 ++ eofDrain c k (drainAll c str).2

/-- the byte stream a script delivers: the data chunks before the first end-of-file answer -/
def streamOf : List Rd → Bytes
  | [] => []
  | .data bs :: t => if bs.isEmpty then [] else bs ++ streamOf t
  | .pending :: t => streamOf t
  | .ioErr _ :: t => streamOf t
  | .eof :: _ => []

/-- the `Pending`s and I/O errors a script delivers before the first end-of-file answer -/
def eventsOf {F} : List Rd → List (Out F)
  | [] => []
  | .data bs :: t => if bs.isEmpty then [] else eventsOf t
  | .pending :: t => .pending :: eventsOf t
  | .ioErr k :: t => .ioErr k :: eventsOf t
  | .eof :: _ => []

def Out.isFrame {F} : Out F → Bool
  | .item _ => true
  | .decErr _ => true
  | .none => true
  | _ => false

/-- the frame outputs (items, decode errors, end of stream) among the results of polling -/
def frames {F} (os : List (Out F)) : List (Out F) := os.filter Out.isFrame
/-- the transport outputs (`Pending`, I/O errors) among the results of polling -/
def events {F} (os : List (Out F)) : List (Out F) := os.filter (fun o => !o.isFrame)

/-! ## Write side -/

/-- what the scripted transport answers to one `poll_write` -/
inductive Wr where
  | accept (k : Nat)          -- `Ready(Ok(min k len))`: a partial write (`accept 0` = `zero`)
  | pending                   -- `Pending`
  | zero                      -- `Ready(Ok(0))`
  | err (k : ErrorKind)       -- `Ready(Err(k))`
deriving Repr

/-- what the scripted transport answers to one `poll_flush` / `poll_shutdown` -/
inductive Fl where
  | ok
  | pending
  | err (k : ErrorKind)
deriving Repr

/-- result of a `Sink` method -/
inductive WRes where
  | ok                        -- `Ready(Ok(()))` / `Ok(())`
  | pending                   -- `Pending`
  | err (k : ErrorKind)       -- `Ready(Err(e))` / `Err(e)`
  | spin                      -- the flush loop did not return (fuel exhausted): proved unreachable
deriving Repr, DecidableEq

structure WState where
  wbuf : Bytes := []                -- `write_buf`
  staged : Bytes := []              -- bytes the transport accepted (`poll_write`) and holds until its
                                    -- `poll_flush` (or `poll_shutdown`) completes (a buffering transport)
  written : Bytes := []             -- every byte that reached the wire (flushed by the transport), in order
  accepted : List Bytes := []       -- ghost: encodings of the items `start_send` accepted, in order
  wscript : List Wr := []           -- answers to `poll_write`; exhausted = accept everything
  fscript : List Fl := []           -- answers to `poll_flush`; exhausted = ok
  sscript : List Fl := []           -- answers to `poll_shutdown`; exhausted = ok
  nWrite : Nat := 0                 -- calls of `poll_write`
  nFlush : Nat := 0                 -- calls of `poll_flush`
  nShutdown : Nat := 0              -- calls of `poll_shutdown`
  shut : Bool := false              -- `poll_shutdown` has answered `Ok`

/-- an `Encoder`: the bytes appended to the buffer, or an error (buffer untouched) -/
abbrev Enc (I : Type) := I → Except ErrorKind Bytes

/-- spare capacity after `if remaining < LW { write_buf.reserve(HW - remaining) }` (framed.rs:167–170) -/
def writeRoom (remaining : Nat) : Nat :=
  if framedWrNeedReserve remaining then max remaining (framedWrReserveArg remaining) else remaining

/-- `Framed::write` = `Sink::start_send` (framed.rs:161–174, 310–312) -/
def wsend {I} (enc : Enc I) (item : I) (s : WState) : WRes × WState :=
  match enc item with
  | .error k => (.err k, s)
  | .ok e => (.ok, { s with wbuf := s.wbuf ++ e, accepted := s.accepted ++ [e] })

/-- the transport's `poll_flush`: when it completes, everything staged is on the wire -/
def ioFlush (s : WState) : WRes × WState :=
  match s.fscript with
  | [] => (.ok, { s with written := s.written ++ s.staged, staged := [], nFlush := s.nFlush + 1 })
  | .ok :: t => (.ok, { s with written := s.written ++ s.staged, staged := [], fscript := t, nFlush := s.nFlush + 1 })
  | .pending :: t => (.pending, { s with fscript := t, nFlush := s.nFlush + 1 })
  | .err k :: t => (.err k, { s with fscript := t, nFlush := s.nFlush + 1 })

/-- the transport's `poll_shutdown` ("invocation of a shutdown implies an invocation of flush":
when it completes, everything staged is on the wire) -/
def ioShutdown (s : WState) : WRes × WState :=
  match s.sscript with
  | [] => (.ok, { s with written := s.written ++ s.staged, staged := [], nShutdown := s.nShutdown + 1, shut := true })
  | .ok :: t => (.ok, { s with written := s.written ++ s.staged, staged := [], sscript := t, nShutdown := s.nShutdown + 1, shut := true })
  | .pending :: t => (.pending, { s with sscript := t, nShutdown := s.nShutdown + 1 })
  | .err k :: t => (.err k, { s with sscript := t, nShutdown := s.nShutdown + 1 })

/-- one `poll_write` of the whole buffer answered with `n` bytes accepted (framed.rs:248–259) -/
def wrote (s : WState) (t : List Wr) (n : Nat) : WState :=
  { s with staged := s.staged ++ s.wbuf.take n, wbuf := s.wbuf.drop n, wscript := t,
           nWrite := s.nWrite + 1 }

/-- `Framed::flush` (framed.rs:237–267): the `while !write_buf.is_empty()` loop with fuel, then the
transport's `poll_flush` -/
def wflushLoop : Nat → WState → WRes × WState
  | 0, s => (.spin, s)
  | fuel + 1, s =>
    if s.wbuf.isEmpty then ioFlush s
    else
      match s.wscript with
      | [] => wflushLoop fuel (wrote s [] s.wbuf.length)
      | .accept k :: t =>
        let n := min k s.wbuf.length
        if framedWriteZero n then (.err .WriteZero, { s with wscript := t, nWrite := s.nWrite + 1 })
        else wflushLoop fuel (wrote s t n)
      | .zero :: t =>
        if framedWriteZero 0 then (.err .WriteZero, { s with wscript := t, nWrite := s.nWrite + 1 })
        else wflushLoop fuel (wrote s t 0)
      | .pending :: t => (.pending, { s with wscript := t, nWrite := s.nWrite + 1 })
      | .err k :: t => (.err k, { s with wscript := t, nWrite := s.nWrite + 1 })

/-- `Framed::flush` = `Sink::poll_flush` with enough fuel (see `C14.flush_never_spins`) -/
def wflush (s : WState) : WRes × WState := wflushLoop (s.wscript.length + 2) s

/-- `Sink::poll_ready` (framed.rs:302–308) -/
def wready (s : WState) : WRes × WState :=
  if framedWriteReady s.wbuf.length then (.ok, s) else wflush s

/-- `Framed::close` = `Sink::poll_close` ("flush write buffer and shutdown underlying I/O stream"):
flush the buffer (and the transport), then shut the transport down.  (Before the fix of finding F4,
/verif/fixes/C14-close-flush.patch, the tree flushed only the transport.) -/
def wclose (s : WState) : WRes × WState :=
  match wflush s with
  | (.ok, s1) => ioShutdown s1
  | r => r

/-- the four `Sink` methods -/
inductive WOp (I : Type) where
  | send (item : I)
  | ready
  | flush
  | close
deriving Repr

def wstep {I} (enc : Enc I) (s : WState) : WOp I → WRes × WState
  | .send item => wsend enc item s
  | .ready => wready s
  | .flush => wflush s
  | .close => wclose s

/-- any interleaving of the four methods; results are collected -/
def wrun {I} (enc : Enc I) : WState → List (WOp I) → List WRes × WState
  | s, [] => ([], s)
  | s, op :: ops =>
    let (r, s1) := wstep enc s op
    let (rs, s2) := wrun enc s1 ops
    (r :: rs, s2)

/-- encoders of the three codecs (`LinesCodec` takes a `str`: the harness adapter answers
`InvalidData` for other bytes; the test codec rejects items longer than 254 bytes) -/
def linesEnc : Enc Bytes := fun item =>
  if Utf8.valid item then .ok (Lines.encode item []) else .error .InvalidData
def bytesEnc : Enc Bytes := fun item => .ok item
def lenEnc : Enc Bytes := fun item =>
  if item.length > 254 then .error .InvalidInput else .ok (item.length :: item)

end ActixNet.Framed
