#!/bin/sh
# tools/harmless.sh: behaviour-preserving rewrites of /repo (harmless/*.diff) must not raise an alarm.
# Each line of harmless/PLAN: <patch-file> <Cxx> ... ; runs the isolated check (tools/mutcheck.sh) and reports rc.
cd /verif; mkdir -p .build/harmless; : > .build/harmless/summary.log
while read -r P PROPS; do
  [ -z "$P" ] && continue
  case "$P" in \#*) continue;; esac
  for C in $PROPS; do
    tools/mutcheck.sh harmless/$P $C > .build/harmless/$P-$C.log 2>&1; R=$?
    echo "$P $C rc=$R $(grep -c '^VIOLATION' .build/harmless/$P-$C.log) violation lines; $(grep -E 'tier=' .build/harmless/$P-$C.log | tail -1 | cut -c1-160)" >> .build/harmless/summary.log
  done
done < harmless/PLAN
cat .build/harmless/summary.log
