fn main() {}
