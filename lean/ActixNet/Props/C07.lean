import ActixNet.Lemmas.Worker
import ActixNet.Lemmas.WorkerSrvBridge
/-!
# C07 — workers call services only when ready; a failed readiness check rebuilds that service

Property theorems only, over `Model/Worker.lean` (`ServerWorker::poll`, `check_readiness`,
`restart_service` of actix-server/src/worker.rs).  `run (init cfg) ops` is the worker after any
history `ops` of the environment (`conn`/`send`/`inc`/`closeChan` by the accept thread, `stop` by
the server, `finish` by a service, `advance` of the clock, `poll fuel` = one call of the real
`poll`) from the state `ServerWorker::start` leaves; `cfg` fixes the number of services and, per
service, an **arbitrary** readiness script over `Pending | Ready | Err` and an arbitrary list of
future incarnations (factory future `Pending^k` then `Ok`/`Err`, each with its own script).
Nothing is bounded: number of services, script lengths, number and order of arrivals, history length.
-/
namespace ActixNet.C07
open ActixNet ActixNet.Worker

/-- two services; service 0 answers Ready, Pending, Err, its replacement takes one extra poll -/
def cfgEx : Cfg :=
  { n := 2, timeout := 1000,
    svcs := fun i => if i = 0 then { script := [.ready, .pending, .err], future := [{ fpend := 1, fok := true, script := [.ready] }] } else {} }

/-- **A service is called only right after every service on the worker reported ready.**  In the
log of any history, every `call` is immediately preceded by `pollReady 0 _ Ready, …,
pollReady (n-1) _ Ready` — a complete sweep of `check_readiness`, with no other event (in particular
no `enter` of another `poll`, no `Pending`) in between. -/
theorem call_after_sweep (cfg : Cfg) (ops : List Op) (k tok inc : Nat) (c : Conn)
    (hk : (run (init cfg) ops).log[k]? = some (.call tok inc c)) :
    cfg.n ≤ k ∧ ∀ i, i < cfg.n → ∃ inc', (run (init cfg) ops).log[k - cfg.n + i]? = some (.pollReady i inc' .ready) := by
  have h := (Good.run ops _ (Good.init cfg)).lg.guarded
  rw [run_n] at h
  exact h k tok inc c hk

example : (run (init cfgEx) [.conn 1, .conn 0, .poll 9]).log =
    [.enter, .pollReady 0 0 .ready, .pollReady 1 0 .ready, .pollReady 0 0 .pending, .pollReady 1 0 .ready,
     .pollReady 0 0 .err, .createService 0, .facPoll 0 .pending] := by decide

example : ((run (init cfgEx) [.conn 1, .conn 0, .poll 9, .poll 9]).log.drop 8) =
    [.enter, .facPoll 0 .ok, .pollReady 0 1 .ready, .pollReady 1 0 .ready, .pollReady 0 1 .ready, .pollReady 1 0 .ready,
     .call 1 0 (0, 1), .pollReady 0 1 .ready, .pollReady 1 0 .ready, .call 0 1 (1, 0), .pollReady 0 1 .ready, .pollReady 1 0 .ready] := by decide

/-- **FIFO, nothing lost, nothing duplicated.**  At any point of any history, the connections the
worker has taken out of its channel (handed to a service, or — only while shutting down — released
or dropped), in the order it took them, followed by the connections still queued, are exactly the
connections that were sent to it, in the order they were sent. -/
theorem fifo (cfg : Cfg) (ops : List Op) :
    handled (run (init cfg) ops).log ++ (run (init cfg) ops).queue = (run (init cfg) ops).sent :=
  (Good.run ops _ (Good.init cfg)).lg.fifo

/-- … hence the connections handed to services appear in arrival order. -/
theorem calls_in_arrival_order (cfg : Cfg) (ops : List Op) :
    (callsOf (run (init cfg) ops).log).Sublist (run (init cfg) ops).sent := by
  rw [← fifo cfg ops]
  refine List.Sublist.trans ?_ (List.sublist_append_left _ _)
  generalize (run (init cfg) ops).log = l
  induction l with
  | nil => exact List.Sublist.refl _
  | cons e l ih =>
    cases e <;> simp [callsOf, handled, Ev.conn?] at ih ⊢ <;> first | exact ih | exact ih.cons _ | skip
    all_goals exact List.Sublist.cons₂ _ ih

example : callsOf (run (init cfgEx) [.conn 1, .conn 0, .poll 9, .poll 9]).log = [(0, 1), (1, 0)] := by decide

/-- **While some service is pending, queued connections wait** (worker in `Unavailable`): a sweep in
which no service failed and some service answered `Pending` ends the `poll`; it emitted nothing but
the readiness answers, and the channel is untouched. -/
theorem pending_waits (s s1 : St) (hst : s.state = .unavailable) (hsw : sweep s = (s1, .ok false)) :
    arm s = (s1, false) ∧ s1.queue = s.queue ∧ s1.inflight = s.inflight ∧
    ∃ evs, s1.log = s.log ++ evs ∧ callsOf evs = [] := by
  have hc := sweep_n hsw
  simp only [core, Prod.mk.injEq] at hc
  have h1 := sweepFrom_ok s.n s 0 true false (by unfold sweep at hsw; rw [hsw])
  unfold sweep at hsw; rw [hsw] at h1
  obtain ⟨evs, e1, e2⟩ := h1
  exact ⟨arm_unavail_false hst (by unfold sweep; exact hsw), hc.2.2.2.1, hc.2.2.2.2.2.2.2.2.1, evs, e1, callsOf_PR (fun e he => (e2 e he).1)⟩

/-- … and in `Available`: the sweep that finds a service pending hands out no connection, leaves the
channel as it is and sends the worker to `Unavailable` (where the next complete sweep decides). -/
theorem pending_waits_available (s s1 : St) (hst : s.state = .available) (hsw : sweep s = (s1, .ok false)) :
    arm s = ({ s1 with queue := s.queue, state := .unavailable }, true) := by
  cases hq : s.queue with
  | nil =>
    have := availLoop_nil_false hsw
    rw [arm_avail_unavail hst (s1 := { s1 with queue := [] }) (by rw [hq]; exact this)]
  | cons c q =>
    have := availLoop_cons_false c q hsw
    rw [arm_avail_unavail hst (s1 := { s1 with queue := c :: q }) (by rw [hq]; exact this)]

/-- one service answering Ready, Ready, Pending -/
def cfgP : Cfg := { n := 1, timeout := 0, svcs := fun _ => { script := [.ready, .ready, .pending] } }

example : (run (init cfgP) [.poll 9, .conn 0]).state = .available ∧ (sweep (run (init cfgP) [.poll 9, .conn 0])).2 = .ok false := by decide
example : (init { cfgP with svcs := fun _ => { script := [.pending] } }).state = .unavailable ∧
    (sweep (init { cfgP with svcs := fun _ => { script := [.pending] } })).2 = .ok false := by decide

/-- **A failed readiness check rebuilds exactly that service.**  In the log of any history a
`pollReady i _ Err` is immediately followed by `createService i`, and every `createService i` is
immediately preceded by `pollReady i _ Err`: one `create` per failure, of the failed index, and no
service is ever re-created without having failed. -/
theorem restart_only_failed (cfg : Cfg) (ops : List Op) :
    (∀ k i inc, (run (init cfg) ops).log[k]? = some (.pollReady i inc .err) →
        (run (init cfg) ops).log[k + 1]? = some (.createService i)) ∧
    (∀ k i, (run (init cfg) ops).log[k]? = some (.createService i) →
        1 ≤ k ∧ ∃ inc, (run (init cfg) ops).log[k - 1]? = some (.pollReady i inc .err)) :=
  (Good.run ops _ (Good.init cfg)).lg.pairs

/-- When the factory future resolves, the new service replaces the failed one **under the same
token** and nothing else changes: the other services (object, incarnation, status, script) are
untouched, the channel is untouched, and the worker goes back to checking readiness. -/
theorem restart_replaces_only_failed (s : St) (tok : Nat) (sc : List Rd) (hst : s.state = .restarting tok 0 true sc) :
    (arm s).2 = true ∧ (arm s).1.state = .unavailable ∧ (arm s).1.queue = s.queue ∧
    ((arm s).1.svc tok).inc = (s.svc tok).inc + 1 ∧ ((arm s).1.svc tok).script = sc ∧
    ((arm s).1.svc tok).status = .unavailable ∧ ∀ j, j ≠ tok → (arm s).1.svc j = s.svc j := by
  rw [arm_restarting_ok hst]
  refine ⟨rfl, rfl, rfl, by simp [created, upd], by simp [created, upd], by simp [created, upd], fun j hj => by simp [created, upd, hj, emit]⟩

/-- **No queued connection is lost across a restart**: while the factory future is pending the
`poll` touches neither the channel nor any service … -/
theorem restart_keeps_queue (s : St) (tok k : Nat) (fok : Bool) (sc : List Rd) (hst : s.state = .restarting tok (k + 1) fok sc) :
    arm s = ({ (emit s [.facPoll tok .pending]) with state := .restarting tok k fok sc }, false) :=
  arm_restarting_pending hst

/-- … and the sweep that detects the failure starts the restart without touching the channel. -/
theorem failure_keeps_queue (s s1 : St) (i : Nat) (hst : s.state = .unavailable) (hsw : sweep s = (s1, .err i)) :
    (arm s).1.queue = s.queue ∧ (arm s).1.inflight = s.inflight ∧ ∃ a b c, (arm s).1.state = .restarting i a b c := by
  have hc := sweep_n hsw
  simp only [core, Prod.mk.injEq] at hc
  rw [arm_unavail_err hst hsw]
  exact ⟨hc.2.2.2.1, hc.2.2.2.2.2.2.2.2.1, _, _, _, rfl⟩

/-- **Serving resumes.**  Once every service answers `Ready` (for instance: the replacement is in
place and ready), the next `poll` of an `Unavailable` worker hands *every* queued connection to its
service, in queue order, and leaves the channel empty — whatever the queue length. -/
theorem serving_resumes (s : St) (hst : s.state = .unavailable) (hp : AllPolled s) (hc : Calm s)
    (ho : s.chanOpen = true) (htok : ∀ c ∈ s.queue, c.2 < s.n) (hq : s.stopQ = []) (hfl : s.fault = none)
    (hfin : s.finished = false) (f : Nat) :
    (pollW (f + 2) s).queue = [] ∧ (pollW (f + 2) s).inflight = s.inflight ++ s.queue ∧
    (pollW (f + 2) s).fault = none ∧ (pollW (f + 2) s).finished = false ∧
    ∃ evs, (pollW (f + 2) s).log = s.log ++ evs ∧ callsOf evs = s.queue :=
  pollW_unavailable_calm hst hp hc ho htok hq hfl hfin f

example : (run (init cfgEx) [.conn 1, .conn 0, .poll 9, .conn 1, .poll 9]).queue = [] ∧
    (run (init cfgEx) [.conn 1, .conn 0, .poll 9, .conn 1, .poll 9]).inflight = [(0, 1), (1, 0), (2, 1)] := by decide

/-- **`poll` terminates** — the self-recursion `self.poll(cx)` is bounded by the scripts: in every
history, a poll whose fuel exceeds `measure` (three per non-`Ready` answer still in some script or
future incarnation, plus the rank of the state) never ends in the model's `.fuel` fault.  (The
driver runs with fuel 10^6.) -/
theorem poll_terminates (cfg : Cfg) (ops : List Op) (fuel : Nat)
    (hfin : (run (init cfg) ops).finished = false) (hfl : (run (init cfg) ops).fault = none)
    (hm : measure (run (init cfg) ops) < fuel) :
    (stepY (run (init cfg) ops) (.poll fuel)).1.fault ≠ some .fuel := by
  have hg := Good.run ops _ (Good.init cfg)
  simp only [stepY, step, hfl, hfin, Option.isSome_none, Bool.or_self, Bool.false_eq_true, if_false]
  have hg' : Good (emit (run (init cfg) ops) [.enter]) :=
    ⟨hg.svc, hg.lg.plain (s' := emit (run (init cfg) ops) [.enter]) [.enter] (by intro e he; simp at he; subst he; exact ⟨rfl, rfl, rfl, rfl⟩) rfl rfl rfl rfl⟩
  exact fuel_enough fuel _ hg' hfin (by show (run (init cfg) ops).fault ≠ _; rw [hfl]; simp) hm

example : measure (init cfgEx) = 3 * 2 + 2 := by decide

/-! ## C01, worker side

What C01 ("each accepted connection reaches exactly one call of its listener's service, never
silently discarded") asks of the worker, over the same model and for every history. -/

/-- **Routing by token**: every `call` in the log goes to the service registered for the connection's
listener token (`tok = c.2`), and that service exists (`tok < n`) — never to another listener's service. -/
theorem call_goes_to_token (cfg : Cfg) (ops : List Op) (tok inc : Nat) (c : Conn)
    (h : Ev.call tok inc c ∈ (run (init cfg) ops).log) : tok = c.2 ∧ tok < cfg.n := by
  have hm := More.run ops _ (More.init cfg) (Good.init cfg)
  have := hm.calls _ h
  rw [run_n] at this
  exact this

example : Ev.call 1 0 (0, 1) ∈ (run (init cfgEx) [.conn 1, .conn 0, .poll 9, .poll 9]).log := by decide

/-- **Distinct ids**: the connections sent to the worker carry the ids `0, 1, …, nextConn-1`, in order. -/
theorem sent_ids_distinct (cfg : Cfg) (ops : List Op) :
    (run (init cfg) ops).sent.map (·.1) = List.range (run (init cfg) ops).nextConn :=
  (More.run ops _ (More.init cfg) (Good.init cfg)).ids

/-- **Exactly once**: no connection is taken from the channel twice — the connections handed to a
service, released or dropped are pairwise distinct; in particular no connection is called twice, and
none is both called and released/dropped. -/
theorem no_connection_handled_twice (cfg : Cfg) (ops : List Op) :
    (handled (run (init cfg) ops).log).Nodup ∧ (callsOf (run (init cfg) ops).log).Nodup := by
  have nodup_of_map_fst : ∀ (l : List Conn), (l.map (·.1)).Nodup → l.Nodup := by
    intro l
    induction l with
    | nil => intro _; exact List.nodup_nil
    | cons a t ih =>
      intro h
      simp only [List.map_cons, List.nodup_cons] at h ⊢
      exact ⟨fun hm => h.1 (List.mem_map.2 ⟨a, hm, rfl⟩), ih h.2⟩
  have hs : (run (init cfg) ops).sent.Nodup := by
    apply nodup_of_map_fst
    rw [sent_ids_distinct]; exact List.nodup_range
  refine ⟨?_, (calls_in_arrival_order cfg ops).nodup hs⟩
  have := fifo cfg ops
  rw [← this] at hs
  exact (List.nodup_append.1 hs).1

example : handled (run (init cfgEx) [.conn 1, .conn 0, .poll 9, .poll 9, .stop true, .conn 0, .poll 9]).log = [(0, 1), (1, 0), (2, 0)] := by decide

/-- **Nothing leaks**: once the worker future has finished its channel is empty and every connection
that was ever sent to it has been handed to its service, released by the `Shutdown` arm, or dropped
with the channel — each exactly once (`no_connection_handled_twice`). -/
theorem queued_connections_released_at_shutdown (cfg : Cfg) (ops : List Op) (hfin : (run (init cfg) ops).finished = true) :
    (run (init cfg) ops).queue = [] ∧ handled (run (init cfg) ops).log = (run (init cfg) ops).sent := by
  have hq := (More.run ops _ (More.init cfg) (Good.init cfg)).finq hfin
  refine ⟨hq, ?_⟩
  have := fifo cfg ops
  rw [hq, List.append_nil] at this
  exact this

example : (run (init cfgEx) [.conn 1, .poll 9, .conn 0, .conn 1, .stop false, .poll 1]).finished = true ∧
    handled (run (init cfgEx) [.conn 1, .poll 9, .conn 0, .conn 1, .stop false, .poll 1]).log = [(0, 1), (1, 0), (2, 1)] := by decide

/-- **Never silently discarded while the worker runs**: a worker that is not shutting down, has no
`Stop` waiting and whose server is alive (`Running`) — in any state of the invariant, whatever the
readiness scripts, restarts, arrivals, also after the accept thread's exit — takes connections out
of its channel only to hand them to their service: a `poll` emits no `released` and no `dropped`
event, and the worker is still `Running` afterwards (the only other outcome is the model's fuel
fault, excluded by `poll_terminates`).  Connections are released or dropped only by a worker that
has taken a `Stop` or whose server is gone. -/
theorem never_discarded_while_running (s : St) (hg : Good s) (hr : Running s) (f : Nat) :
    (Running (pollW f s) ∨ (pollW f s).fault = some .fuel) ∧
    ∃ evs, (pollW f s).log = s.log ++ evs ∧ ∀ e ∈ evs, e.isDiscard = false :=
  pollW_running f s hg hr

example : Running (run (init cfgEx) [.conn 1, .conn 0, .poll 9, .closeChan, .poll 9]) := by
  refine ⟨by decide, ?_, by decide, by decide⟩
  have h : (run (init cfgEx) [.conn 1, .conn 0, .poll 9, .closeChan, .poll 9]).state = .available := by decide
  intro t sf tx; rw [h]; exact fun hh => by cases hh

/-! ## C01: the two halves agree

The accept-loop model (`Model/Srv.lean`, C01–C05/C08) treats each worker as a record
`Srv.Wk {idx, alive, queue, inflight, c, tokp}` on which the environment may perform `sendPrim`, `incPrim`,
`recv`, `finishNow`, `die` at any time; its theorems quantify over all such action sequences.  The worker
model of this file (`Model/Worker.lean`) is shown to be *one of those environments*: read through
`Bridge.absW`, every step of it is a finite sequence of exactly those actions (`Bridge.applyActs`, whose
five clauses are `Srv`'s own definitions). -/

section bridge
open ActixNet.Bridge

/-- **The bridge speaks about `Srv`'s definitions**: the five record updates of `applyAct` are what
`Srv.sendPrim`, `Srv.incPrim` and `Srv.envStep` (`recv`, `finishNow`, `die`) do to `wk w`, and the
notification decision of a release is the generated `Src.wcDecCrossed` in both. -/
theorem bridge_actions_are_srv (cfg : Srv.Cfg) (s : Srv.St) (w : Nat) (hw : w < s.nWk) :
    (∀ c, (Srv.sendPrim s w c).wk w = applyAct (s.wk w) (.send c)) ∧
    (∀ idx, (Srv.incPrim cfg s w idx).wk w = applyAct (s.wk w) .inc) ∧
    (Srv.envStep cfg s (.recv w)).1.wk w = applyAct (s.wk w) .recv ∧
    (∀ id, (Srv.envStep cfg s (.finishNow w (some id))).1.wk w = applyAct (s.wk w) (.finish id)) ∧
    (∀ id c, (s.wk w).inflight.find? (fun x => x.1 = id) = some c →
      (Srv.envStep cfg s (.finishNow w (some id))).2 = .dec (Src.wcDecCrossed (s.wk w).c cfg.limit)) ∧
    (Srv.envStep cfg s (.die w)).1.wk w = applyAct (s.wk w) .die :=
  ⟨srv_send s w, srv_inc cfg s w, srv_recv cfg s w hw, fun id => srv_finish cfg s w id hw,
   fun id c h => srv_finish_crossed cfg s w id hw c h, srv_die cfg s w hw⟩

/-- **(a) the accept thread's actions**: `conn` is `send` then `inc`, `send` is `send`, `inc` is `inc` —
whenever the worker model accepts the op. -/
theorem accept_ops_are_srv_actions (s : St) (tok idx : Nat) (hfl : s.fault = none) (hco : s.chanOpen = true) (hfin : s.finished = false) :
    absW idx (step s (.conn tok)).1 = applyActs (absW idx s) [.send (s.nextConn, tok), .inc] ∧
    absW idx (step s (.send tok)).1 = applyActs (absW idx s) [.send (s.nextConn, tok)] ∧
    absW idx (step s .inc).1 = applyActs (absW idx s) [.inc] := by
  simp [step, hfl, hco, hfin, applyActs, applyAct, absW]

/-- **(b) a service finishing a connection** is `Srv`'s `finish` of that id (ids are distinct, so removing
"the connections with that id" and removing "the first connection with that id" coincide), the counter goes
down by one, and the worker pushes a notification exactly when `Srv` says `crossed` (`Src.wcDecCrossed`). -/
theorem finish_is_srv_finish (cfg : Cfg) (ops : List Op) (id idx : Nat) :
    ∃ acts, (acts = [] ∨ acts = [.finish id]) ∧
      applyActs (absW idx (run (init cfg) ops)) acts = absW idx (step (run (init cfg) ops) (.finish id)).1 := by
  have hd := DB.run ops _ (DB.init cfg) (Good.init cfg)
  generalize run (init cfg) ops = s at hd
  simp only [step]
  split
  · exact ⟨[], Or.inl rfl, rfl⟩
  · split
    · rename_i hany
      refine ⟨[.finish id], Or.inr rfl, ?_⟩
      obtain ⟨c, hc, hcid⟩ := List.any_eq_true.1 hany
      have hcid' : c.1 = id := by simpa using hcid
      have hnd : (s.inflight.map (·.1)).Nodup := by
        have := hd.dist; rw [List.map_append] at this; exact (List.nodup_append.1 this).1
      cases hf : s.inflight.find? (fun x => x.1 = id) with
      | none => have := List.find?_eq_none.1 hf c hc; simp [hcid'] at this
      | some c' => simp only [applyActs, applyAct, absW, hf]; rw [filter_eq_eraseP hnd hf]
    · exact ⟨[], Or.inl rfl, rfl⟩

/-- **(c) a `poll` of a worker that is not shutting down is a sequence of `recv`s**: it takes connections only
from the head of its channel, one at a time, in queue order (`queue = taken ++ queue'`), hands exactly those to
services (`inflight' = inflight ++ taken`, the `call`s of this poll are `taken`), and leaves the counter alone —
exactly what `Srv`'s `recv` assumes of a worker. -/
theorem running_poll_is_recvs (s : St) (hg : Good s) (hr : Running s) (f : Nat) :
    ∃ taken, Takes s (pollW f s) taken ∧ ∀ idx, applyActs (absW idx s) (List.replicate taken.length .recv) = absW idx (pollW f s) := by
  obtain ⟨taken, h⟩ := pollW_running_takes f s hg hr
  exact ⟨taken, h, fun idx => h.recvs hr.1 idx⟩

/-- **(d) the `Shutdown` arm's release of a queued connection is `recv` followed by `finish` of it**: the counter
goes down by one per released connection, nothing else changes. -/
theorem shutdown_release_is_recv_finish (cfg : Cfg) (ops : List Op) (hfin : (run (init cfg) ops).finished = false) :
    ∃ cs, (run (init cfg) ops).queue = cs ++ (release (run (init cfg) ops) (run (init cfg) ops).queue).queue ∧
      (release (run (init cfg) ops) (run (init cfg) ops).queue).log = (run (init cfg) ops).log ++ cs.map .released ∧
      ∀ idx, applyActs (absW idx (run (init cfg) ops)) (cs.flatMap fun c => [.recv, .finish c.1]) =
        absW idx (release (run (init cfg) ops) (run (init cfg) ops).queue) :=
  release_is_recv_finish hfin (DB.run ops _ (DB.init cfg) (Good.init cfg))

/-- **(e) the worker future finishing is `die`**: the receiving end of the channel goes away and whatever is
still queued is dropped with it. -/
theorem finishing_is_die (s : St) (hfin : s.finished = false) (b : Bool) (idx : Nat) :
    applyActs (absW idx s) [.die] = absW idx (finish s b) := by
  simp [applyActs, applyAct, absW, hfin, finish, emit]

/-- **Every step of the worker model is a finite sequence of `Srv` worker actions** — each environment op, a
whole `poll` (any state of the invariant: serving, restarting, shutting down, finishing), a `poll` overtaken by
other threads' actions. -/
theorem worker_step_is_srv_actions (cfg : Cfg) (ops : List Op) (op : Op) :
    ∃ acts, ∀ idx, applyActs (absW idx (run (init cfg) ops)) acts = absW idx (stepY (run (init cfg) ops) op).1 :=
  (Sim.of_stepY (Good.run ops _ (Good.init cfg)) op).acts (DB.run ops _ (DB.init cfg) (Good.init cfg))

/-- **The two halves agree** (headline, for props/C01): for every history of the worker model, the connections
handed to services are, in order, a subsequence of what the accept side sent, each at most once, to the service
of its own token — AND the accept side's view of the worker after that history (alive, queue, in progress, raw
counter) is exactly what the accept-loop model computes from a sequence of its own per-worker environment
actions. The behaviours of the worker model are among the environments the `Srv` theorems quantify over. -/
theorem two_halves_agree (cfg : Cfg) (ops : List Op) :
    (∃ acts, ∀ idx, applyActs (absW idx (init cfg)) acts = absW idx (run (init cfg) ops)) ∧
    (callsOf (run (init cfg) ops).log).Sublist (run (init cfg) ops).sent ∧
    (callsOf (run (init cfg) ops).log).Nodup ∧
    (∀ tok inc c, Ev.call tok inc c ∈ (run (init cfg) ops).log → tok = c.2 ∧ tok < cfg.n) :=
  ⟨sim_run ops _ (DB.init cfg) (Good.init cfg), calls_in_arrival_order cfg ops, (no_connection_handled_twice cfg ops).2,
   fun tok inc c h => call_goes_to_token cfg ops tok inc c h⟩

example : (applyActs (absW 7 (init cfgEx)) [.send (0, 1), .inc, .send (1, 0), .inc, .recv, .recv]).inflight =
      (absW 7 (run (init cfgEx) [.conn 1, .conn 0, .poll 9, .poll 9])).inflight ∧
    (applyActs (absW 7 (init cfgEx)) [.send (0, 1), .inc, .send (1, 0), .inc, .recv, .recv]).c =
      (absW 7 (run (init cfgEx) [.conn 1, .conn 0, .poll 9, .poll 9])).c ∧
    (absW 7 (run (init cfgEx) [.conn 1, .conn 0, .poll 9, .poll 9])).queue = [] := by decide

example : (applyActs (absW 0 (run (init cfgEx) [.conn 1, .poll 9, .conn 0, .conn 1])) [.die]).alive = false ∧
    (absW 0 (run (init cfgEx) [.conn 1, .poll 9, .conn 0, .conn 1, .stop false, .poll 1])).alive = false ∧
    (absW 0 (run (init cfgEx) [.conn 1, .poll 9, .conn 0, .conn 1, .stop false, .poll 1])).queue = [] := by decide

end bridge

end ActixNet.C07
