#!/bin/sh
# tools/seed_queue.sh <Cxx> <crate> [prop] [r1 <n>]: confirm round-2 seeds 3 and 4 of a property (default), or the
# round-1 seed <n> (from /tmp/seed) when the 4th word is r1
P=$1; CR=$2; PR=${3:-$1}
if [ "$4" = r1 ]; then
  FEATURES=$SEEDFEATURES SEEDROOT=/tmp/seed /verif/tools/seed_confirm.sh $P $5 $CR $PR > /verif/.build/sc-$P-$5.log 2>&1
  exit 0
fi
for n in 3 4; do
  [ -f /tmp/seed2/$P/out/patch-$n.diff ] || { echo "no patch-$n for $P" > /verif/.build/sc-$P-$n.log; continue; }
  FEATURES=$SEEDFEATURES SEEDROOT=/tmp/seed2 /verif/tools/seed_confirm.sh $P $n $CR $PR > /verif/.build/sc-$P-$n.log 2>&1
done
