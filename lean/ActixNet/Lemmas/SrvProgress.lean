import ActixNet.Lemmas.SrvFuel
/-!
# Progress of the accept loop (C03): what is dispatched stays dispatched, and a waiting connection is
dispatched by the next `accept` on its listener whenever some worker is available
-/
namespace ActixNet.Srv
open ActixNet

/-- `b` extends `a` -/
def Ext {α : Type} (a b : List α) : Prop := ∃ r, b = a ++ r

theorem Ext.refl {α : Type} (a : List α) : Ext a a := ⟨[], by simp⟩
theorem Ext.trans {α : Type} {a b c : List α} (h1 : Ext a b) (h2 : Ext b c) : Ext a c := by
  obtain ⟨r1, rfl⟩ := h1; obtain ⟨r2, rfl⟩ := h2; exact ⟨r1 ++ r2, by simp⟩
theorem Ext.of_eq {α : Type} {a b : List α} (h : b = a) : Ext a b := ⟨[], by simp [h]⟩
theorem Ext.mem {α : Type} {a b : List α} (h : Ext a b) {x : α} (hx : x ∈ a) : x ∈ b := by
  obtain ⟨r, rfl⟩ := h; exact List.mem_append_left _ hx

theorem sendFail_dispatched (s : St) (w : Nat) (c : Conn) : (sendFail s w c).1.dispatched = s.dispatched := by
  have h := removeNext_dispatched s w
  unfold sendFail; simp only
  split
  · exact h
  · split <;> exact h

/-- the dispatch log only ever grows -/
theorem sendConnection_ext (cfg : Cfg) (s : St) (c : Conn) : Ext s.dispatched (sendConnection cfg s c).1.dispatched := by
  unfold sendConnection
  split
  · exact Ext.refl _
  · split
    · exact Ext.refl _
    · rename_i w _
      split
      · refine ⟨[(c, w)], ?_⟩
        rw [setNext_dispatched, incPrim_dispatched, yieldPt_dispatched]; rfl
      · exact Ext.of_eq (sendFail_dispatched s w c)

theorem forcedSend_ext (cfg : Cfg) : ∀ (fuel : Nat) (s : St) (c : Conn), Ext s.dispatched (forcedSend cfg fuel s c).dispatched := by
  intro fuel; induction fuel with
  | zero => intro s c; exact Ext.refl _
  | succ f ih =>
    intro s c
    simp only [forcedSend]
    have h1 := sendConnection_ext cfg s c
    generalize sendConnection cfg s c = r at h1
    obtain ⟨s1, b⟩ := r
    cases b with
    | true => exact h1
    | false => exact h1.trans (ih s1 c)

theorem acceptOne_ext (cfg : Cfg) : ∀ (fuel : Nat) (s : St) (c : Conn), Ext s.dispatched (acceptOne cfg fuel s c).dispatched := by
  intro fuel; induction fuel with
  | zero => intro s c; exact Ext.refl _
  | succ f ih =>
    intro s c
    simp only [acceptOne]
    split
    · exact Ext.refl _
    · split
      · exact Ext.refl _
      · rename_i w _
        split
        · have h1 := sendConnection_ext cfg s c
          generalize sendConnection cfg s c = r at h1
          obtain ⟨s1, b⟩ := r
          cases b with
          | true => exact h1
          | false => exact h1.trans (ih s1 c)
        · have h2 : Ext s.dispatched (setNext (setAvail s (s.wk w).idx false)).dispatched :=
            Ext.of_eq (by rw [setNext_dispatched, setAvail_dispatched])
          split
          · exact h2.trans (forcedSend_ext cfg _ _ c)
          · exact h2.trans (ih _ c)

theorem acceptSys_dispatched (s : St) (l : Nat) : (acceptSys s l).1.dispatched = s.dispatched := by
  unfold acceptSys; simp only
  split
  · rename_i e es _
    cases e with
    | kind k => simp only; split
                · rfl
                · split <;> rfl
    | emfile => rfl
  · split <;> rfl

theorem accept_ext (cfg : Cfg) : ∀ (fuel : Nat) (s : St) (l : Nat), Ext s.dispatched (accept cfg fuel s l).dispatched := by
  intro fuel; induction fuel with
  | zero => intro s l; exact Ext.refl _
  | succ f ih =>
    intro s l
    simp only [accept]
    split
    · exact Ext.refl _
    · split
      · exact Ext.refl _
      · have h0 : (acceptSys (yieldPt cfg s) l).1.dispatched = s.dispatched := by
          rw [acceptSys_dispatched, yieldPt_dispatched]
        generalize acceptSys (yieldPt cfg s) l = r at h0
        obtain ⟨s1, res⟩ := r
        simp only at h0 ⊢
        cases res with
        | conn c => exact (Ext.of_eq h0).trans ((acceptOne_ext cfg _ s1 c).trans (ih _ l))
        | wouldBlock => exact Ext.of_eq h0
        | connErr => exact (Ext.of_eq h0).trans (ih s1 l)
        | otherErr =>
          refine Ext.of_eq ?_
          have st : ∀ (x : St) (d : Nat), (setTimeout x d).dispatched = x.dispatched := by
            intro x d; unfold setTimeout; split
            · split <;> rfl
            · rfl
          rw [st, ← h0]; rfl

/-- **Progress.**  In a state of the fault-free regime (`AccInv`: every worker alive and in the rotation)
with no fault, if some worker is marked available and connection `c` is the first one waiting on
listener `l` (no injected accept error in front of it), then `accept` on `l` dispatches `c` — with
any fuel ≥ 1, whatever else it goes on to do, when no other thread interferes at its yield points. -/
theorem accept_dispatches_waiting {cfg : Cfg} (ok : CfgOk cfg) (fuel : Nat) (s : St) (l : Nat) (c : Conn) (b : List Conn)
    (h : AccInv cfg s) (np : NP cfg s) (hf : s.fault = none) (hany : anyAvail cfg s = true) (hsched : s.sched = [])
    (hi : (s.lst l).inject = []) (hb : (s.lst l).backlog = c :: b) :
    ∃ w, (c, w) ∈ (accept cfg (fuel + 1) s l).dispatched := by
  have hy : yieldPt cfg s = { s with yields := s.yields + 1 } := by unfold yieldPt; rw [hsched]
  generalize hs1 : ({ ({ s with yields := s.yields + 1 } : St) with lst := upd s.lst l { s.lst l with backlog := b } } : St) = s1
  have hsys : acceptSys (yieldPt cfg s) l = (s1, .conn c) := by
    rw [hy, ← hs1]; simp [acceptSys, hi, hb]
  have e : accept cfg (fuel + 1) s l = accept cfg fuel (acceptOne cfg (acceptOneFuel s1) s1 c) l := by
    simp only [accept]
    rw [if_neg (by simp [hf]), if_neg (by simp [hany]), hsys]
  rw [e]
  -- the state `accept_one` starts from differs from `s` only in the backlog and the yield counter
  have fr : Frame s s1 := by subst hs1; exact ⟨rfl, rfl⟩
  have vf : VFrame s s1 := by subst hs1; exact ⟨rfl, rfl⟩
  have h1 : AccInv cfg s1 := h.frame fr
  have n1 : NP cfg s1 := np.vframe vf
  have hf1 : s1.fault = none := by rw [vf.2]; exact hf
  have hany1 : anyAvail cfg s1 = true := by rw [anyAvail_congr fr.avail]; exact hany
  have hne : s1.handles ≠ [] := anyAvail_handles n1.sound hany1
  -- `accept_one` ends without a fault …
  have hnf : (acceptOne cfg (acceptOneFuel s1) s1 c).fault = none := by
    have p := (acceptOne_np ok (acceptOneFuel s1) s1 c n1 hne).nopanic
    have q := acceptOne_nospin ok (acceptOneFuel s1) s1 c n1 hne (acceptOneFuel_ok n1 hne) (by unfold NoSpinAO; rw [hf1]; simp)
    have r := acceptOne_aw cfg (acceptOneFuel s1) s1 c (by unfold NoSpinAW; rw [hf1]; simp)
    unfold NoPanic at p; unfold NoSpinAO at q; unfold NoSpinAW at r
    cases hx : (acceptOne cfg (acceptOneFuel s1) s1 c).fault with
    | none => rfl
    | some f => rw [hx] at p q r; cases f <;> simp at p q r
  -- … so it placed `c`; in the fault-free regime the handle list is never empty, so it was dispatched
  have hg := acceptOne_good ok (acceptOneFuel s1) s1 c h1 hany1
  rcases acceptOne_log cfg (acceptOneFuel s1) s1 c hnf with ⟨_, w, _, _, _, hd⟩ | ⟨_, hh, _⟩
  · refine ⟨w, (accept_ext cfg fuel _ l).mem ?_⟩
    rw [hd]; simp
  · have : (acceptOne cfg (acceptOneFuel s1) s1 c).handles = List.range cfg.nIdx := hg.good.1.handles
    rw [hh] at this
    have := congrArg List.length this
    simp at this
    have := ok.pos; omega


theorem runEnv_sched (cfg : Cfg) : ∀ (as : List EnvAct) (s : St), (runEnv cfg s as).sched = s.sched := by
  intro as; induction as with
  | nil => intro s; rfl
  | cons a as ih => intro s; simp only [runEnv]; rw [ih]; exact envStep_sched cfg s a

theorem poll_sched_nil (cfg : Cfg) (s : St) (order : List Ev) (sched : List (List EnvAct)) (h : s.sched = []) :
    (poll cfg s order sched).sched = [] := by
  unfold poll; split
  · exact h
  · unfold pollFinish; split <;> rfl

/-- between operations the schedule is used up -/
theorem run_sched_nil (cfg : Cfg) : ∀ (ops : List Op) (s : St), s.sched = [] → (run cfg s ops).sched = [] := by
  intro ops; induction ops with
  | nil => intro s h; exact h
  | cons op ops ih =>
    intro s h
    simp only [run]
    apply ih
    cases op with
    | env a => simp only [Srv.step]; rw [runEnv_sched]; exact h
    | poll order sched => exact poll_sched_nil cfg s order sched h
    | finishW2 w c order =>
      simp only [Srv.step]
      split
      · rw [runEnv_sched]; exact poll_sched_nil cfg _ order [] (by show (envStep cfg s (.finish w c)).1.sched = []; rw [envStep_sched]; exact h)
      · show (envStep cfg s (.finish w c)).1.sched = []; rw [envStep_sched]; exact h

/-- **Progress, for every reachable state of a fault-free history**: some worker marked available and a
connection waiting first on listener `l` ⇒ the next `accept` on `l` dispatches it. -/
theorem reachable_accept_dispatches_waiting {cfg : Cfg} (ok : CfgOk cfg) (kinds : List Kind) (ops : List Op)
    (hff : ∀ op ∈ ops, op.faultFree) (fuel l : Nat) (c : Conn) (b : List Conn)
    (hany : anyAvail cfg (run cfg (init cfg kinds) ops) = true)
    (hi : ((run cfg (init cfg kinds) ops).lst l).inject = [])
    (hb : ((run cfg (init cfg kinds) ops).lst l).backlog = c :: b) :
    ∃ w, (c, w) ∈ (accept cfg (fuel + 1) (run cfg (init cfg kinds) ops) l).dispatched := by
  have hinv := run_inv ok ops _ (init_inv cfg ok kinds) hff
  have hs : (run cfg (init cfg kinds) ops).sched = [] := run_sched_nil cfg ops _ rfl
  have hacc : AccInv cfg (run cfg (init cfg kinds) ops) := ⟨hinv.1, hinv.2, by unfold SchedOk; rw [hs]; intro ch h; cases h⟩
  exact accept_dispatches_waiting ok fuel _ l c b hacc (run_np ok ops _ (init_np cfg kinds)) (run_fault_none ok kinds ops) hany hs hi hb

end ActixNet.Srv
