import ActixNet.Lemmas.ServiceRun
/-!
# C12 — combinator readiness and polling obey the Service and Future contracts

Same model as C11.  `pollReady s w` is one `poll_ready` of the combined service with the waker of
identity `w`; `leafSteps s` are the answers the scripted leaves would give *now*
(`pending`/`ok`/`err e`), `leafIds s` their ids, `rdyPolls log` the `(leaf, waker)` pairs of the leaf
`poll_ready` calls in a log.  `poll fu w` is one poll of a response future, `run` the whole
executor run of a call, `facRun` of a factory.  All statements are for arbitrary trees and scripts.
-/
namespace ActixNet.C12
open ActixNet.Service

/-- ready is reported iff every inner service is ready now -/
theorem ready_conj (s : Svc) (w : Nat) :
    (pollReady s w).2.1 = .ok ↔ ∀ st ∈ leafSteps s, st = .ok :=
  (ready_obs s w).1

/-- an inner readiness error is reported (mapped by the enclosing `map_err`s) instead of ready:
the answer is `Err e` iff `e` is the mapped error of the first inner service that is in error -/
theorem ready_err (s : Svc) (w e : Nat) :
    (pollReady s w).2.1 = .err e ↔ curErr s = some e := by
  have h := (ready_obs s w).2.1
  rw [h]
  cases (pollReady s w).2.1 <;> simp

/-- no lost wake-up: whenever the combined service does not report an error — in particular
whenever it reports Pending — *every* inner service was polled, exactly once, in order, with the
*current* waker -/
theorem pending_polls_all (s : Svc) (w : Nat) (h : (pollReady s w).2.1 = .pending) :
    rdyPolls (pollReady s w).2.2 = (leafIds s).map (fun i => (i, w)) ∧
    ∀ i ∈ leafIds s, (i, w) ∈ rdyPolls (pollReady s w).2.2 := by
  have h3 := (ready_obs s w).2.2.1 (by intro e he; rw [h] at he; cases he)
  refine ⟨h3, ?_⟩
  intro i hi; rw [h3]; exact List.mem_map.mpr ⟨i, hi, rfl⟩

/-- Pending is reported only if some inner service is pending -/
theorem ready_pending_only_if_inner_pending (s : Svc) (w : Nat) (h : (pollReady s w).2.1 = .pending) :
    .pending ∈ leafSteps s :=
  (ready_obs s w).2.2.2 h

/-- progress: polling `poll_ready` (a fresh waker each time, as after each wake-up) reaches the
readiness verdict `(rdyDen s).2` after exactly `(rdyDen s).1` Pending answers -/
theorem ready_progress (s : Svc) (w n : Nat) (hn : (rdyDen s).1 < n) :
    (readyDrive n s w).2 = ((rdyDen s).2, w + (rdyDen s).1) ∧ (rdyDen s).2 ≠ .pending :=
  ⟨readyDrive_spec n s w hn, rdyDen_ne_pending s⟩

/-- a combinator future never polls an inner future again after it completed -/
theorem no_poll_after_done (s : Svc) (req w n : Nat) (hn : pendOf s req < n) :
    ∀ e ∈ (run n s req w).2.1, isRepoll e = false := by
  rw [run_eq n s req w hn]; exact refLog_no_repoll s req w

/-- … and neither do the factory futures (this is what the `is_none` guards of the `and_then`
factory future are for) -/
theorem fac_no_poll_after_done (f : Fac) (cfg w n : Nat) (hn : (facDen f cfg).1 < n) :
    ∀ e ∈ (facRun n f cfg w).2.1, isRepoll e = false := by
  have h := fac_drive f cfg w n hn
  intro e he
  simp only [facRun, List.mem_append] at he
  rcases he with he | he
  · exact newService_log_not_repoll f cfg e he
  · exact quiet_not_repoll e (h.2.2 e he)

/-- no stage is invoked twice: every stage (leaf or `fn_service`) is called at most as often as it
occurs in the tree -/
theorem stage_once (s : Svc) (req w n i : Nat) (hn : pendOf s req < n) :
    calledCount i (run n s req w).2.1 ≤ (stageIds s).count i := by
  rw [run_eq n s req w hn]; exact refLog_stage_once s req w i

/-- a poll of a combinator future answers Pending only if an inner future answered Pending *to the
current waker* in this very poll (or a completed one was polled — excluded by `no_poll_after_done`) -/
theorem pending_only_if_inner_pending (fu : Fut) (w : Nat) (h : (poll fu w).2.1 = none) :
    ∃ id, Evt.polled id w none ∈ (poll fu w).2.2 ∨ Evt.repoll id w ∈ (poll fu w).2.2 :=
  (poll_obs fu w).1 h

/-- every inner poll performed by a poll carries the current waker -/
theorem poll_passes_current_waker (fu : Fut) (w : Nat) :
    ∀ e ∈ (poll fu w).2.2, evtWaker e = none ∨ evtWaker e = some w :=
  (poll_obs fu w).2

/-- the number of Pending answers of the whole future is exactly the number of Pending answers of
the inner futures on the executed path (it stays pending only while an inner future is pending) -/
theorem pending_exactly_inner (s : Svc) (req w n : Nat) (hn : pendOf s req < n) :
    (run n s req w).2.2 = w + pendOf s req := by
  rw [run_eq n s req w hn]

/-- the same for the factory futures (`and_then` join, `apply(Transform)` A/B, `apply_cfg_factory`
A/B/C, `map*`, boxed): one poll answers Pending only if an inner init future or — in state B of
`apply_cfg_factory` — an inner service answered Pending *to the current waker* in this very poll.
The scripted leaves park the waker exactly then, so a Pending factory future always has a wake-up
arranged on the waker of its latest poll (a wake-driven executor never stalls) -/
theorem fac_pending_only_if_inner_pending (fu : IFut) (w : Nat) (h : (ipoll fu w).2.1 = none) :
    ∃ e ∈ (ipoll fu w).2.2, isPendingFor w e = true :=
  (ipoll_obs fu w).1 (by simp [h])

/-- … and every inner poll (init futures and `poll_ready` of the created service) carries the
current waker -/
theorem fac_poll_passes_current_waker (fu : IFut) (w : Nat) :
    ∀ e ∈ (ipoll fu w).2.2, evtWaker e = none ∨ evtWaker e = some w :=
  (ipoll_obs fu w).2

/-- a Pending `poll_ready` of a combined service is backed by a leaf that answered Pending to the
current waker -/
theorem ready_pending_arranges_wakeup (s : Svc) (w : Nat) (h : (pollReady s w).2.1 = .pending) :
    ∃ e ∈ (pollReady s w).2.2, isPendingFor w e = true :=
  (pollReady_wake s w).1 (by simp [h])

/-- the readiness gate of `apply_cfg_factory` (apply_cfg.rs state B), one poll: a readiness error of
the created service is the result and the configure closure is not invoked; on Pending the future
stays pending and the closure is not invoked; the closure is invoked in the poll in which the
service answers `Ready(Ok)` -/
theorem cfg_gate (svc : Svc) (f ip : Nat) (iok : Bool) (cfg w : Nat) :
    (∀ e, (pollReady svc w).2.1 = .err e →
        (ipoll (.cfgB svc f ip iok cfg) w).2.1 = some (.err e) ∧
        ∀ ev ∈ (ipoll (.cfgB svc f ip iok cfg) w).2.2, isCfgFn ev = false) ∧
    ((pollReady svc w).2.1 = .pending →
        (ipoll (.cfgB svc f ip iok cfg) w).2.1 = none ∧
        ∀ ev ∈ (ipoll (.cfgB svc f ip iok cfg) w).2.2, isCfgFn ev = false) ∧
    ((pollReady svc w).2.1 = .ok → Evt.cfgFn f cfg ∈ (ipoll (.cfgB svc f ip iok cfg) w).2.2) := by
  simp only [ipoll]; exact cfgBStep_gate svc f ip iok cfg w

/-- whole run of `apply_cfg_factory(a, f)`: if the service built by `a` ends its readiness script
in `Ready(Err e)` (after any number of Pendings), `new_service` resolves to `Err e` — the inner
readiness error is reported instead of a configured service — in the poll in which the error shows -/
theorem fac_ready_error_is_init_error (a : Fac) (f ip : Nat) (iok : Bool) (cfg w n p : Nat) (s : Svc) (e : Nat)
    (ha : facDen a 0 = (p, .ok s)) (hr : (rdyDen s).2 = .err e) (hn : p + (rdyDen s).1 < n) :
    (facRun n (.applyCfgFac a f ip iok) cfg w).1 = some (.err e) ∧
    (facRun n (.applyCfgFac a f ip iok) cfg w).2.2 = w + (p + (rdyDen s).1) := by
  have hd : facDen (.applyCfgFac a f ip iok) cfg = (p + (rdyDen s).1, .err e) := by
    simp [facDen, ha, cfgDen, hr]
  have h := fac_drive (.applyCfgFac a f ip iok) cfg w n (by rw [hd]; exact hn)
  rw [hd] at h
  exact ⟨h.1, h.2.1⟩

/-- … and if it ends in `Ready(Ok)` the closure's service is built over the *settled* (ready)
service, after the readiness Pendings and the closure's own -/
theorem fac_configures_ready_service (a : Fac) (f ip : Nat) (iok : Bool) (cfg w n p : Nat) (s : Svc)
    (ha : facDen a 0 = (p, .ok s)) (hr : (rdyDen s).2 = .ok) (hn : p + ((rdyDen s).1 + ip) < n) :
    (facRun n (.applyCfgFac a f ip iok) cfg w).1 = some (cfgRes (settle s) f iok cfg) ∧
    (facRun n (.applyCfgFac a f ip iok) cfg w).2.2 = w + (p + ((rdyDen s).1 + ip)) := by
  have hd : facDen (.applyCfgFac a f ip iok) cfg = (p + ((rdyDen s).1 + ip), cfgRes (settle s) f iok cfg) := by
    simp [facDen, ha, cfgDen, hr]
  have h := fac_drive (.applyCfgFac a f ip iok) cfg w n (by rw [hd]; exact hn)
  rw [hd] at h
  exact ⟨h.1, h.2.1⟩

/-- no stale readiness: whatever the combined service answered before, once an inner service starts a
new readiness round that does not begin with `Ready(Ok)` (it is Pending again after a call consumed
its capacity, or it broke) the combined service does not report ready — there is no readiness state
outside the leaves -/
theorem no_stale_readiness (s : Svc) (i rp : Nat) (rok : Bool) (w : Nat) (hi : i ∈ leafIds s)
    (hs : leafStep i rp rok ≠ .ok) : (pollReady (rescript s i rp rok) w).2.1 ≠ .ok := by
  intro h
  exact hs ((ready_conj _ w).1 h _ (rescript_step_mem s i rp rok hi))

/-- … and when it reports ready every inner service has been asked in this very poll, with the
current waker (readiness is never answered from a cache) -/
theorem ready_asks_every_inner (s : Svc) (w : Nat) (h : (pollReady s w).2.1 = .ok) :
    rdyPolls (pollReady s w).2.2 = (leafIds s).map (fun i => (i, w)) :=
  (ready_obs s w).2.2.1 (by intro e he; rw [h] at he; cases he)

/-! ## Non-vacuity -/

def exSvc : Svc :=
  .andThen (.mapErr (.leaf 0 0 true 2 true) 22) (.andThen (.leaf 1 1 true 1 true) (.wrap .rc (.leaf 2 0 true 3 false)))

example : (pollReady exSvc 7).2.1 = .pending := by decide
example : rdyPolls (pollReady exSvc 7).2.2 = [(0, 7), (1, 7), (2, 7)] :=
  (pending_polls_all exSvc 7 (by decide)).1
example : leafSteps exSvc = [.pending, .pending, .pending] := by decide
example : rdyDen exSvc = (3, .err 7002) := by decide
example : curErr (.mapErr (.leaf 2 0 true 0 false) 22) = some (mapFn 22 7002) := by decide
example : ∀ st ∈ leafSteps (.andThen (.leaf 0 1 true 0 true) (.fnSvc 11 true)), st = .ok := by decide
example : pendOf exSvc 3 < 5 := by decide
example : (stageIds exSvc).count 1 = 1 := by decide

/-- `apply_cfg_factory` over a leaf whose readiness script is Pending, Ready(Err) -/
def exGate : Fac := .applyCfgFac (.leaf 60 1 true true (.mapErr (.leaf 0 0 true 1 false) 22)) 52 1 true
example : facDen (.leaf 60 1 true true (.mapErr (.leaf 0 0 true 1 false) 22)) 0
    = (1, .ok (.mapErr (.leaf 0 0 true 1 false) 22)) := by decide
example : rdyDen (.mapErr (.leaf 0 0 true 1 false) 22) = (1, .err (mapFn 22 7000)) := by decide
example : (facRun 10 exGate 5 0).1 = some (.err (mapFn 22 7000)) ∧ (facRun 10 exGate 5 0).2.2 = 0 + (1 + 1) :=
  fac_ready_error_is_init_error (.leaf 60 1 true true (.mapErr (.leaf 0 0 true 1 false) 22)) 52 1 true 5 0 10 1
    (.mapErr (.leaf 0 0 true 1 false) 22) (mapFn 22 7000) (by decide) (by decide) (by decide)
example : (pollReady (.leaf 0 0 true 0 false) 3).2.1 = .err 7000 := by decide
example : (ipoll (.cfgB (.leaf 0 0 true 0 false) 52 0 true 5) 3).2.1 = some (.err 7000) :=
  ((cfg_gate (.leaf 0 0 true 0 false) 52 0 true 5 3).1 7000 (by decide)).1
example : (ipoll (.cfgB (.leaf 0 0 true 1 true) 52 0 true 5) 3).2.1 = none := by decide
example : ∃ e ∈ (ipoll (.cfgB (.leaf 0 0 true 1 true) 52 0 true 5) 3).2.2, isPendingFor 3 e = true :=
  fac_pending_only_if_inner_pending _ 3 (by decide)
example : (ipoll (newService (.transform 31 1 true none (.leaf 60 0 true true (.fnSvc 11 true))) 4).1 9).2.1 = none := by
  decide
example : rdyDen (.andThen (.leaf 0 0 true 2 true) (.fnSvc 11 true)) = (2, .ok) := by decide

/-- ready, then leaf 0 is Pending again behind a boxed wrapper: not ready -/
example : (pollReady (.wrap .boxed (.leaf 0 0 true 0 true)) 3).2.1 = .ok := by decide
example : (pollReady (rescript (.wrap .boxed (.leaf 0 0 true 0 true)) 0 1 true) 4).2.1 = .pending := by decide
example : (pollReady (rescript (.wrap .boxed (.leaf 0 0 true 0 true)) 0 1 true) 4).2.1 ≠ .ok :=
  no_stale_readiness _ 0 1 true 4 (by decide) (by decide)

end ActixNet.C12
