import Driver.Util
import ActixNet.Model.Rt
/-!
Engine `rt` (C09, C10): membership tie for `actix-rt` on real threads.

The harness (harness/src/bin/rt.rs) builds a scenario line by line, runs it against the real
`System`/`Arbiter` and rewrites `go …` into `observe … || <observed log>`.  For `observe`, this
driver builds a *witness schedule* from the scenario and the observed choice points (which code won
a race, which prefix of the tasks started, from which command on `spawn` reported false), **runs
the model `ActixNet.Rt.step` on it** and prints the normalised verdict computed from the model's
final state — iff that equals the verdict normalised from the observed log; otherwise
`not-a-model-behaviour: …`.  Since the C09/C10 theorems hold for every schedule of the model, a log
that violates a property can never be reproduced.

The scenario grammar and validity rules mirror `feed` in rt.rs exactly (`bad-op` on both sides).
-/
namespace Driver.Rt
open Driver ActixNet.Rt

inductive C10Cmd where
  | spawn (arb task : Nat)
  | stop (arb : Nat)
  | wait (task : Nat)
  deriving Repr, Inhabited

structure State where
  proto : Nat := 0
  done : Bool := false
  kinds : List String := []
  /-- origin, code, seq -/
  stops : List (String × Int × Bool) := []
  /-- c09: the arbiter whose process-wide number equals the system id (ids are arbitrary in the model) -/
  align : Option Nat := none
  /-- c10: number of command targets (arbiters incl. the system arbiter) -/
  narb : Nat := 0
  /-- c10: the target that is the system arbiter -/
  sysIdx : Option Nat := none
  /-- c10: the thread hosted that many Systems before (kept alive?) -/
  host : Option (Nat × Bool) := none
  cmds : List C10Cmd := []
  nlines : Nat := 0
  ntask : Nat := 0
  taskArb : List Nat := []
  /-- per task: none = not a gate, some opened -/
  taskGate : List (Option Bool) := []
  stopped : List Bool := []
  deriving Inhabited

def maxLines : Nat := 24
def maxTasks : Nat := 400

def init : State := {}

/-! ### parsing (same grammar as rt.rs) -/

def nat? (s : String) : Option Nat :=
  if s.length = 0 ∨ s.length > 6 ∨ !s.all Char.isDigit then none else s.toNat?

def int? (s : String) : Option Int :=
  match s.toList with
  | '-' :: r => (nat? (String.ofList r)).map fun n => -(Int.ofNat n)
  | _ => (nat? s).map Int.ofNat

def stripPre (p s : String) : Option String :=
  let pl := p.toList
  let sl := s.toList
  if sl.take pl.length == pl then some (String.ofList (sl.drop pl.length)) else none

def prefixedNat? (p s : String) : Option Nat := (stripPre p s).bind nat?

def viaOk (s : String) : Bool := s == "own" || s == "h1" || s == "h2"
def kindOk (s : String) : Bool :=
  ["fn", "fut", "pend", "yield", "sleep", "panic", "fnpanic", "block", "gate"].contains s

def showInt (i : Int) : String := if i < 0 then "-" ++ toString i.natAbs else toString i.natAbs

/-- value of `key=` in a log -/
def field (ws : List String) (key : String) : Option String :=
  ws.findSome? fun w => stripPre (key ++ "=") w

def commaList (s : String) : List String := if s == "-" then [] else s.splitOn ","

/-! ### running the model -/

def rep (n : Nat) (a : Act) : List Act := List.replicate n a

/-- `send`, returning the value the call returns in the model -/
def doSend (s : ActixNet.Rt.State) (i : Nat) (c : Cmd) : ActixNet.Rt.State × Bool :=
  let s' := step s (.send i c)
  (s', s'.rets.getLast? == some true && s'.rets.length == s.rets.length + 1)

def countTrue (l : List Bool) : Nat := (l.filter id).length

/-! ### C09 -/

/-- witness schedule for a C09 scenario with the stops issued in the given order -/
def runC09 (kinds : List String) (stops : List (String × Int)) (variant : Nat) :
    ActixNet.Rt.State × List Bool × List Bool :=
  let n := kinds.length
  let idx := List.range n
  -- creation: guard task, per-kind set-up
  let (s, early) := idx.foldl (fun (acc : ActixNet.Rt.State × List Bool) i =>
      let (s, early) := acc
      let s := step s (.newArb i)
      let (s, _) := doSend s i (.exec (9000 + i))
      match kinds[i]? with
      | some "early" =>
        let (s, r) := doSend s i .stop
        -- even variants: the early arbiter winds down and deregisters before the Exit
        let s := if variant % 2 == 0 then run s ([.runner i, .runner i, .close i, .fin i]) else s
        (s, early ++ [r])
      | some "done" =>
        -- stopped and joined before anything else happens: wound down, `Deregister` queued
        let (s, r) := doSend s i .stop
        (run s [.runner i, .runner i, .close i, .fin i], early ++ [r])
      | some "busy" =>
        let (s, _) := doSend s i (.exec (8000 + i))
        (run s [.runner i, .runner i, .task i, .task i], early)
      | _ => (s, early)) (ActixNet.Rt.init, [])
  let s := run s (rep (2 * n + 3) .ctrl)
  -- the stops, in the chosen queue order
  let s := stops.zipIdx.foldl (fun (s : ActixNet.Rt.State) (x : (String × Int) × Nat) =>
      let ((o, c), k) := x
      match prefixedNat? "arb:" o with
      | some a =>
        let (s, _) := doSend s a (.exec (7000 + k))
        let s := run s (rep 4 (.runner a) ++ rep 4 (.task a))
        step s (.sysSend c)
      | none => step s (.sysSend c)) s
  let s := run s (rep (2 * n + 5) .ctrl)
  -- every arbiter drains its channel, closes, deregisters; the controller handles that too
  let s := idx.foldl (fun (s : ActixNet.Rt.State) i => run s (rep 8 (.runner i) ++ [.close i, .fin i])) s
  let s := run s (rep (n + 1) .ctrl)
  let (s, post) := idx.foldl (fun (acc : ActixNet.Rt.State × List Bool) i =>
      let (s, r) := doSend acc.1 i (.exec (6000 + i))
      (s, acc.2 ++ [r])) (s, [])
  (s, early, post)

def verdictC09 (kinds : List String) (modeRun : Bool) (s : ActixNet.Rt.State) (early post : List Bool) : String :=
  let n := kinds.length
  let idx := List.range n
  let code := match runWithCode s with | some c => showInt c | none => "hang"
  let res := if !modeRun then "-" else match runResult s with
    | some .ok => "ok" | some (.err _) => "err" | none => "hang"
  let joinable := idx.filter fun i => kinds[i]? != some "dropped"
  let joined := joinable.filter fun i => joinReturns s i
  let ended := idx.filter fun i => (s.arbs i).ended
  s!"code={code} res={res} joins={joined.length}/{joinable.length} ended={ended.length}/{n} early={countTrue early}/{early.length} post={countTrue post}/{n}"

/-- the harness's normalisation of an observed C09 log -/
def observedC09 (kinds : List String) (log : List String) : Option String := do
  let code ← field log "code"
  let res ← field log "res"
  let joins := commaList (← field log "joins")
  let ended := commaList (← field log "ended")
  let early := commaList (← field log "early")
  let post := commaList (← field log "post")
  let n := kinds.length
  let joinable := (joins.filter (· != "-")).length
  some s!"code={code} res={res} joins={(joins.filter (· == "ok")).length}/{joinable} ended={(ended.filter (· == "1")).length}/{n} early={(early.filter (· == "1")).length}/{early.length} post={(post.filter (· == "1")).length}/{n}"

def observeC09 (st : State) (modeRun : Bool) (j : Nat) (log : List String) : String :=
  let stops := st.stops.map fun (o, c, _) => (o, c)
  let orders : List (List (String × Int)) :=
    match st.stops with
    | [_, (_, _, false)] => [stops, stops.reverse]
    | _ => [stops]
  let cands := orders.map fun o =>
    let (s, early, post) := runC09 st.kinds o j
    verdictC09 st.kinds modeRun s early post
  match observedC09 st.kinds log with
  | none => "not-a-model-behaviour: unreadable log"
  | some obs =>
    if cands.contains obs then obs
    else "not-a-model-behaviour: observed [" ++ obs ++ "] model allows [" ++ " | ".intercalate cands ++ "]"

/-! ### C10 -/

/-- number of commands runner must receive so that `k` executes have been received (never past a stop) -/
def recvCount : List Cmd → Nat → Nat
  | [], _ => 0
  | _, 0 => 0
  | .stop :: _, _ => 0
  | .exec _ :: r, k + 1 => 1 + recvCount r k

/-- arbiter `a` runs to its end: receives so that `k` tasks are spawned, starts them, drains, closes.
The system arbiter's futures may start after its loop has ended (they are the system thread's). -/
def block (s : ActixNet.Rt.State) (a k : Nat) : ActixNet.Rt.State :=
  let sent := (s.arbs a).sent
  if (s.arbs a).sys then
    run s (rep (sent.length + 1) (.runner a) ++ rep k (.task a) ++ [.close a])
  else
    let m := recvCount sent k
    run s (rep m (.runner a) ++ rep k (.task a) ++ rep (sent.length + 1) (.runner a) ++ [.close a])

/-- model id of command target `a` -/
def mid (sysIdx : Option Nat) (a : Nat) : Nat := if sysIdx == some a then sysArbId else a

def preCount (cmds : List C10Cmd) (a : Nat) : Nat :=
  let rec go : List C10Cmd → Nat → Nat
    | [], n => n
    | .spawn b _ :: r, n => if b = a then go r (n + 1) else go r n
    | .stop b :: r, n => if b = a then n else go r n
    | .wait _ :: r, n => go r n
  go cmds 0

structure W10 where
  s : ActixNet.Rt.State
  closed : List Nat := []
  rets : List Bool := []

def runC10 (narb : Nat) (sysIdx : Option Nat) (cmds : List C10Cmd) (obsRets : List Bool) (ks : List Nat) :
    ActixNet.Rt.State × List Bool × List Bool :=
  let idx := List.range narb
  let m := mid sysIdx
  -- `newArb` of the system arbiter's id is a no-op: it exists from `init` on
  let s0 := run (run ActixNet.Rt.init (idx.map fun a => .newArb (m a))) (rep (narb + 1) .ctrl)
  let closeIf (w : W10) (a : Nat) : W10 :=
    if w.closed.contains a then w else { w with s := block w.s (m a) (ks.getD a 0), closed := a :: w.closed }
  let (w, _) := cmds.foldl (fun (acc : W10 × List Bool) c =>
      let (w, obs) := acc
      match c with
      | .wait _ => (w, obs)
      | .spawn a t =>
        let w := if obs.head? == some false then closeIf w a else w
        let (s, r) := doSend w.s (m a) (.exec t)
        ({ w with s := s, rets := r :: w.rets }, obs.drop 1)
      | .stop a =>
        let w := if obs.head? == some false then closeIf w a else w
        let (s, r) := doSend w.s (m a) .stop
        ({ w with s := s, rets := r :: w.rets }, obs.drop 1)) (({ s := s0 } : W10), obsRets)
  let w := idx.foldl closeIf w
  let s := run w.s (idx.map (fun a => .fin (m a)) ++ rep narb .ctrl)
  let (s, post) := idx.foldl (fun (acc : ActixNet.Rt.State × List Bool) a =>
      let (s, r1) := doSend acc.1 (m a) (.exec 5000)
      let (s, r2) := doSend s (m a) .stop
      (s, acc.2 ++ [r1, r2])) (s, [])
  (s, w.rets.reverse, post)

def bits (l : List Bool) : String :=
  if l.isEmpty then "-" else String.ofList (l.map fun b => if b then '1' else '0')

def waitsOf (cmds : List C10Cmd) : List Nat :=
  cmds.filterMap fun c => match c with | .wait t => some t | _ => none

def nreal (st : State) : Nat := st.narb - (if st.sysIdx.isSome then 1 else 0)

def verdictC10 (st : State) (s : ActixNet.Rt.State) (rets post : List Bool) : String :=
  let idx := List.range st.narb
  let m := mid st.sysIdx
  let per := idx.map fun a => s!"a{a}:started={((s.arbs (m a)).started).length}/{preCount st.cmds a}"
  let ws := waitsOf st.cmds
  let wok := ws.filter fun t => (s.arbs (m (st.taskArb.getD t 0))).started.contains t
  let joined := idx.filter fun a => joinReturns s (m a)
  let sysgone := if st.sysIdx.isSome then (if (s.arbs sysArbId).gone then "1" else "0") else "-"
  " ".intercalate per ++
    s!" rets={bits rets} waits={wok.length}/{ws.length} joins={joined.length}/{nreal st} sysgone={sysgone} post={countTrue post}/{2 * st.narb} ids=ok once=ok late=0"

/-- `a0:t3` -/
def parseStart (w : String) : Option (Nat × Nat) :=
  match w.splitOn ":" with
  | [a, t] => match prefixedNat? "a" a, prefixedNat? "t" t with
    | some a, some t => some (a, t)
    | _, _ => none
  | _ => none

def observedC10 (st : State) (log : List String) : Option (String × List Bool × List (Nat × Nat)) := do
  let retsS ← field log "rets"
  let rets := if retsS == "-" then [] else retsS.toList.map (· == '1')
  let starts ← (commaList (← field log "starts")).mapM parseStart
  let waits := commaList (← field log "waits")
  let joins := commaList (← field log "joins")
  let sysgone ← field log "sysgone"
  let post := (commaList (← field log "post")).flatMap fun p => p.toList
  let ids ← field log "ids"
  let once ← field log "once"
  let late ← field log "late"
  let idx := List.range st.narb
  let per := idx.map fun a => s!"a{a}:started={(starts.filter (·.1 == a)).length}/{preCount st.cmds a}"
  let wok := waits.filter fun w => (w.splitOn ":").getLast? == some "1"
  let v := " ".intercalate per ++
    s!" rets={bits rets} waits={wok.length}/{waits.length} joins={(joins.filter (· == "ok")).length}/{nreal st} sysgone={sysgone} post={(post.filter (· == '1')).length}/{2 * st.narb} ids={ids} once={if once == "1" then "ok" else "bad"} late={late}"
  some (v, rets, starts)

def observeC10 (st : State) (log : List String) : String :=
  match observedC10 st log with
  | none => "not-a-model-behaviour: unreadable log"
  | some (obs, rets, starts) =>
    let idx := List.range st.narb
    let ks := idx.map fun a => (starts.filter (·.1 == a)).length
    let (s, mrets, post) := runC10 st.narb st.sysIdx st.cmds rets ks
    let v := verdictC10 st s mrets post
    let sameOrder := idx.all fun a =>
      (s.arbs (mid st.sysIdx a)).started == (starts.filter (·.1 == a)).map (·.2)
    if v == obs && sameOrder then v
    else if v == obs then
      "not-a-model-behaviour: start order " ++ ",".intercalate (starts.map fun (a, t) => s!"a{a}:t{t}") ++
        " but the model starts " ++ " ".intercalate (idx.map fun a => s!"a{a}:{(s.arbs (mid st.sysIdx a)).started}")
    else "not-a-model-behaviour: observed [" ++ obs ++ "] model allows [" ++ v ++ "]"

def identC10 (narb : Nat) (host : Option (Nat × Bool)) : String :=
  let idx := List.range narb
  let s := run ActixNet.Rt.init (idx.map .newArb)
  -- thread-locals: the system's thread after the Systems it hosted before (system ids 100.., their
  -- system arbiters 200..) and this one (id 0, arbiter `sysArbId`); arbiter `a`'s own thread
  let hist : List TAct := match host with
    | none => []
    | some (n, keep) => (List.range n).flatMap fun i =>
        [TAct.newSystem (100 + i) (200 + i)] ++ (if keep then [] else [TAct.dropRunner])
  let sysTls := TLS.run {} (hist ++ [.newSystem 0 sysArbId])
  let current (a : Nat) : Option Nat × Option Nat :=
    if a == sysArbId then (sysTls.handle, sysTls.current)
    else let t := TLS.run {} [.arbThread 0 a]; (t.handle, t.current)
  -- parent task on each arbiter and on the system arbiter; the child is sent through
  -- `Arbiter::current()`, i.e. to the arbiter the thread-local of the parent's thread names
  let s := (idx ++ [sysArbId]).foldl (fun s a =>
    let s := run s [.send a (.exec 0), .runner a, .task a]
    match (current a).1 with
    | some c => run s [.send c (.exec 1), .runner c, .task c]
    | none => s) s
  let ok := (idx ++ [sysArbId]).all fun a => (s.arbs a).started == [0, 1] && (current a).2 == some 0
  let s := idx.foldl (fun s a => run s [.send a .stop, .runner a, .close a, .fin a]) s
  let joined := idx.filter fun a => joinReturns s a
  let hostS := match host with
    | none => "0"
    | some (n, keep) => s!"{n}{if keep then "k" else "d"}"
  s!"ident={if ok then "ok" else "bad"} n={narb} host={hostS} joins={joined.length}/{narb}"

/-! ### the line protocol -/

def splitObserve (ws : List String) : List String × List String :=
  let head := ws.takeWhile (· != "||")
  (head, (ws.drop (head.length + 1)))

def step (st : State) (line : String) : State × String :=
  let ws := words line
  match ws with
  | "case" :: rest =>
    let proto := if rest[1]? == some "c09" then 9 else if rest[1]? == some "c10" then 10 else 0
    ({ proto := proto }, "ok")
  | _ =>
  if st.done then (st, "bad-op") else
  -- `go …` (no log available: nothing to check) is answered like the harness would only by accident;
  -- the orchestrator always sends the rewritten `observe … || log` line
  let (ws, log) := match ws with
    | "observe" :: r => let (h, l) := splitObserve r; ("go" :: h, l)
    | _ => (ws, [])
  match st.proto, ws with
  | 9, ["arb", k] =>
    if ["early", "dropped", "running", "busy", "done"].contains k && st.kinds.length < 3 && st.stops.isEmpty
        && st.align.isNone then
      ({ st with kinds := st.kinds ++ [k] }, s!"ok a{st.kinds.length}")
    else (st, "bad-op")
  | 9, ["align", k] =>
    match nat? k with
    | some k =>
      if k < st.kinds.length && st.stops.isEmpty && st.align.isNone then ({ st with align := some k }, "ok")
      else (st, "bad-op")
    | none => (st, "bad-op")
  | 9, "stop" :: o :: c :: rest =>
    let originOk := o == "sys-pre" || o == "sys-task" || o == "foreign" ||
      (match prefixedNat? "arb:" o with
       | some k => k < st.kinds.length && st.kinds[k]? != some "early" && st.kinds[k]? != some "done"
       | none => false)
    let seq? : Option Bool := match rest with
      | [] => some true | ["seq"] => some true | ["race"] => some false | _ => none
    match originOk, int? c, seq? with
    | true, some code, some seq =>
      if st.stops.length ≥ 2 then (st, "bad-op")
      else if st.stops.length == 1 && seq && o == "sys-pre" && (st.stops.head?.map (·.1)) == some "sys-task" then
        (st, "bad-op")
      else ({ st with stops := st.stops ++ [(o, code, seq)] }, "ok")
    | _, _, _ => (st, "bad-op")
  | 9, ["go", m, j] =>
    match (m == "run" || m == "code"), prefixedNat? "j=" j with
    | true, some j =>
      if st.stops.isEmpty then (st, "bad-op")
      else ({ st with done := true }, observeC09 st (m == "run") j log)
    | _, _ => (st, "bad-op")
  | 10, ["host", n, mode] =>
    match nat? n, (mode == "kept" || mode == "dropped") with
    | some n, true =>
      if 1 ≤ n && n ≤ 3 && st.host.isNone && st.narb == 0 && st.nlines == 0 then
        ({ st with host := some (n, mode == "kept") }, "ok")
      else (st, "bad-op")
    | _, _ => (st, "bad-op")
  | 10, ["arb"] =>
    if nreal st ≥ 2 || st.nlines > 0 then (st, "bad-op")
    else ({ st with narb := st.narb + 1, stopped := st.stopped ++ [false] }, s!"ok a{st.narb}")
  | 10, ["sysarb"] =>
    if st.sysIdx.isSome || st.nlines > 0 then (st, "bad-op")
    else ({ st with narb := st.narb + 1, sysIdx := some st.narb, stopped := st.stopped ++ [false] }, s!"ok a{st.narb}")
  | 10, ["spawn", a, via, kind] =>
    match nat? a, viaOk via, kindOk kind with
    | some a, true, true =>
      if a ≥ st.narb || st.nlines ≥ maxLines || st.ntask ≥ maxTasks then (st, "bad-op")
      else ({ st with cmds := st.cmds ++ [.spawn a st.ntask], ntask := st.ntask + 1, nlines := st.nlines + 1,
                      taskArb := st.taskArb ++ [a],
                      taskGate := st.taskGate ++ [if kind == "gate" then some false else none] }, s!"ok t{st.ntask}")
    | _, _, _ => (st, "bad-op")
  | 10, ["spawnn", a, via, kind, n] =>
    match nat? a, viaOk via, kindOk kind, nat? n with
    | some a, true, true, some n =>
      if a ≥ st.narb || st.nlines ≥ maxLines || n < 2 || n > 300 || st.ntask + n > maxTasks || kind == "gate" then
        (st, "bad-op")
      else
        let ts := (List.range n).map (· + st.ntask)
        ({ st with cmds := st.cmds ++ ts.map (fun t => .spawn a t), ntask := st.ntask + n, nlines := st.nlines + 1,
                   taskArb := st.taskArb ++ List.replicate n a,
                   taskGate := st.taskGate ++ List.replicate n none }, s!"ok t{st.ntask}..t{st.ntask + n - 1}")
    | _, _, _, _ => (st, "bad-op")
  | 10, ["stop", a, via] =>
    match nat? a, viaOk via with
    | some a, true =>
      if a ≥ st.narb || st.nlines ≥ maxLines then (st, "bad-op")
      else ({ st with cmds := st.cmds ++ [.stop a], nlines := st.nlines + 1, stopped := st.stopped.set a true }, "ok")
    | _, _ => (st, "bad-op")
  | 10, ["wait", t] =>
    match prefixedNat? "t" t with
    | some t =>
      let arb := st.taskArb.getD t 0
      -- a closed gate sent earlier to the same target holds everything behind it
      let held := (List.range t).any fun g => st.taskArb.getD g 0 == arb && st.taskGate.getD g none == some false
      if t ≥ st.ntask || st.stopped.getD arb true || st.nlines ≥ maxLines || held then (st, "bad-op")
      else ({ st with cmds := st.cmds ++ [.wait t], nlines := st.nlines + 1 }, "ok")
    | none => (st, "bad-op")
  | 10, ["open", t] =>
    match prefixedNat? "t" t with
    | some t =>
      if t ≥ st.ntask || st.taskGate.getD t none != some false || st.nlines ≥ maxLines then (st, "bad-op")
      else ({ st with nlines := st.nlines + 1, taskGate := st.taskGate.set t (some true) }, "ok")
    | none => (st, "bad-op")
  | 10, ["go", j] =>
    match prefixedNat? "j=" j with
    | some _ =>
      if st.narb == 0 || st.stopped.any (!·) then (st, "bad-op")
      else ({ st with done := true }, observeC10 st log)
    | none => (st, "bad-op")
  | 10, ["ident"] =>
    if st.sysIdx.isSome || st.nlines > 0 then (st, "bad-op")
    else ({ st with done := true }, identC10 st.narb st.host)
  | 10, ["blockon", v, p, x] =>
    match nat? p, int? x with
    | some p, some x =>
      if !(v == "rt" || v == "sys" || v == "spawn") || p > 1000 then (st, "bad-op")
      else
        -- `spawn`: the outer future additionally waits for the JoinHandle of the spawned one
        let f : Fut Int := { pend := if v == "spawn" then p + 1 else p, out := x }
        (st, match blockOn f with | some o => s!"out={showInt o}" | none => "hang")
    | _, _ => (st, "bad-op")
  | _, _ => (st, "bad-op")

end Driver.Rt
