import ActixNet.Model.Utf8
/-! Helper lemmas for the UTF-8 model (property theorems are in `Props/C20.lean`). -/
namespace ActixNet.Utf8

theorem wf3_cont {b0 b1 b2} (h : wf3 b0 b1 b2 = true) : isCont b1 = true ∧ isCont b2 = true := by
  simp only [wf3, isCont, Bool.and_eq_true, decide_eq_true_eq] at *
  obtain ⟨⟨_, _, h1, h2⟩, h3⟩ := h
  refine ⟨⟨?_, ?_⟩, h3⟩ <;> (split at h1 <;> split at h2 <;> omega)

theorem wf4_cont {b0 b1 b2 b3} (h : wf4 b0 b1 b2 b3 = true) :
    isCont b1 = true ∧ isCont b2 = true ∧ isCont b3 = true := by
  simp only [wf4, isCont, Bool.and_eq_true, decide_eq_true_eq] at *
  obtain ⟨⟨⟨_, _, h1, h2⟩, h3⟩, h4⟩ := h
  refine ⟨⟨?_, ?_⟩, h3, h4⟩ <;> (split at h1 <;> split at h2 <;> omega)

/-- one well-formed UTF-8 sequence -/
inductive Scalar : List Nat → Prop
  | one {b0} : wf1 b0 = true → Scalar [b0]
  | two {b0 b1} : wf2 b0 b1 = true → Scalar [b0, b1]
  | three {b0 b1 b2} : wf3 b0 b1 b2 = true → Scalar [b0, b1, b2]
  | four {b0 b1 b2 b3} : wf4 b0 b1 b2 b3 = true → Scalar [b0, b1, b2, b3]

/-- a concatenation of well-formed sequences: the definition of "valid UTF-8" -/
inductive Wf : List Nat → Prop
  | nil : Wf []
  | cons {s r} : Scalar s → Wf r → Wf (s ++ r)

theorem Scalar.pos {s} (h : Scalar s) : 0 < s.length := by cases h <;> simp
theorem Scalar.le4 {s} (h : Scalar s) : s.length ≤ 4 := by cases h <;> simp

theorem eat_spec (bs r : List Nat) (h : eat bs = some r) : ∃ s, Scalar s ∧ bs = s ++ r := by
  unfold eat at h
  split at h
  · simp at h
  · rename_i b0 t
    split at h
    · simp at h; exact ⟨[b0], .one ‹_›, by simp [← h]⟩
    · split at h
      · simp at h
      · rename_i b1 t1
        split at h
        · simp at h; exact ⟨[b0, b1], .two ‹_›, by simp [← h]⟩
        · split at h
          · simp at h
          · rename_i b2 t2
            split at h
            · simp at h; exact ⟨[b0, b1, b2], .three ‹_›, by simp [← h]⟩
            · split at h
              · simp at h
              · rename_i b3 t3
                split at h
                · simp at h; exact ⟨[b0, b1, b2, b3], .four ‹_›, by simp [← h]⟩
                · simp at h

theorem eat_scalar {s} (hs : Scalar s) (r : List Nat) : eat (s ++ r) = some r := by
  cases hs with
  | one h => simp [eat, h]
  | two h =>
    rename_i b0 b1
    have h1 : wf1 b0 = false := by
      simp only [wf2, wf1, Bool.and_eq_true, decide_eq_true_eq] at *; simp; omega
    simp [eat, h, h1]
  | three h =>
    rename_i b0 b1 b2
    have h1 : wf1 b0 = false := by
      simp only [wf3, wf1, Bool.and_eq_true, decide_eq_true_eq] at *; simp; omega
    have h2 : wf2 b0 b1 = false := by
      simp only [wf3, wf2, Bool.and_eq_true, decide_eq_true_eq] at *
      simp; intro _ _; omega
    simp [eat, h, h1, h2]
  | four h =>
    rename_i b0 b1 b2 b3
    have h1 : wf1 b0 = false := by
      simp only [wf4, wf1, Bool.and_eq_true, decide_eq_true_eq] at *; simp; omega
    have h2 : wf2 b0 b1 = false := by
      simp only [wf4, wf2, Bool.and_eq_true, decide_eq_true_eq] at *
      simp; intro _ _; omega
    have h3 : wf3 b0 b1 b2 = false := by
      simp only [wf4, wf3, Bool.and_eq_true, decide_eq_true_eq] at *
      simp; intro _ _; omega
    simp [eat, h, h1, h2, h3]

/-- every interior position of a scalar holds a continuation byte -/
theorem scalar_inner (s : List Nat) (hs : Scalar s) (i : Nat) (h0 : 0 < i) (hi : i < s.length) :
    ∃ b, s[i]? = some b ∧ isCont b = true := by
  cases hs with
  | one h => simp at hi; omega
  | two h =>
    simp only [wf2, Bool.and_eq_true] at h
    have : i = 1 := by simp at hi; omega
    subst this; exact ⟨_, rfl, h.2⟩
  | three h =>
    have ⟨c1, c2⟩ := wf3_cont h
    have : i = 1 ∨ i = 2 := by simp at hi; omega
    rcases this with rfl | rfl
    · exact ⟨_, rfl, c1⟩
    · exact ⟨_, rfl, c2⟩
  | four h =>
    have ⟨c1, c2, c3⟩ := wf4_cont h
    have : i = 1 ∨ i = 2 ∨ i = 3 := by simp at hi; omega
    rcases this with rfl | rfl | rfl
    · exact ⟨_, rfl, c1⟩
    · exact ⟨_, rfl, c2⟩
    · exact ⟨_, rfl, c3⟩

/-- the first byte of a scalar is not a continuation byte -/
theorem scalar_head {s} (hs : Scalar s) : ∃ b t, s = b :: t ∧ isCont b = false := by
  cases hs with
  | one h => exact ⟨_, _, rfl, by simp only [wf1, isCont, decide_eq_true_eq] at *; simp; omega⟩
  | two h => exact ⟨_, _, rfl, by
      simp only [wf2, isCont, Bool.and_eq_true, decide_eq_true_eq] at *; simp; omega⟩
  | three h => exact ⟨_, _, rfl, by
      simp only [wf3, isCont, Bool.and_eq_true, decide_eq_true_eq] at *; simp; omega⟩
  | four h => exact ⟨_, _, rfl, by
      simp only [wf4, isCont, Bool.and_eq_true, decide_eq_true_eq] at *; simp; omega⟩

theorem validF_of_wf {bs} (h : Wf bs) : ∀ fuel, bs.length ≤ fuel → validF fuel bs = true := by
  induction h with
  | nil => intro fuel _; cases fuel <;> simp [validF]
  | @cons s r hs _ ih =>
    intro fuel hf
    have hp := hs.pos
    cases fuel with
    | zero => rw [List.length_append] at hf; omega
    | succ f =>
      obtain ⟨b, t, rfl, _⟩ := scalar_head hs
      have he := eat_scalar hs r
      simp only [List.cons_append] at he ⊢
      rw [validF, he]
      apply ih; simp at hf ⊢; omega

theorem wf_of_validF : ∀ fuel bs, validF fuel bs = true → Wf bs := by
  intro fuel
  induction fuel with
  | zero => intro bs h; cases bs with
    | nil => exact .nil
    | cons => simp [validF] at h
  | succ f ih =>
    intro bs h
    cases bs with
    | nil => exact .nil
    | cons b t =>
      rw [validF] at h
      split at h
      · simp at h
      · rename_i r he
        obtain ⟨s, hs, hbs⟩ := eat_spec _ _ he
        rw [hbs]; exact .cons hs (ih _ h)

theorem valid_iff_wf (bs : List Nat) : valid bs = true ↔ Wf bs :=
  ⟨wf_of_validF _ _, fun h => validF_of_wf h _ (Nat.le_refl _)⟩

theorem Wf.append {a b} (ha : Wf a) (hb : Wf b) : Wf (a ++ b) := by
  induction ha with
  | nil => simpa
  | cons hs _ ih => rw [List.append_assoc]; exact .cons hs ih

theorem isBoundary_zero (bs) : isBoundary bs 0 = true ∨ ∃ b t, bs = b :: t ∧ isCont b = true := by
  cases bs with
  | nil => left; simp [isBoundary]
  | cons b t =>
    cases h : isCont b
    · left; simp [isBoundary, h]
    · right; exact ⟨b, t, rfl, h⟩

/-- splitting valid UTF-8 at a char boundary gives two valid halves -/
theorem wf_split {bs} (h : Wf bs) : ∀ i, isBoundary bs i = true → Wf (bs.take i) ∧ Wf (bs.drop i) := by
  induction h with
  | nil => intro i _; simp; exact .nil
  | @cons s r hs hr ih =>
    intro i hb
    by_cases h0 : i = 0
    · subst h0; simp; exact ⟨.nil, .cons hs hr⟩
    · by_cases hlt : i < s.length
      · -- interior of a scalar: not a boundary
        exfalso
        obtain ⟨b, hb1, hb2⟩ := scalar_inner s hs i (by omega) hlt
        have hd : (s ++ r).drop i = s.drop i ++ r := by
          rw [List.drop_append_of_le_length (by omega)]
        have hsd : s.drop i = b :: s.drop (i + 1) := by
          have hget : s[i]'hlt = b := by
            rw [List.getElem?_eq_getElem hlt] at hb1; exact Option.some.inj hb1
          rw [← hget]; exact List.drop_eq_getElem_cons hlt
        simp [isBoundary, hd, hsd, hb2] at hb
      · have hge : s.length ≤ i := by omega
        have hd : (s ++ r).drop i = r.drop (i - s.length) := by
          rw [List.drop_append]; simp [List.drop_eq_nil_of_le hge]
        have ht : (s ++ r).take i = s ++ r.take (i - s.length) := by
          rw [List.take_append]; simp [List.take_of_length_le hge]
        have hb' : isBoundary r (i - s.length) = true := by
          unfold isBoundary at hb ⊢
          rw [hd] at hb
          cases hdr : r.drop (i - s.length) with
          | nil => rw [hdr] at hb; simp only [List.length_append, decide_eq_true_eq] at hb ⊢; omega
          | cons => rw [hdr] at hb; simpa using hb
        obtain ⟨h1, h2⟩ := ih _ hb'
        rw [ht, hd]; exact ⟨.cons hs h1, h2⟩

/-! ### `Display` (`Formatter::pad`) -/

/-- all bytes after the first of a scalar are continuation bytes -/
theorem scalar_tail_cont {s} (hs : Scalar s) : ∃ b t, s = b :: t ∧ isCont b = false ∧ ∀ x ∈ t, isCont x = true := by
  obtain ⟨b, t, rfl, hb⟩ := scalar_head hs
  refine ⟨b, t, rfl, hb, ?_⟩
  intro x hx
  obtain ⟨i, hi, hget⟩ := List.getElem_of_mem hx
  obtain ⟨y, hy, hc⟩ := scalar_inner (b :: t) hs (i + 1) (by omega) (by simpa using hi)
  simp only [List.getElem?_cons_succ] at hy
  rw [List.getElem?_eq_getElem hi, hget] at hy
  cases hy; exact hc

theorem takeChars_cont (p : Nat) (t r : List Nat) (h : ∀ x ∈ t, isCont x = true) :
    takeChars p (t ++ r) = t ++ takeChars p r := by
  induction t with
  | nil => rfl
  | cons x xs ih =>
    have hx : isCont x = true := h x List.mem_cons_self
    cases p <;> simp [takeChars, hx, ih (fun y hy => h y (List.mem_cons_of_mem _ hy))]

/-- truncating valid UTF-8 to `p` chars keeps whole chars: the result is valid UTF-8 and a prefix -/
theorem takeChars_wf {bs} (h : Wf bs) : ∀ p, Wf (takeChars p bs) ∧ ∃ r, bs = takeChars p bs ++ r := by
  induction h with
  | nil => intro p; cases p <;> exact ⟨Wf.nil, [], rfl⟩
  | @cons s r hs _ ih =>
    intro p
    obtain ⟨b, t, rfl, hb, ht⟩ := scalar_tail_cont hs
    cases p with
    | zero =>
      refine ⟨by simp [takeChars, hb]; exact Wf.nil, b :: t ++ r, by simp [takeChars, hb]⟩
    | succ p =>
      have e : takeChars (p + 1) (b :: t ++ r) = (b :: t) ++ takeChars p r := by
        simp only [List.cons_append, takeChars, hb, Bool.false_eq_true, ↓reduceIte]
        rw [takeChars_cont p t r ht]
      obtain ⟨w, q, hq⟩ := ih p
      rw [e]
      exact ⟨Wf.cons hs w, q, by rw [List.append_assoc]; congr 1⟩

theorem wf_replicate_ascii (n f : Nat) (hf : f ≤ 0x7F) : Wf (List.replicate n f) := by
  induction n with
  | zero => exact Wf.nil
  | succ n ih =>
    have : List.replicate (n + 1) f = [f] ++ List.replicate n f := rfl
    rw [this]
    exact Wf.cons (Scalar.one (by simp [wf1, hf])) ih

theorem truncTo_wf {bs} (h : Wf bs) (p : Option Nat) : Wf (truncTo bs p) := by
  cases p with
  | none => exact h
  | some p => exact (takeChars_wf h p).1

theorem padTo_wf {s} (hs : Wf s) (w : Nat) (a : Align) (f : Nat) (hf : f ≤ 0x7F) : Wf (padTo s w a f) := by
  unfold padTo
  split
  · exact hs
  · cases a with
    | left => exact Wf.append hs (wf_replicate_ascii _ f hf)
    | right => exact Wf.append (wf_replicate_ascii _ f hf) hs
    | center => exact Wf.append (Wf.append (wf_replicate_ascii _ f hf) hs) (wf_replicate_ascii _ f hf)

/-- `Display` output is valid UTF-8 for every width, precision, alignment and ASCII fill -/
theorem fmtPad_wf {bs} (h : Wf bs) (w p : Option Nat) (a : Align) (f : Nat) (hf : f ≤ 0x7F) : Wf (fmtPad bs w p a f) := by
  unfold fmtPad
  cases w with
  | none => exact truncTo_wf h p
  | some w => exact padTo_wf (truncTo_wf h p) w a f hf

/-- without width and precision `Display` writes the string itself -/
theorem fmtPad_plain (bs : List Nat) (a : Align) (f : Nat) : fmtPad bs none none a f = bs := rfl

/-- a precision at least the number of chars does not truncate -/
theorem takeChars_all : ∀ (bs : List Nat) (p : Nat), charCount bs ≤ p → takeChars p bs = bs := by
  intro bs; induction bs with
  | nil => intro p _; cases p <;> rfl
  | cons b t ih =>
    intro p hp
    by_cases hb : isCont b = true
    · have hc : charCount (b :: t) = charCount t := by simp [charCount, hb]
      have e : takeChars p (b :: t) = b :: takeChars p t := by cases p <;> simp [takeChars, hb]
      rw [e, ih p (by omega)]
    · have hb' : isCont b = false := by simpa using hb
      have : charCount (b :: t) = charCount t + 1 := by simp [charCount, hb']
      cases p with
      | zero => omega
      | succ p => simp [takeChars, hb', ih p (by omega)]


end ActixNet.Utf8
