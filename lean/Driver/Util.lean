/-! Shared helpers for the line-protocol drivers (core only). -/
namespace Driver

def hexDigit (c : Char) : Option Nat :=
  if '0' ≤ c ∧ c ≤ '9' then some (c.toNat - '0'.toNat)
  else if 'a' ≤ c ∧ c ≤ 'f' then some (c.toNat - 'a'.toNat + 10)
  else if 'A' ≤ c ∧ c ≤ 'F' then some (c.toNat - 'A'.toNat + 10)
  else none

/-- `-` is the empty byte string; otherwise an even number of hex digits -/
def parseHex (s : String) : Option (List Nat) :=
  if s == "-" then some [] else
  let rec go : List Char → List Nat → Option (List Nat)
    | [], acc => some acc.reverse
    | [_], _ => none
    | a :: b :: t, acc =>
      match hexDigit a, hexDigit b with
      | some x, some y => go t ((16 * x + y) :: acc)
      | _, _ => none
  go s.toList []

def hexChar (n : Nat) : Char := if n < 10 then Char.ofNat (48 + n) else Char.ofNat (87 + n)

def toHex (bs : List Nat) : String :=
  if bs.isEmpty then "-" else
  String.ofList (bs.flatMap fun b => [hexChar (b / 16), hexChar (b % 16)])

def words (line : String) : List String :=
  (line.trimAscii.toString.splitOn " ").filter (· ≠ "")

/-- generic stdin loop: `step` maps (state, line) to (state, output line) -/
partial def loop {σ : Type} (h : IO.FS.Stream) (out : IO.FS.Stream) (step : σ → String → σ × String) (s : σ) : IO Unit := do
  let line ← h.getLine
  if line.isEmpty then return ()
  let (s', o) := step s line
  out.putStrLn o
  loop h out step s'

end Driver
