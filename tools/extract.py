#!/usr/bin/env python3
"""
T1 translator: anchored Rust kernels in /repo  ->  lean/ActixNet/Generated/Src.lean

Each *span* names a function (file + optional `impl` context + fn name) or a constant in the Rust
source.  The body is tokenised and parsed with a small recursive-descent parser for a whitelisted
expression/statement subset, then symbolically executed into a pure Lean expression:

  * `let x = e;`, `x = e;`, `x op= e;`, `if c { .. } else { .. }` (statement and expression),
    tuples, blocks, integer literals, `as` casts (identity on Nat), arithmetic / comparison /
    boolean / bit operators, `panic!` (=> `none`), `X.iter().any(|a| e)`, `matches!`-free
    `e.kind() == io::ErrorKind::K` disjunctions, `Duration::from_millis/from_secs(lit)`.
  * effects are mapped by a per-span table from normalised receiver paths to state variables
    (`self.count.get()` -> read `count`; `self.count.set(e)` -> write `count`; `self.task.wake()`
    -> write `woke := true`, ...).

Anything outside the subset makes the span FAIL (reported as a broken `translate:<span>`
obligation); the generated file then lacks that definition and every theorem that depends on it
stops compiling.  The output is written only when it changed (keeps `lake build` incremental).
"""
import argparse, hashlib, json, os, re, sys


class Fail(Exception):
    pass


# ------------------------------------------------------------------------------------------------
# lexer
# ------------------------------------------------------------------------------------------------
TOK = re.compile(r"""
    (?P<ws>\s+|//[^\n]*|/\*.*?\*/)
  | (?P<str>b?"(?:\\.|[^"\\])*")
  | (?P<life>'[A-Za-z_]\w*(?!'))
  | (?P<chr>b?'(?:\\.|[^'\\])')
  | (?P<num>0x[0-9a-fA-F_]+(?:[iu](?:8|16|32|64|128|size))?|\d[\d_]*(?:[iu](?:8|16|32|64|128|size))?)
  | (?P<id>[A-Za-z_]\w*!?)
  | (?P<op><<=|>>=|\.\.=|\.\.\.|::|->|=>|==|!=|<=|>=|&&|\|\||<<|>>|\+=|-=|\*=|/=|%=|&=|\|=|\^=|\.\.|[-+*/%&|^!<>=.,;:(){}\[\]?#@])
""", re.X | re.S)


def lex(src):
    out, i = [], 0
    while i < len(src):
        m = TOK.match(src, i)
        if not m:
            raise Fail("cannot tokenise at: %r" % src[i:i + 30])
        i = m.end()
        k = m.lastgroup
        if k == "ws":
            continue
        out.append((k, m.group(k)))
    return out


# ------------------------------------------------------------------------------------------------
# locating spans
# ------------------------------------------------------------------------------------------------
def strip_comments_keep_len(src):
    def blank(m):
        return re.sub(r"[^\n]", " ", m.group(0))
    src = re.sub(r"//[^\n]*", blank, src)
    return re.sub(r"/\*.*?\*/", blank, src, flags=re.S)


def match_brace(src, i):
    assert src[i] == "{"
    depth, j, n = 0, i, len(src)
    while j < n:
        c = src[j]
        if c == '"':
            j += 1
            while j < n and src[j] != '"':
                j += 2 if src[j] == "\\" else 1
        elif c == "'" and j + 2 < n and (src[j + 2] == "'" or (src[j + 1] == "\\" and "'" in src[j + 2:j + 5])):
            j = src.index("'", j + 2 if src[j + 1] != "\\" else j + 3)
        elif c == "{":
            depth += 1
        elif c == "}":
            depth -= 1
            if depth == 0:
                return j
        j += 1
    raise Fail("unbalanced braces")


def find_fn(src, name, impl=None):
    s = strip_comments_keep_len(src)
    region = (0, len(s))
    if impl:
        if " for " in impl:
            pat = r"\bimpl(?:<[^>{]*>)?\s+" + r"\s+".join(re.escape(w) for w in impl.split()) + r"\b[^{;]*\{"
        else:
            pat = r"\bimpl(?:<[^>{]*>)?\s+%s\b[^{;]*\{" % re.escape(impl)
        m = re.search(pat, s)
        if not m:
            raise Fail("impl %s not found" % impl)
        region = (m.end() - 1, match_brace(s, m.end() - 1))
    m = re.search(r"\bfn\s+%s\s*(?:<[^>]*>)?\s*\(" % re.escape(name), s[region[0]:region[1]])
    if not m:
        raise Fail("fn %s not found" % name)
    start = region[0] + m.start()
    # the body starts at the first `{` AFTER the parameter list (a parameter may be a struct pattern with braces)
    i = region[0] + m.end() - 1
    depth = 0
    while i < len(s):
        if s[i] == "(":
            depth += 1
        elif s[i] == ")":
            depth -= 1
            if depth == 0:
                break
        i += 1
    b = s.index("{", i)
    e = match_brace(s, b)
    return s[start:b], s[b:e + 1]


def find_const(src, name):
    s = strip_comments_keep_len(src)
    m = re.search(r"\bconst\s+%s\s*:\s*[^=]+=\s*([^;]+);" % re.escape(name), s)
    if not m:
        raise Fail("const %s not found" % name)
    return m.group(1)


# ------------------------------------------------------------------------------------------------
# parser -> AST (tuples)
# ------------------------------------------------------------------------------------------------
BINPREC = [
    ("||",), ("&&",), ("==", "!=", "<", ">", "<=", ">="), ("|",), ("^",), ("&",), ("<<", ">>"),
    ("+", "-"), ("*", "/", "%"),
]


class P:
    def __init__(self, toks):
        self.t, self.i = toks, 0

    def peek(self, k=0):
        return self.t[self.i + k][1] if self.i + k < len(self.t) else None

    def kind(self):
        return self.t[self.i][0] if self.i < len(self.t) else None

    def eat(self, s=None):
        if self.i >= len(self.t):
            raise Fail("unexpected end of input")
        v = self.t[self.i][1]
        if s is not None and v != s:
            raise Fail("expected %r, found %r" % (s, v))
        self.i += 1
        return v

    # block: '{' stmt* expr? '}'
    def block(self):
        self.eat("{")
        stmts, tail = [], None
        while self.peek() != "}":
            if self.peek() == ";":
                self.eat()
                continue
            if self.peek() == "return":
                # early return: `return e;` — desugared below into the else-less `if` that guards it
                self.eat()
                e = None if self.peek() in (";", "}") else self.expr()
                if self.peek() == ";":
                    self.eat()
                stmts.append(("return", e))
                continue
            if self.peek() == "let":
                self.eat()
                if self.peek() == "mut":
                    self.eat()
                pat = self.pattern()
                if self.peek() == ":":
                    self.eat()
                    self.skip_type()
                self.eat("=")
                e = self.expr()
                self.eat(";")
                stmts.append(("let", pat, e))
                continue
            e = self.expr()
            if self.peek() in ("=", "+=", "-=", "|=", "&=", "^=", "*=", "<<=", ">>="):
                op = self.eat()
                r = self.expr()
                if self.peek() == ";":
                    self.eat()
                stmts.append(("assign", op, e, r))
                continue
            if self.peek() == ";":
                self.eat()
                stmts.append(("expr", e))
            elif self.peek() == "}":
                tail = e
            elif e[0] in ("if", "block", "match"):
                stmts.append(("expr", e))
            else:
                raise Fail("unexpected token %r after expression" % self.peek())
        self.eat("}")
        return self.desugar_returns(stmts, tail)

    @staticmethod
    def desugar_returns(stmts, tail):
        """`{ a; if c { b; return x; } d; y }`  ==>  `{ a; if c { b; x } else { d; y } }` (4th field: the block always returns)"""
        returns = False
        if stmts and stmts[-1][0] == "return" and tail is None:
            tail = stmts[-1][1]
            stmts = stmts[:-1]
            returns = True
        for i, st in enumerate(stmts):
            if st[0] == "return":
                raise Fail("statements after an unconditional `return`")
            if st[0] == "expr" and st[1][0] == "if" and st[1][3] is None and len(st[1][2]) > 3 and st[1][2][3]:
                rest = P.desugar_returns(stmts[i + 1:], tail)
                c, a = st[1][1], st[1][2]
                return ("block", stmts[:i], ("if", c, a, rest), returns or rest[3])
        if tail is not None and tail[0] == "if" and tail[3] is not None:
            both = len(tail[2]) > 3 and tail[2][3] and tail[3][0] == "block" and len(tail[3]) > 3 and tail[3][3]
            returns = returns or bool(both)
        return ("block", stmts, tail, returns)

    def skip_type(self):
        depth = 0
        while True:
            p = self.peek()
            if p in ("=", ";", ")", ",") and depth == 0:
                return
            if p in ("<", "(", "["):
                depth += 1
            if p in (">", ")", "]"):
                depth -= 1
            self.eat()

    def pattern(self):
        if self.peek() == "(":
            self.eat()
            xs = []
            while self.peek() != ")":
                xs.append(self.pattern())
                if self.peek() == ",":
                    self.eat()
            self.eat(")")
            return ("ptuple", xs)
        if self.peek() == "mut":
            self.eat()
        return ("pvar", self.eat())

    def expr(self, lvl=0):
        if lvl == len(BINPREC):
            return self.cast()
        l = self.expr(lvl + 1)
        while self.peek() in BINPREC[lvl] and not (self.peek() in ("|", "||") and False):
            op = self.eat()
            r = self.expr(lvl + 1)
            l = ("bin", op, l, r)
        return l

    def cast(self):
        e = self.unary()
        while self.peek() == "as":
            self.eat()
            ty = self.eat()
            e = ("cast", e, ty)
        return e

    def unary(self):
        p = self.peek()
        if p in ("!", "-", "*"):
            self.eat()
            return ("un", p, self.unary())
        if p == "&":
            self.eat()
            if self.peek() == "mut":
                self.eat()
            return self.unary()
        return self.postfix()

    def args(self):
        self.eat("(")
        xs = []
        while self.peek() != ")":
            xs.append(self.expr())
            if self.peek() == ",":
                self.eat()
        self.eat(")")
        return xs

    def postfix(self):
        e = self.primary()
        while True:
            p = self.peek()
            if p == ".":
                self.eat()
                name = self.eat()
                if self.peek() == "::":  # turbofish
                    self.eat()
                    self.eat("<")
                    d = 1
                    while d:
                        t = self.eat()
                        d += (t == "<") - (t == ">")
                if self.peek() == "(":
                    e = ("mcall", e, name, self.args())
                else:
                    e = ("field", e, name)
            elif p == "(":
                e = ("call", e, self.args())
            elif p == "[":
                self.eat()
                ix = self.expr()
                self.eat("]")
                e = ("index", e, ix)
            elif p == "?":
                self.eat()
            else:
                return e

    def primary(self):
        k, p = self.kind(), self.peek()
        if k == "num":
            self.eat()
            txt = re.sub(r"[iu](8|16|32|64|128|size)$", "", p).replace("_", "")
            return ("num", int(txt, 0))
        if k == "str":
            self.eat()
            return ("str", p)
        if p == "(":
            self.eat()
            if self.peek() == ")":
                self.eat()
                return ("tuple", [])
            e = self.expr()
            if self.peek() == ",":
                xs = [e]
                while self.peek() == ",":
                    self.eat()
                    if self.peek() == ")":
                        break
                    xs.append(self.expr())
                self.eat(")")
                return ("tuple", xs)
            self.eat(")")
            return ("paren", e)
        if p == "{":
            return self.block()
        if p == "if":
            self.eat()
            c = self.expr()
            a = self.block()
            b = None
            if self.peek() == "else":
                self.eat()
                b = self.primary() if self.peek() == "if" else self.block()
            return ("if", c, a, b)
        if p == "|":
            self.eat()
            params = []
            while self.peek() != "|":
                params.append(self.eat())
                if self.peek() == ",":
                    self.eat()
            self.eat("|")
            return ("closure", params, self.expr())
        if p == "||":
            self.eat()
            return ("closure", [], self.expr())
        if p == "match":
            self.eat()
            scrut = self.expr()
            self.eat("{")
            arms = []
            while self.peek() != "}":
                pats = [self.match_pat()]
                while self.peek() == "|":
                    self.eat()
                    pats.append(self.match_pat())
                self.eat("=>")
                body = self.expr()
                if self.peek() == ",":
                    self.eat()
                arms.append((pats, body))
            self.eat("}")
            return ("match", scrut, arms)
        if k == "id":
            name = self.eat()
            if name.endswith("!"):
                # macro call: panic!/unreachable!/… -> ("macro", name); args skipped
                d = 0
                while True:
                    t = self.eat()
                    d += (t in "([{") - (t in ")]}")
                    if d == 0:
                        break
                return ("macro", name)
            path = [name]
            while self.peek() == "::":
                self.eat()
                if self.peek() == "<":
                    d = 0
                    while True:
                        t = self.eat()
                        d += (t == "<") - (t == ">")
                        if d == 0:
                            break
                    continue
                path.append(self.eat())
            return ("path", path)
        raise Fail("unsupported token %r" % p)

    def match_pat(self):
        if self.peek() == "_":
            self.eat()
            return ("wild",)
        if self.peek() == "Some" and self.peek(1) == "(":
            self.eat(); self.eat()
            inner = self.match_pat()
            self.eat(")")
            return ("some", inner)
        path = [self.eat()]
        while self.peek() == "::":
            self.eat()
            path.append(self.eat())
        return ("ppath", path)


def norm(e):
    """normalised text of a receiver chain, for table lookups"""
    k = e[0]
    if k == "path":
        return "::".join(e[1])
    if k == "field":
        return norm(e[1]) + "." + e[2]
    if k == "mcall":
        return norm(e[1]) + "." + e[2] + "(" + ",".join("_" for _ in e[3]) + ")"
    if k == "call":
        return norm(e[1]) + "(" + ",".join("_" for _ in e[2]) + ")"
    if k == "index":
        return norm(e[1]) + "[_]"
    if k == "paren":
        return norm(e[1])
    if k == "un" and e[1] == "*":
        return norm(e[2])
    if k == "num":
        return str(e[1])
    return "<" + k + ">"


# ------------------------------------------------------------------------------------------------
# symbolic execution into Lean text
# ------------------------------------------------------------------------------------------------
class Tr:
    """spec keys:
         reads   : {normalised path -> lean variable}        (pure reads)
         writes  : {normalised mcall path -> (state var, 'arg0' | lean literal)}
         lvalues : {normalised path -> state var}             (targets of `=`/`op=`)
         state   : [state vars in output order]
         word    : Lean type of bit-vector values or None
         words   : set of variables that have the word type
         skip    : [regex on normalised statement text to drop]
         result  : 'value' | 'state' | 'both'
    """

    def __init__(self, spec):
        self.s = spec
        self.word = spec.get("word")
        self.panics = False

    # ---- expressions -> (lean text, type) ; type in {'nat','bool','word','tuple','dur','kind','any'}
    def lit(self, n, want):
        if want == "word":
            return "(%d : %s)" % (n, self.word), "word"
        return str(n), "nat"

    def ex(self, e, env, want=None):
        k = e[0]
        if k == "num":
            return self.lit(e[1], want)
        if k == "paren":
            t, ty = self.ex(e[1], env, want)
            return "(" + t + ")", ty
        if k == "cast":
            return self.ex(e[1], env, want if want != "word" else None) if e[2] in ("usize", "u128", "u64", "u32", "u16", "u8") else self.bad(e)
        if k == "un" and e[1] == "*":
            return self.ex(e[2], env, want)
        if k == "path" or k == "field" or k == "index":
            n = norm(e)
            if k == "path" and len(e[1]) == 1 and e[1][0] in env:
                return env[e[1][0]]
            if k == "path" and e[1] == ["true"]:
                return "true", "bool"
            if k == "path" and e[1] == ["false"]:
                return "false", "bool"
            if n in self.s.get("reads", {}):
                v = self.s["reads"][n]
                return env.get(v, (v, self.vtype(v)))
            if k == "path" and e[1][:-1] in (["io", "ErrorKind"], ["ErrorKind"], ["std", "io", "ErrorKind"]):
                return "ErrorKind." + e[1][-1], "kind"
            if k == "path" and len(e[1]) >= 2 and e[1][-2] in self.s.get("enums", {}):
                return self.s["enums"][e[1][-2]] + "." + e[1][-1], "any"
            if k == "path" and len(e[1]) == 1 and e[1][0] in self.s.get("consts", {}):
                return self.s["consts"][e[1][0]], "nat"
            raise Fail("unknown name %s" % n)
        if k == "mcall":
            n = norm(e)
            if n in self.s.get("reads", {}):
                v = self.s["reads"][n]
                return env.get(v, (v, self.vtype(v)))
            # X.iter().any(|a| body)
            if e[2] == "any" and e[1][0] == "mcall" and e[1][2] == "iter" and e[3] and e[3][0][0] == "closure":
                coll, _ = self.ex(e[1][1], env)
                cl = e[3][0]
                if len(cl[1]) != 1:
                    raise Fail("closure arity")
                a = cl[1][0]
                env2 = dict(env)
                env2[a] = (a, "word" if self.word else "nat")
                body, _ = self.ex(cl[2], env2, "bool")
                return "(%s).any (fun %s => %s)" % (coll, a, body), "bool"
            raise Fail("unsupported method call %s" % n)
        if k == "call":
            n = norm(e)
            if n in ("Duration::from_millis(_)", "Duration::from_secs(_)", "time::Duration::from_millis(_)", "time::Duration::from_secs(_)", "std::time::Duration::from_secs(_)", "std::time::Duration::from_millis(_)"):
                a, _ = self.ex(e[2][0], env)
                return ("(%s)" % a if "millis" in n else "(%s * 1000)" % a), "nat"
            if n in self.s.get("calls", {}):
                fn = self.s["calls"][n]
                args = [self.ex(a, env)[0] for a in e[2]]
                return "(%s %s)" % (fn, " ".join(args)), "any"
            if n in ("Some(_)",):
                a, ty = self.ex(e[2][0], env, want)
                return "(some %s)" % a, "any"
            raise Fail("unsupported call %s" % n)
        if k == "un":
            op, a = e[1], e[2]
            t, ty = self.ex(a, env, want)
            if op == "!":
                if ty == "bool":
                    return "(!%s)" % t, "bool"
                if ty == "word":
                    return "(~~~%s)" % t, "word"
                raise Fail("`!` on a %s" % ty)
            raise Fail("unsupported unary %s" % op)
        if k == "bin":
            return self.binop(e, env, want)
        if k == "tuple":
            xs = [self.ex(x, env)[0] for x in e[1]]
            return "(" + ", ".join(xs) + ")", "tuple"
        if k == "if":
            if e[3] is None:
                raise Fail("if-expression without else")
            c, _ = self.ex(e[1], env, "bool")
            a, ta = self.ex(e[2], env, want)
            b, tb = self.ex(e[3], env, want)
            return "(if %s then %s else %s)" % (c, a, b), ta if ta != "any" else tb
        if k == "block":
            env2 = dict(env)
            for st in e[1]:
                if st[0] == "let" and st[1][0] == "pvar":
                    env2[st[1][1]] = self.ex(st[2], env2)
                else:
                    raise Fail("statement in expression block")
            if e[2] is None:
                raise Fail("block without value")
            return self.ex(e[2], env2, want)
        if k == "macro":
            if e[1] in ("panic!", "unreachable!", "unimplemented!", "todo!"):
                self.panics = True
                return "PANIC", "any"
            raise Fail("unsupported macro %s" % e[1])
        if k == "match":
            return self.match(e, env, want)
        raise Fail("unsupported expression kind %s" % k)

    def bad(self, e):
        raise Fail("unsupported cast/expression %s" % (e,))

    def vtype(self, v):
        if v in self.s.get("words", ()):
            return "word"
        if v in self.s.get("bools", ()):
            return "bool"
        if v in self.s.get("kinds", ()):
            return "kind"
        return "nat"

    def binop(self, e, env, want):
        _, op, l, r = e
        if op in ("&&", "||"):
            a, _ = self.ex(l, env, "bool")
            b, _ = self.ex(r, env, "bool")
            return "(%s %s %s)" % (a, op, b), "bool"
        if op in ("<<", ">>"):
            wantl = "word" if self.word else None
            a, ta = self.ex(l, env, wantl)
            b, _ = self.ex(r, env, None)
            return "(%s %s %s)" % (a, "<<<" if op == "<<" else ">>>", b), ta
        if op in ("&", "|", "^"):
            a, ta = self.ex(l, env, "word" if self.word else want)
            b, tb = self.ex(r, env, ta if ta == "word" else ("word" if self.word else want))
            if ta == "bool" and tb == "bool":
                return "(%s %s %s)" % (a, {"&": "&&", "|": "||", "^": "!="}[op], b), "bool"
            return "(%s %s %s)" % (a, {"&": "&&&", "|": "|||", "^": "^^^"}[op], b), ta
        if op in ("==", "!=", "<", ">", "<=", ">="):
            # type the non-literal side first
            if l[0] == "num" and r[0] != "num":
                b, tb = self.ex(r, env)
                a, ta = self.ex(l, env, tb)
            else:
                a, ta = self.ex(l, env)
                b, tb = self.ex(r, env, ta)
            if ta == "kind" or tb == "kind" or ta == "word" or tb == "word" or ta == "any" or tb == "any":
                if op not in ("==", "!="):
                    raise Fail("ordering on a non-numeric type")
                return "(%s %s %s)" % (a, op, b), "bool"
            lop = {"==": "=", "!=": "≠", "<": "<", ">": ">", "<=": "≤", ">=": "≥"}[op]
            return "(decide (%s %s %s))" % (a, lop, b), "bool"
        if op in ("+", "-", "*", "/", "%"):
            a, ta = self.ex(l, env, want)
            b, tb = self.ex(r, env, ta if ta in ("word",) else want)
            return "(%s %s %s)" % (a, op, b), ta
        raise Fail("unsupported operator %s" % op)

    def match(self, e, env, want):
        _, scrut, arms = e
        s, ty = self.ex(scrut, env)
        out = None
        # build nested ifs from the bottom
        for pats, body in reversed(arms):
            b, tb = self.ex(body, env, want)
            if any(p[0] == "wild" for p in pats):
                out = b
                continue
            conds = []
            for p in pats:
                if p[0] != "ppath":
                    raise Fail("unsupported match pattern")
                pe, _ = self.ex(("path", p[1]), env)
                conds.append("(%s == %s)" % (s, pe))
            if out is None:
                raise Fail("match without a wildcard/default arm")
            out = "(if %s then %s else %s)" % (" || ".join(conds), b, out)
        if out is None:
            raise Fail("empty match")
        return out, "any"

    # ---- statements with continuation -----------------------------------------------------------
    def stmt_text(self, st):
        if st[0] == "let":
            return "let " + (st[1][1] if st[1][0] == "pvar" else "(tuple)") + " = " + norm(st[2])
        if st[0] == "assign":
            return norm(st[2]) + " " + st[1]
        return norm(st[1])

    def run(self, stmts, tail, env, k):
        """k(env, value_or_None) -> lean text; returns lean text"""
        if not stmts:
            if tail is None:
                return k(env, None)
            if tail[0] == "if":
                return self.run_if(tail, env, k, value=tail[3] is not None)
            if tail[0] == "block":
                return self.run(tail[1], tail[2], env, k)
            if tail[0] == "macro":
                self.ex(tail, env)
                return "PANIC"
            v = self.ex(tail, env)
            return k(env, v)
        st, rest = stmts[0], stmts[1:]
        txt = self.stmt_text(st)
        if any(re.search(rx, txt) for rx in self.s.get("skip", [])):
            return self.run(rest, tail, env, k)
        if st[0] == "let":
            pat, e = st[1], st[2]
            if pat[0] != "pvar":
                raise Fail("tuple pattern in let (not skipped): %s" % txt)
            env2 = dict(env)
            env2[pat[1]] = self.ex(e, env)
            return self.run(rest, tail, env2, k)
        if st[0] == "assign":
            op, lhs, rhs = st[1], st[2], st[3]
            n = norm(lhs)
            var = self.s.get("lvalues", {}).get(n)
            if var is None:
                raise Fail("assignment to unknown place %s" % n)
            cur = env.get(var, (var, self.vtype(var)))
            if op == "=":
                new = self.ex(rhs, env, cur[1])
            else:
                new = self.binop(("bin", op[:-1], ("path", ["__cur"]), rhs), dict(env, __cur=cur), cur[1])
            env2 = dict(env)
            env2[var] = new
            return self.run(rest, tail, env2, k)
        if st[0] == "expr":
            e = st[1]
            if e[0] == "if":
                return self.run_if(e, env, lambda env2, _v: self.run(rest, tail, env2, k), value=False)
            if e[0] == "block":
                return self.run(e[1], e[2], env, lambda env2, _v: self.run(rest, tail, env2, k))
            if e[0] == "mcall":
                n = norm(e)
                w = self.s.get("writes", {}).get(n)
                if w is not None:
                    var, what = w
                    env2 = dict(env)
                    if what == "arg0":
                        env2[var] = self.ex(e[3][0], env, self.vtype(var))
                    else:
                        env2[var] = (what, self.vtype(var))
                    return self.run(rest, tail, env2, k)
            if e[0] == "macro":
                self.ex(e, env)
                return "PANIC"
            raise Fail("unsupported statement: %s" % txt)
        raise Fail("unsupported statement kind")

    def run_if(self, e, env, k, value):
        c, _ = self.ex(e[1], env, "bool")
        a = self.run(e[2][1], e[2][2], env, k)
        if e[3] is None:
            if value:
                raise Fail("if without else used as a value")
            b = k(env, None)
        elif e[3][0] == "if":
            b = self.run_if(e[3], env, k, value)
        else:
            b = self.run(e[3][1], e[3][2], env, k)
        return "(if %s then %s else %s)" % (c, a, b)

    def translate_body(self, body_src):
        ast = P(lex(body_src)).block()
        state = self.s.get("state", [])
        mode = self.s.get("result", "value")

        def k(env, v):
            parts = []
            if mode in ("value", "both"):
                if v is None:
                    raise Fail("function body has no value")
                parts.append(v[0])
            if mode in ("state", "both"):
                for sv in state:
                    parts.append(env.get(sv, (sv, None))[0])
            t = parts[0] if len(parts) == 1 else "(" + ", ".join(parts) + ")"
            return "SOME(" + t + ")"

        env = {}
        txt = self.run(ast[1], ast[2], env, k)
        if self.panics:
            txt = txt.replace("PANIC", "none").replace("SOME(", "some (")
        else:
            txt = re.sub(r"SOME\(", "(", txt)
        return txt


# ------------------------------------------------------------------------------------------------
# span registry
# ------------------------------------------------------------------------------------------------
def span_fn(file, fn, impl, lean_name, params, ret, spec):
    return dict(kind="fn", file=file, fn=fn, impl=impl, lean=lean_name, params=params, ret=ret, spec=spec)


def span_const(file, name, lean_name):
    return dict(kind="const", file=file, name=name, lean=lean_name)


def span_expr(file, fn, impl, regex, lean_name, params, ret, spec):
    """translate the first regex group found inside the body of fn"""
    return dict(kind="expr", file=file, fn=fn, impl=impl, regex=regex, lean=lean_name, params=params, ret=ret, spec=spec)


def span_custom(file, func):
    """func(source_text) -> (lean_text, hashed_source_fragment); raise Fail to report a broken span"""
    return dict(kind="custom", file=file, func=func)


SPANS = {}


def register(name, sp):
    SPANS[name] = sp


def load_span_files():
    """every tools/spans/*.py registers its spans (one file per crate group, to keep edits apart)"""
    import glob
    d = os.path.join(os.path.dirname(os.path.abspath(__file__)), "spans")
    g = {"register": register, "span_fn": span_fn, "span_const": span_const, "span_expr": span_expr,
         "span_custom": span_custom, "Fail": Fail, "re": re}
    for f in sorted(glob.glob(os.path.join(d, "*.py"))):
        exec(compile(open(f).read(), f, "exec"), dict(g))


def translate_span(repo, sp):
    src = open(os.path.join(repo, sp["file"])).read()
    if sp["kind"] == "custom":
        return sp["func"](strip_comments_keep_len(src))
    if sp["kind"] == "const":
        e = find_const(src, sp["name"])
        t = Tr({})
        txt, _ = t.ex(P(lex(e)).expr(), {})
        return "def %s : Nat := %s" % (sp["lean"], txt), e
    sig, body = find_fn(src, sp["fn"], sp.get("impl"))
    for rx in sp.get("spec", {}).get("require", []):
        if not re.search(rx, body, re.S):
            raise Fail("required pattern %r not found in fn %s" % (rx, sp["fn"]))
    if sp["kind"] == "expr":
        m = re.search(sp["regex"], body, re.S)
        if not m:
            raise Fail("pattern %r not found in fn %s" % (sp["regex"], sp["fn"]))
        frag = m.group(1)
        t = Tr(sp["spec"])
        txt, _ = t.ex(P(lex(frag)).expr(), {}, sp["spec"].get("want"))
        return "def %s %s : %s := %s" % (sp["lean"], sp["params"], sp["ret"], txt), frag
    t = Tr(sp["spec"])
    txt = t.translate_body(body)
    ret = sp["ret"]
    if t.panics:
        ret = "Option (%s)" % ret
    return "def %s %s : %s :=\n  %s" % (sp["lean"], sp["params"], ret, txt), sig + body


HEADER = """/-!
# GENERATED by /verif/tools/extract.py from the Rust sources in /repo — do not edit.

One Lean definition per anchored kernel ("span").  Regenerated by every check run; theorems in
`ActixNet/Props` are stated about these definitions.
-/
set_option linter.unusedVariables false
namespace ActixNet.Src

inductive ErrorKind where
  | NotFound | PermissionDenied | ConnectionRefused | ConnectionReset | ConnectionAborted
  | NotConnected | AddrInUse | AddrNotAvailable | BrokenPipe | AlreadyExists | WouldBlock
  | InvalidInput | InvalidData | TimedOut | WriteZero | Interrupted | Unsupported | UnexpectedEof
  | OutOfMemory | Other
deriving DecidableEq, Repr, BEq

"""


def main():
    ap = argparse.ArgumentParser()
    ap.add_argument("--repo", default="/repo")
    ap.add_argument("--out", required=True)
    ap.add_argument("--json", action="store_true")
    a = ap.parse_args()
    load_span_files()
    status, chunks = {}, []
    for name, sp in SPANS.items():
        try:
            lean, src = translate_span(a.repo, sp)
            h = hashlib.sha1(re.sub(r"\s+", " ", src).encode()).hexdigest()[:12]
            chunks.append("/-- span `%s`: %s %s (source hash %s) -/\n%s\n" % (name, sp["file"], sp.get("fn") or sp.get("name") or "", h, lean))
            status[name] = {"ok": True, "hash": h}
        except Fail as e:
            chunks.append("-- span `%s` FAILED to translate: %s\n" % (name, str(e).replace("\n", " ")))
            status[name] = {"ok": False, "error": str(e)}
        except FileNotFoundError as e:
            chunks.append("-- span `%s` FAILED: %s\n" % (name, e))
            status[name] = {"ok": False, "error": str(e)}
    text = HEADER + "\n".join(chunks) + "\nend ActixNet.Src\n"
    old = open(a.out).read() if os.path.exists(a.out) else None
    if old != text:
        os.makedirs(os.path.dirname(a.out), exist_ok=True)
        with open(a.out, "w") as f:
            f.write(text)
    if a.json:
        print(json.dumps(status))
    else:
        for k, v in status.items():
            print(k, v)


if __name__ == "__main__":
    main()
