import ActixNet.Lemmas.SrvSpin
/-! Round-robin lemmas for the accept-loop model (fault-free histories). -/
namespace ActixNet.Srv
open ActixNet

theorem incPrim_next (cfg : Cfg) (s : St) (w i : Nat) : (incPrim cfg s w i).next = s.next ∧ (incPrim cfg s w i).handles = s.handles := by
  unfold incPrim; simp only; split
  · exact ⟨rfl, rfl⟩
  · unfold setAvail; split <;> exact ⟨rfl, rfl⟩

/-- **round robin**: when the worker at the rotation cursor is marked available, `accept_one`
dispatches the connection to exactly that worker and advances the cursor by one (mod the number of
workers) -/
theorem acceptOne_dispatches_to_cursor {cfg : Cfg} (ok : CfgOk cfg) (fuel : Nat) (s : St) (c : Conn)
    (h : AccInv cfg s) (hnf : s.fault = none) (hav : s.avail s.next = true) :
    (acceptOne cfg (fuel + 1) s c).dispatched = s.dispatched ++ [(c, s.next)] ∧
    (acceptOne cfg (fuel + 1) s c).next = (s.next + 1) % cfg.nIdx := by
  have hh : s.handles = List.range cfg.nIdx := h.good.1.handles
  have hn : s.next < cfg.nIdx := h.good.1.next_lt
  have hidx : (s.wk s.next).idx = s.next := h.good.1.idx s.next
  have hal : (s.wk s.next).alive = true := h.good.1.alive s.next
  have hsc : sendConnection cfg s c =
      (setNext (incPrim cfg (yieldPt cfg (sendPrim s s.next c)) s.next (s.wk s.next).idx), true) := by
    simp [sendConnection, hnf, handles_next h.good, hal]
  simp only [acceptOne, hnf, Option.isSome_none, Bool.false_eq_true, ↓reduceIte, handles_next h.good, hidx, hav, hsc]
  obtain ⟨g1, p1, s1, a1⟩ := sendPrim_good h s.next hn hav c
  obtain ⟨g2, l2, s2⟩ := yieldPt_good cfg _ g1 s1
  obtain ⟨i1, i2⟩ := incPrim_next cfg (yieldPt cfg (sendPrim s s.next c)) s.next s.next
  refine ⟨?_, ?_⟩
  · rw [setNext_dispatched, incPrim_dispatched, yieldPt_dispatched]; rfl
  · have hlen : (incPrim cfg (yieldPt cfg (sendPrim s s.next c)) s.next s.next).handles.length = cfg.nIdx := by
      rw [i2, l2.2.2.1]; show s.handles.length = _; rw [hh]; simp
    unfold setNext
    rw [if_neg (by rw [hlen]; exact Nat.pos_iff_ne_zero.mp ok.pos)]
    simp only
    rw [hlen, i1, l2.2.2.2.1]; rfl

/-- **a worker that is not marked available is skipped**: `accept_one` moves the cursor past it
without dispatching to it -/
theorem acceptOne_skips_unavailable {cfg : Cfg} (ok : CfgOk cfg) (fuel : Nat) (s : St) (c : Conn)
    (h : AccInv cfg s) (hnf : s.fault = none) (hav : s.avail s.next = false) (hany : anyAvail cfg s = true) :
    acceptOne cfg (fuel + 1) s c = acceptOne cfg fuel { s with next := (s.next + 1) % cfg.nIdx } c := by
  have hh : s.handles = List.range cfg.nIdx := h.good.1.handles
  have hn : s.next < cfg.nIdx := h.good.1.next_lt
  have hidx : (s.wk s.next).idx = s.next := h.good.1.idx s.next
  have h512 : s.next < 512 := by have := ok.max; omega
  have hsa : setAvail s s.next false = s := by
    unfold setAvail; simp only [h512, ↓reduceIte]
    have : upd s.avail s.next false = s.avail := by rw [← hav]; exact upd_noop _ _
    rw [this]
  have hlen : s.handles.length = cfg.nIdx := by rw [hh]; simp
  have hsn : setNext s = { s with next := (s.next + 1) % cfg.nIdx } := by
    unfold setNext; rw [if_neg (by rw [hlen]; exact Nat.pos_iff_ne_zero.mp ok.pos), hlen]
  have hany2 : anyAvail cfg { s with next := (s.next + 1) % cfg.nIdx } = true := hany
  have hf : ¬ (s.fault.isSome = true) := by simp [hnf]
  simp only [acceptOne]
  rw [if_neg hf, handles_next h.good]
  simp only [hidx]
  rw [if_neg (by simp [hav]), hsa, hsn, if_neg (by simp [hany2])]


/-- cursor arithmetic: `k ≤ n` consecutive cursor positions are pairwise distinct -/
theorem cursor_positions_distinct (n a k : Nat) (hk : k ≤ n) :
    ((List.range k).map (fun j => (a + j) % n)).Nodup := by
  unfold List.Nodup
  rw [List.pairwise_map]
  refine List.Pairwise.imp_of_mem ?_ List.pairwise_lt_range
  intro i j hi hj hlt heq
  have hj' := List.mem_range.mp hj
  have := Nat.sub_mod_eq_zero_of_mod_eq heq.symm
  have e : a + j - (a + i) = j - i := by omega
  rw [e, Nat.mod_eq_of_lt (by omega)] at this
  omega


end ActixNet.Srv
