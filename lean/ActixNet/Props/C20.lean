import ActixNet.Lemmas.Utf8
/-!
# C20 — ByteString is always valid UTF-8 and agrees with `str`

Property theorems only.  `Wf` (a concatenation of well-formed UTF-8 sequences, Unicode Table 3-7) is
the specification of validity; `valid` is the executable validator that the correspondence check
compares with `core::str::from_utf8` on every run.
-/
namespace ActixNet.C20
open ActixNet.Utf8 ActixNet.ByteString

/-- the executable validator decides exactly the specification of well-formed UTF-8 -/
theorem valid_iff_spec (bs : List Nat) : valid bs = true ↔ Wf bs := valid_iff_wf bs

/-- the fallible constructors accept exactly the well-formed byte strings -/
theorem tryFrom_iff_valid (st : Store) (bs : List Nat) :
    (∃ st', step st (.tryFrom bs) = some st') ↔ Wf bs := by
  rw [← valid_iff_wf]; simp only [step]; split <;> simp_all

/-- `split_at` at a char boundary yields two valid halves whose concatenation is the original -/
theorem split_valid (b : List Nat) (i : Nat) (hv : Wf b) (hb : isBoundary b i = true) :
    Wf (b.take i) ∧ Wf (b.drop i) ∧ b.take i ++ b.drop i = b :=
  ⟨(wf_split hv i hb).1, (wf_split hv i hb).2, List.take_append_drop i b⟩

/-- `split_at` panics exactly when `str::split_at` does: index not on a char boundary (which
includes every index past the end) -/
theorem splitAt_panics_iff (st : Store) (k i : Nat) (b : List Nat) (hk : st[k]? = some b) :
    step st (.splitAt k i) = none ↔ isBoundary b i = false := by
  simp only [step, hk]; split <;> simp_all

theorem boundary_le_len (b : List Nat) (i : Nat) (h : isBoundary b i = true) : i ≤ b.length := by
  unfold isBoundary at h
  split at h
  · simpa using h
  · rename_i hd
    have : ¬ b.length ≤ i := fun hle => by simp [List.drop_eq_nil_of_le hle] at hd
    omega

/-- a sub-slice between two char boundaries of a valid string is valid -/
theorem slice_valid (b : List Nat) (i j : Nat) (hv : Wf b) (hij : i ≤ j)
    (hi : isBoundary b i = true) (hj : isBoundary b j = true) : Wf ((b.take j).drop i) := by
  have h1 := (wf_split hv j hj).1
  have hjl := boundary_le_len b j hj
  have hi' : isBoundary (b.take j) i = true := by
    unfold isBoundary at hi ⊢
    by_cases hlt : i < j
    · have hd : (b.take j).drop i = (b.drop i).take (j - i) := by
        rw [List.drop_take]
      have hne : b.drop i ≠ [] := by
        intro h; have := List.drop_eq_nil_iff.mp h; omega
      cases hbd : b.drop i with
      | nil => exact absurd hbd hne
      | cons x t =>
        rw [hbd] at hi
        rw [hd, hbd]
        have : j - i = (j - i - 1) + 1 := by omega
        rw [this, List.take_succ_cons]; simpa using hi
    · have hji : i = j := by omega
      subst hji
      have : (b.take i).drop i = [] := by
        apply List.drop_eq_nil_of_le; simp; omega
      rw [this]; simp; omega
  exact (wf_split h1 i hi').2

/-- every operation of the safe API keeps every stored `ByteString` valid -/
theorem step_preserves_valid (st st' : Store) (op : Op) (h : ∀ b ∈ st, Wf b)
    (hs : step st op = some st') : ∀ b ∈ st', Wf b := by
  cases op with
  | tryFrom bs =>
    simp only [step] at hs; split at hs
    · simp at hs; subst hs; intro b hb
      rcases List.mem_append.mp hb with hb | hb
      · exact h b hb
      · simp at hb; subst hb; exact (valid_iff_wf _).mp ‹_›
    · simp at hs
  | fromStr bs =>
    simp only [step] at hs; split at hs
    · simp at hs; subst hs; intro b hb
      rcases List.mem_append.mp hb with hb | hb
      · exact h b hb
      · simp at hb; subst hb; exact (valid_iff_wf _).mp ‹_›
    · simp at hs
  | splitAt k i =>
    simp only [step] at hs; split at hs
    · simp at hs
    · rename_i b0 hk
      have hb0 : Wf b0 := h b0 (List.mem_of_getElem? hk)
      split at hs
      · simp at hs; subst hs; intro b hb
        rcases List.mem_append.mp hb with hb | hb
        · exact h b hb
        · simp at hb
          rcases hb with rfl | rfl
          · exact (wf_split hb0 i ‹_›).1
          · exact (wf_split hb0 i ‹_›).2
      · simp at hs
  | sliceRef k i j =>
    simp only [step] at hs; split at hs
    · simp at hs
    · rename_i b0 hk
      have hb0 : Wf b0 := h b0 (List.mem_of_getElem? hk)
      split at hs
      · rename_i hc
        simp only [Bool.and_eq_true, decide_eq_true_eq] at hc
        simp at hs; subst hs; intro b hb
        rcases List.mem_append.mp hb with hb | hb
        · exact h b hb
        · simp at hb; subst hb; exact slice_valid b0 i j hb0 hc.1.1 hc.1.2 hc.2
      · simp at hs
  | clone k =>
    simp only [step] at hs; split at hs
    · simp at hs
    · rename_i b0 hk
      simp at hs; subst hs; intro b hb
      rcases List.mem_append.mp hb with hb | hb
      · exact h b hb
      · simp at hb; subst hb; exact h _ (List.mem_of_getElem? hk)

/-- **C20, invariant form**: after any history of safe-API operations (failing ones included),
every `ByteString` in existence is valid UTF-8. -/
theorem safe_api_preserves_valid (ops : List Op) :
    ∀ st : Store, (∀ b ∈ st, Wf b) → ∀ b ∈ run st ops, Wf b := by
  induction ops with
  | nil => intro st h; simpa [run] using h
  | cons op ops ih =>
    intro st h
    simp only [run]
    apply ih
    cases hs : step st op with
    | none => simpa using h
    | some st' => simpa using step_preserves_valid st st' op h hs

theorem cmp_eq_iff (a b : List Nat) : cmpBytes a b = .eq ↔ a = b := by
  induction a generalizing b with
  | nil => cases b <;> simp [cmpBytes]
  | cons x xs ih =>
    cases b with
    | nil => simp [cmpBytes]
    | cons y ys =>
      simp only [cmpBytes]
      split
      · simp; omega
      · split
        · simp; omega
        · have : x = y := by omega
          simp [ih, this]

theorem cmp_antisymm (a b : List Nat) : cmpBytes a b = .lt ↔ cmpBytes b a = .gt := by
  induction a generalizing b with
  | nil => cases b <;> simp [cmpBytes]
  | cons x xs ih =>
    cases b with
    | nil => simp [cmpBytes]
    | cons y ys =>
      simp only [cmpBytes]
      by_cases h1 : x < y
      · have : ¬ y < x := by omega
        simp [h1]; omega
      · by_cases h2 : y < x
        · simp [h1, h2]
        · simp [h1, h2, ih]

/-! ### `Display` agrees with `str` (`fmtPad` is `Formatter::pad` on the bytes; the driver compares it with
the real `format!` output for every alignment / fill / width / precision) -/

/-- whatever width, precision, alignment and (ASCII) fill are asked for, what `Display` writes is valid
UTF-8: truncation to `precision` chars never cuts a char -/
theorem display_valid (bs : List Nat) (h : Wf bs) (w p : Option Nat) (a : Align) (f : Nat) (hf : f ≤ 0x7F) :
    Wf (fmtPad bs w p a f) := fmtPad_wf h w p a f hf

/-- `{}` writes the string itself -/
theorem display_plain (bs : List Nat) (a : Align) (f : Nat) : fmtPad bs none none a f = bs := fmtPad_plain bs a f

/-- a precision truncates to a prefix of whole chars … -/
theorem display_precision_is_prefix (bs : List Nat) (h : Wf bs) (p : Nat) :
    Wf (takeChars p bs) ∧ ∃ r, bs = takeChars p bs ++ r := takeChars_wf h p

/-- … and does nothing when the string has at most that many chars -/
theorem display_precision_noop (bs : List Nat) (p : Nat) (h : charCount bs ≤ p) : takeChars p bs = bs :=
  takeChars_all bs p h

-- "aéb": `{:.2}` keeps "aé" (3 bytes), `{:*^6}` centres with one `*` before and two after
example : fmtPad [0x61, 0xC3, 0xA9, 0x62] none (some 2) .left 0x20 = [0x61, 0xC3, 0xA9] ∧
    fmtPad [0x61, 0xC3, 0xA9, 0x62] (some 6) none .center 0x2A = [0x2A, 0x61, 0xC3, 0xA9, 0x62, 0x2A, 0x2A] := by decide

/-! ### Non-vacuity: concrete non-trivial instances of the hypotheses -/

-- "aé€😀" is valid, and 1 is a boundary while 2 (inside é) is not
example : valid [0x61, 0xC3, 0xA9, 0xE2, 0x82, 0xAC, 0xF0, 0x9F, 0x98, 0x80] = true := by decide
example : isBoundary [0x61, 0xC3, 0xA9] 1 = true ∧ isBoundary [0x61, 0xC3, 0xA9] 2 = false ∧
    isBoundary [0x61, 0xC3, 0xA9] 3 = true ∧ isBoundary [0x61, 0xC3, 0xA9] 4 = false := by decide
-- surrogates, overlong forms and > U+10FFFF are rejected
example : valid [0xED, 0xA0, 0x80] = false ∧ valid [0xC0, 0x80] = false ∧
    valid [0xE0, 0x80, 0x80] = false ∧ valid [0xF4, 0x90, 0x80, 0x80] = false := by decide
example : (run [] [.tryFrom [0x61, 0xC3, 0xA9], .splitAt 0 1, .splitAt 0 2, .sliceRef 0 1 3]).length = 4 := by
  decide

end ActixNet.C20
