import ActixNet.Model.Rt
/-!
# Lemmas for the `Rt` model: inductive invariants over all schedules
-/
namespace ActixNet.Rt

/-! ### list helpers -/

theorem execIds_append (a b : List Cmd) : execIds (a ++ b) = execIds a ++ execIds b := by
  induction a with
  | nil => simp [execIds]
  | cons x r ih => cases x <;> simp [execIds, ih]

theorem execIds_prefix {a b : List Cmd} (h : a <+: b) : execIds a <+: execIds b := by
  obtain ⟨t, rfl⟩ := h
  rw [execIds_append]; exact List.prefix_append _ _

theorem preStop_take_prefix (l : List Cmd) (n : Nat) : preStop (l.take n) <+: preStop l := by
  induction l generalizing n with
  | nil => simp [preStop]
  | cons x r ih =>
    cases n with
    | zero => simp [preStop]
    | succ n =>
      simp only [preStop, List.take_succ_cons, List.takeWhile_cons]
      split
      · exact List.cons_prefix_cons.mpr ⟨rfl, ih n⟩
      · exact List.prefix_refl _

theorem preStop_eq_self {l : List Cmd} (h : ∀ x ∈ l, x ≠ Cmd.stop) : preStop l = l := by
  induction l with
  | nil => rfl
  | cons x r ih =>
    have hx : notStop x = true := by
      cases x with
      | stop => exact absurd rfl (h _ (List.mem_cons_self ..))
      | exec t => rfl
    simp only [preStop, List.takeWhile_cons, hx, if_true]
    congr 1
    exact ih (fun y hy => h y (List.mem_cons_of_mem _ hy))

theorem preStop_append_stop {l : List Cmd} (h : ∀ x ∈ l, x ≠ Cmd.stop) (r : List Cmd) :
    preStop (l ++ Cmd.stop :: r) = l := by
  induction l with
  | nil => simp [preStop, notStop]
  | cons x t ih =>
    have hx : notStop x = true := by
      cases x with
      | stop => exact absurd rfl (h _ (List.mem_cons_self ..))
      | exec t => rfl
    simp only [preStop, List.cons_append, List.takeWhile_cons, hx, if_true]
    congr 1
    exact ih (fun y hy => h y (List.mem_cons_of_mem _ hy))

theorem take_succ_of_get {α : Type} {l : List α} {n : Nat} {x : α} (h : l[n]? = some x) :
    l.take (n + 1) = l.take n ++ [x] := by
  rw [List.take_add_one, h]; rfl

theorem take_append_le {α : Type} (l r : List α) {n : Nat} (h : n ≤ l.length) :
    (l ++ r).take n = l.take n := by
  rw [List.take_append]
  have : n - l.length = 0 := by omega
  simp [this]

/-! ### per-arbiter invariant (C10) -/

/-- what holds of every arbiter in every reachable state -/
structure ArbOk (a : Arb) : Prop where
  recvd_le : a.recvd ≤ a.sent.length
  no_stop_rcvd : a.ended = false → ∀ x ∈ a.sent.take a.recvd, x ≠ Cmd.stop
  queue_eq : a.started ++ a.spawned = execIds (preStop (a.sent.take a.recvd))
  gone_ended : a.gone = true → a.ended = true
  exited_gone : a.exited = true → a.gone = true
  ended_created : a.ended = true → a.created = true
  exited_notsys : a.exited = true → a.sys = false

theorem arbOk_default : ArbOk {} := by
  constructor <;> simp [execIds, preStop]

theorem arbOk_sysinit : ArbOk { created := true, sys := true } := by
  constructor <;> simp [execIds, preStop]

theorem ArbOk.push {a : Arb} (h : ArbOk a) (c : Cmd) : ArbOk (a.push c) := by
  unfold Arb.push
  split
  · exact h
  · have ht : (a.sent ++ [c]).take a.recvd = a.sent.take a.recvd := take_append_le _ _ h.recvd_le
    constructor
    · simp; have := h.recvd_le; omega
    · intro he; simp only [ht]; exact h.no_stop_rcvd he
    · simp only [ht]; exact h.queue_eq
    · exact h.gone_ended
    · exact h.exited_gone
    · exact h.ended_created
    · exact h.exited_notsys

theorem ArbOk.recv {a : Arb} (h : ArbOk a) : ArbOk a.recv := by
  unfold Arb.recv
  split
  · rename_i hce
    have hne : a.ended = false := by
      cases he : a.ended <;> simp [he] at hce ⊢
    split
    · exact h
    · rename_i hg
      have hlt : a.recvd < a.sent.length := by
        have := (List.getElem?_eq_some_iff.mp hg).1; exact this
      have ht := take_succ_of_get hg
      have hns := h.no_stop_rcvd hne
      constructor
      · simp; omega
      · simp
      · simp only [ht]
        rw [preStop_append_stop hns []]
        rw [← preStop_eq_self hns]; exact h.queue_eq
      · intro _; rfl
      · simpa using h.exited_gone
      · intro _; simp at hce; exact hce.1
      · exact h.exited_notsys
    · rename_i t hg
      have hlt : a.recvd < a.sent.length := (List.getElem?_eq_some_iff.mp hg).1
      have ht := take_succ_of_get hg
      have hns := h.no_stop_rcvd hne
      have hns' : ∀ x ∈ a.sent.take a.recvd ++ [Cmd.exec t], x ≠ Cmd.stop := by
        intro x hx
        rcases List.mem_append.mp hx with hx | hx
        · exact hns x hx
        · simp at hx; subst hx; simp
      constructor
      · simp; omega
      · intro _; simp only [ht]; exact hns'
      · simp only [ht]
        rw [preStop_eq_self hns', execIds_append, ← List.append_assoc]
        have := h.queue_eq
        rw [preStop_eq_self hns] at this
        rw [this]; simp [execIds]
      · exact h.gone_ended
      · exact h.exited_gone
      · exact h.ended_created
      · exact h.exited_notsys
  · exact h

theorem ArbOk.startTask {a : Arb} (h : ArbOk a) : ArbOk a.startTask := by
  unfold Arb.startTask
  split
  · exact h
  · split
    · exact h
    · rename_i t r hs
      constructor
      · exact h.recvd_le
      · exact h.no_stop_rcvd
      · have := h.queue_eq
        rw [hs] at this
        simpa using this
      · exact h.gone_ended
      · exact h.exited_gone
      · exact h.ended_created
      · exact h.exited_notsys

/-! ### global: every arbiter is `ArbOk` in every reachable state -/

def AllOk (s : State) : Prop := ∀ i, ArbOk (s.arbs i)

theorem allOk_init : AllOk init := by
  intro i
  show ArbOk (upd (fun _ => {}) sysArbId { created := true, sys := true } i)
  unfold upd; split
  · exact arbOk_sysinit
  · exact arbOk_default

theorem allOk_upd {s : State} (h : AllOk s) (i : Nat) {a : Arb} (ha : ArbOk a) :
    ∀ j, ArbOk (upd s.arbs i a j) := by
  intro j
  by_cases hj : j = i
  · subst hj; simpa using ha
  · rw [upd_other _ _ _ _ hj]; exact h j

theorem AllOk.step {s : State} (h : AllOk s) (a : Act) : AllOk (step s a) := by
  cases a with
  | newArb i =>
    simp only [Rt.step]; split
    · exact h
    · apply allOk_upd h
      have hi := h i
      constructor
      · exact hi.recvd_le
      · exact hi.no_stop_rcvd
      · exact hi.queue_eq
      · exact hi.gone_ended
      · exact hi.exited_gone
      · intro _; rfl
      · exact hi.exited_notsys
  | send i c =>
    simp only [Rt.step]; split
    · exact allOk_upd h i ((h i).push c)
    · exact h
  | sysSend code => exact h
  | ctrl =>
    simp only [Rt.step]; split
    · exact h
    · intro j
      show ArbOk (if s.registered j then (s.arbs j).push .stop else s.arbs j)
      split
      · exact (h j).push _
      · exact h j
    · exact h
    · exact h
  | runner i => exact allOk_upd h i (h i).recv
  | task i => exact allOk_upd h i (h i).startTask
  | close i =>
    simp only [Rt.step]; split
    · rename_i hc
      apply allOk_upd h
      have hi := h i
      simp at hc
      constructor
      · exact hi.recvd_le
      · intro he; simp at he; simp [he] at hc
      · exact hi.queue_eq
      · intro _; exact hc.1
      · intro he; rfl
      · exact hi.ended_created
      · exact hi.exited_notsys
    · exact h
  | fin i =>
    simp only [Rt.step]; split
    · rename_i hc
      apply allOk_upd h
      have hi := h i
      simp at hc
      constructor
      · exact hi.recvd_le
      · exact hi.no_stop_rcvd
      · exact hi.queue_eq
      · exact hi.gone_ended
      · intro _; exact hc.1.1
      · exact hi.ended_created
      · intro _; exact hc.2
    · exact h

theorem AllOk.run {s : State} (h : AllOk s) (tr : List Act) : AllOk (run s tr) := by
  induction tr generalizing s with
  | nil => exact h
  | cons a tr ih => exact ih (h.step a)

/-! ### the one-shot carries exactly the code of the first `Exit` (C09) -/

theorem firstExit_append (a b : List SysCmd) :
    firstExit (a ++ b) = (firstExit a).or (firstExit b) := by
  induction a with
  | nil => simp [firstExit]
  | cons x r ih => cases x <;> simp [firstExit, ih]

structure CodeOk (s : State) : Prop where
  done_le : s.sysDone ≤ s.syssent.length
  sends_eq : s.sends = (firstExit (s.syssent.take s.sysDone)).toList
  stopTx_eq : s.stopTx = (firstExit (s.syssent.take s.sysDone)).isNone

theorem codeOk_init : CodeOk init := by constructor <;> simp [init, firstExit]

theorem CodeOk.append {s : State} (h : CodeOk s) (x : SysCmd) (arbs : Nat → Arb) (rets : List Bool) :
    CodeOk { s with syssent := s.syssent ++ [x], arbs := arbs, rets := rets } := by
  have ht : (s.syssent ++ [x]).take s.sysDone = s.syssent.take s.sysDone := take_append_le _ _ h.done_le
  constructor
  · simp; have := h.done_le; omega
  · simp only [ht]; exact h.sends_eq
  · simp only [ht]; exact h.stopTx_eq

theorem CodeOk.step {s : State} (h : CodeOk s) (a : Act) : CodeOk (step s a) := by
  cases a with
  | newArb i =>
    simp only [Rt.step]; split
    · exact h
    · exact h.append _ _ s.rets
  | send i c =>
    simp only [Rt.step]; split
    · exact ⟨h.done_le, h.sends_eq, h.stopTx_eq⟩
    · exact h
  | sysSend code => exact h.append _ s.arbs s.rets
  | ctrl =>
    simp only [Rt.step]; split
    · exact h
    all_goals
      rename_i hg
      have hlt : s.sysDone < s.syssent.length := (List.getElem?_eq_some_iff.mp hg).1
      have ht := take_succ_of_get hg
      have h1 := h.sends_eq
      have h2 := h.stopTx_eq
      constructor
      · simp; omega
      · simp only [ht, firstExit_append]
        cases hf : firstExit (s.syssent.take s.sysDone) <;> simp [hf] at h1 h2 ⊢ <;>
          simp [h1, h2, firstExit]
      · simp only [ht, firstExit_append]
        cases hf : firstExit (s.syssent.take s.sysDone) <;> simp [hf] at h1 h2 ⊢ <;>
          simp [h2, firstExit]
  | runner i => exact ⟨h.done_le, h.sends_eq, h.stopTx_eq⟩
  | task i => exact ⟨h.done_le, h.sends_eq, h.stopTx_eq⟩
  | close i =>
    simp only [Rt.step]; split
    · exact ⟨h.done_le, h.sends_eq, h.stopTx_eq⟩
    · exact h
  | fin i =>
    simp only [Rt.step]; split
    · exact h.append _ _ s.rets
    · exact h

theorem CodeOk.run {s : State} (h : CodeOk s) (tr : List Act) : CodeOk (run s tr) := by
  induction tr generalizing s with
  | nil => exact h
  | cons a tr ih => exact ih (h.step a)

/-! ### registry invariant: arbiters created before an `Exit` get a `Stop` (C09) -/

theorem getElem?_append_single {α : Type} {l : List α} {x y : α} {k : Nat} :
    (l ++ [x])[k]? = some y ↔ l[k]? = some y ∨ (k = l.length ∧ x = y) := by
  by_cases hk : k < l.length
  · rw [List.getElem?_append_left hk]
    constructor
    · exact Or.inl
    · rintro (h | ⟨h, _⟩)
      · exact h
      · omega
  · rw [List.getElem?_append_right (by omega)]
    have hn : l[k]? = none := List.getElem?_eq_none (by omega)
    by_cases hk' : k = l.length
    · subst hk'; simp
    · have : k - l.length ≠ 0 := by omega
      have h2 : [x][k - l.length]? = none := List.getElem?_eq_none (by simp; omega)
      simp [hn, h2, hk']

/-- a `Stop` is buffered in the arbiter's channel, not yet received -/
def HasStop (a : Arb) : Prop := ∃ k, a.recvd ≤ k ∧ a.sent[k]? = some Cmd.stop

theorem HasStop.push {a : Arb} (h : HasStop a) (c : Cmd) : HasStop (a.push c) := by
  unfold Arb.push; split
  · exact h
  · obtain ⟨k, hk, hs⟩ := h
    exact ⟨k, hk, getElem?_append_single.mpr (Or.inl hs)⟩

theorem hasStop_push_stop {a : Arb} (hg : a.gone = false) (hle : a.recvd ≤ a.sent.length) :
    HasStop (a.push .stop) := by
  unfold Arb.push; simp [hg]
  exact ⟨a.sent.length, hle, by simp⟩

theorem HasStop.recv {a : Arb} (h : HasStop a) (he : a.recv.ended = false) : HasStop a.recv := by
  obtain ⟨k, hk, hs⟩ := h
  unfold Arb.recv at he ⊢
  split
  · split
    · exact ⟨k, hk, hs⟩
    · rename_i hg; simp [*] at he
    · rename_i t hg
      refine ⟨k, ?_, hs⟩
      show a.recvd + 1 ≤ k
      have : k ≠ a.recvd := by intro hh; subst hh; rw [hs] at hg; cases hg
      omega
  · exact ⟨k, hk, hs⟩

theorem HasStop.startTask {a : Arb} (h : HasStop a) : HasStop a.startTask := by
  unfold Arb.startTask; split
  · exact h
  · split
    · exact h
    · exact h

theorem recv_ended_mono {a : Arb} (h : a.ended = true) : a.recv.ended = true := by
  unfold Arb.recv; simp [h]
theorem startTask_ended {a : Arb} : a.startTask.ended = a.ended := by
  unfold Arb.startTask; split
  · rfl
  · split <;> rfl
theorem push_ended {a : Arb} (c : Cmd) : (a.push c).ended = a.ended := by
  unfold Arb.push; split <;> rfl
structure RegOk (s : State) : Prop where
  dereg_exited : ∀ k i : Nat, s.syssent[k]? = some (SysCmd.deregister i) → (s.arbs i).exited = true
  reg_created : ∀ k i : Nat, s.syssent[k]? = some (SysCmd.register i) → (s.arbs i).created = true
  reg_unique : ∀ k k' i : Nat, s.syssent[k]? = some (SysCmd.register i) → s.syssent[k']? = some (SysCmd.register i) → k = k'
  reg_before_dereg : ∀ r d i : Nat, s.syssent[r]? = some (SysCmd.register i) →
    s.syssent[d]? = some (SysCmd.deregister i) → r < d
  registered_of : ∀ r i : Nat, s.syssent[r]? = some (SysCmd.register i) → r < s.sysDone →
    (s.arbs i).exited = false → s.registered i = true
  dereg_unreg : ∀ d i : Nat, s.syssent[d]? = some (SysCmd.deregister i) → d < s.sysDone → s.registered i = false
  stop_queued : ∀ (r p i : Nat) (c : Int), s.syssent[r]? = some (SysCmd.register i) → s.syssent[p]? = some (SysCmd.exit c) →
    r < p → p < s.sysDone → (s.arbs i).ended = false →
    HasStop (s.arbs i)

theorem init_syssent_get {k : Nat} {x : SysCmd} (h : init.syssent[k]? = some x) :
    k = 0 ∧ x = SysCmd.register sysArbId := by
  cases k with
  | zero => simp [init] at h; exact ⟨rfl, h.symm⟩
  | succ k => simp [init] at h

theorem regOk_init : RegOk init := by
  constructor
  · intro k i h; have := (init_syssent_get h).2; cases this
  · intro k i h
    have := (init_syssent_get h).2
    injection this with hi
    subst hi; simp [init]
  · intro k k' i h h'; rw [(init_syssent_get h).1, (init_syssent_get h').1]
  · intro r d i _ h; have := (init_syssent_get h).2; cases this
  · intro r i _ h; simp [init] at h
  · intro d i _ h; simp [init] at h
  · intro r p i c _ _ _ h; simp [init] at h

theorem push_exited {a : Arb} (c : Cmd) : (a.push c).exited = a.exited := by
  unfold Arb.push; split <;> rfl
theorem push_created {a : Arb} (c : Cmd) : (a.push c).created = a.created := by
  unfold Arb.push; split <;> rfl

theorem RegOk.step {s : State} (h : RegOk s) (ha : AllOk s) (hc : CodeOk s) (a : Act) :
    RegOk (step s a) := by
  have hdl := hc.done_le
  have e1 : ∀ j, (s.arbs j).exited = true → (s.arbs j).ended = true :=
    fun j hj => (ha j).gone_ended ((ha j).exited_gone hj)
  have e2 : ∀ j, (s.arbs j).ended = true → (s.arbs j).created = true := fun j => (ha j).ended_created
  have e3 : ∀ j, (s.arbs j).gone = true → (s.arbs j).ended = true := fun j => (ha j).gone_ended
  have e4 : ∀ j, (s.arbs j).recvd ≤ (s.arbs j).sent.length := fun j => (ha j).recvd_le
  obtain ⟨h1, h2, h3, h4, h5, h6, h7⟩ := h
  cases a with
  | newArb i =>
    simp only [Rt.step]; split
    · exact ⟨h1, h2, h3, h4, h5, h6, h7⟩
    · rename_i hcr
      refine ⟨?_, ?_, ?_, ?_, ?_, ?_, ?_⟩ <;> simp only [getElem?_append_single] <;> intros
      iterate 6 grind [upd]
      · rename_i r p j c hr hp hrp hpd he
        have hpl : p < s.syssent.length := by omega
        have hr' : s.syssent[r]? = some (SysCmd.register j) := by grind
        have hp' : s.syssent[p]? = some (SysCmd.exit c) := by grind
        by_cases hj : j = i
        · subst hj; exact absurd (h2 _ _ hr') hcr
        · rw [upd_other _ _ _ _ hj] at he ⊢
          exact h7 r p j c hr' hp' hrp hpd he
  | send i c =>
    simp only [Rt.step]; split
    · refine ⟨?_, ?_, ?_, ?_, ?_, ?_, ?_⟩ <;> intros
      iterate 6 grind [upd, Arb.push]
      · rename_i r p j c' hr hp hrp hpd he
        by_cases hj : j = i
        · subst hj; simp only [upd_same] at he ⊢
          rw [push_ended] at he
          exact (h7 r p j c' hr hp hrp hpd he).push c
        · simp only [upd_other _ _ _ _ hj] at he ⊢
          exact h7 r p j c' hr hp hrp hpd he
    · exact ⟨h1, h2, h3, h4, h5, h6, h7⟩
  | sysSend code =>
    simp only [Rt.step]
    refine ⟨?_, ?_, ?_, ?_, ?_, ?_, ?_⟩ <;> simp only [getElem?_append_single] <;> intros
    iterate 6 grind
    · rename_i r p j c hr hp hrp hpd he
      have hpl : p < s.syssent.length := by omega
      have hr' : s.syssent[r]? = some (SysCmd.register j) := by grind
      have hp' : s.syssent[p]? = some (SysCmd.exit c) := by grind
      exact h7 r p j c hr' hp' hrp hpd he
  | ctrl =>
    simp only [Rt.step]; split
    · exact ⟨h1, h2, h3, h4, h5, h6, h7⟩
    · rename_i code hg
      have hx : ∀ j, (if s.registered j = true then (s.arbs j).push Cmd.stop else s.arbs j).exited = (s.arbs j).exited := by
        intro j; split
        · exact push_exited _
        · rfl
      have hy : ∀ j, (if s.registered j = true then (s.arbs j).push Cmd.stop else s.arbs j).created = (s.arbs j).created := by
        intro j; split
        · exact push_created _
        · rfl
      have hz : ∀ j, (if s.registered j = true then (s.arbs j).push Cmd.stop else s.arbs j).ended = (s.arbs j).ended := by
        intro j; split
        · exact push_ended _
        · rfl
      refine ⟨?_, ?_, ?_, ?_, ?_, ?_, ?_⟩ <;> simp only [hx, hy, hz] <;> intros
      iterate 6 grind
      · rename_i r p j c hr hp hrp hpd he
        by_cases hps : p = s.sysDone
        · subst hps
          have hreg : s.registered j = true := h5 r j hr hrp (by
            cases hh : (s.arbs j).exited
            · rfl
            · rw [e1 j hh] at he; cases he)
          simp only [hreg, if_true]
          apply hasStop_push_stop _ (e4 j)
          cases hh : (s.arbs j).gone
          · rfl
          · rw [e3 j hh] at he; cases he
        · have hpd' : p < s.sysDone + 1 := hpd
          have := h7 r p j c hr hp hrp (by omega) he
          split
          · exact this.push _
          · exact this
    · rename_i i hg
      refine ⟨?_, ?_, ?_, ?_, ?_, ?_, ?_⟩ <;> intros
      iterate 6 grind [upd]
      · rename_i r p j c hr hp hrp hpd he
        have : p ≠ s.sysDone := by intro hh; subst hh; rw [hg] at hp; cases hp
        have hpd' : p < s.sysDone + 1 := hpd
        exact h7 r p j c hr hp hrp (by omega) he
    · rename_i i hg
      refine ⟨?_, ?_, ?_, ?_, ?_, ?_, ?_⟩ <;> intros
      iterate 6 grind [upd]
      · rename_i r p j c hr hp hrp hpd he
        have : p ≠ s.sysDone := by intro hh; subst hh; rw [hg] at hp; cases hp
        have hpd' : p < s.sysDone + 1 := hpd
        exact h7 r p j c hr hp hrp (by omega) he
  | runner i =>
    simp only [Rt.step]
    refine ⟨?_, ?_, ?_, ?_, ?_, ?_, ?_⟩ <;> intros
    iterate 6 grind [upd, Arb.recv]
    · rename_i r p j c' hr hp hrp hpd he
      by_cases hj : j = i
      · subst hj; simp only [upd_same] at he ⊢
        have he0 : (s.arbs j).ended = false := by
          cases hh : (s.arbs j).ended
          · rfl
          · rw [recv_ended_mono hh] at he; cases he
        exact (h7 r p j c' hr hp hrp hpd he0).recv he
      · simp only [upd_other _ _ _ _ hj] at he ⊢
        exact h7 r p j c' hr hp hrp hpd he
  | task i =>
    simp only [Rt.step]
    refine ⟨?_, ?_, ?_, ?_, ?_, ?_, ?_⟩ <;> intros
    iterate 6 grind [upd, Arb.startTask]
    · rename_i r p j c' hr hp hrp hpd he
      by_cases hj : j = i
      · subst hj; simp only [upd_same] at he ⊢
        rw [startTask_ended] at he
        exact (h7 r p j c' hr hp hrp hpd he).startTask
      · simp only [upd_other _ _ _ _ hj] at he ⊢
        exact h7 r p j c' hr hp hrp hpd he
  | close i =>
    simp only [Rt.step]; split
    · rename_i hcl; simp at hcl
      refine ⟨?_, ?_, ?_, ?_, ?_, ?_, ?_⟩ <;> intros
      iterate 6 grind [upd]
      · rename_i r p j c' hr hp hrp hpd he
        by_cases hj : j = i
        · subst hj; simp only [upd_same] at he; simp [hcl.1] at he
        · simp only [upd_other _ _ _ _ hj] at he ⊢
          exact h7 r p j c' hr hp hrp hpd he
    · exact ⟨h1, h2, h3, h4, h5, h6, h7⟩
  | fin i =>
    simp only [Rt.step]; split
    · rename_i hcl; simp at hcl
      refine ⟨?_, ?_, ?_, ?_, ?_, ?_, ?_⟩ <;> simp only [getElem?_append_single] <;> intros
      iterate 6 grind [upd]
      · rename_i r p j c hr hp hrp hpd he
        have hpl : p < s.syssent.length := by omega
        have hr' : s.syssent[r]? = some (SysCmd.register j) := by grind
        have hp' : s.syssent[p]? = some (SysCmd.exit c) := by grind
        by_cases hj : j = i
        · subst hj; simp only [upd_same] at he; simp [e3 _ hcl.1.1] at he
        · simp only [upd_other _ _ _ _ hj] at he ⊢
          exact h7 r p j c hr' hp' hrp hpd he
    · exact ⟨h1, h2, h3, h4, h5, h6, h7⟩

theorem RegOk.run {s : State} (h : RegOk s) (ha : AllOk s) (hc : CodeOk s) (tr : List Act) :
    RegOk (run s tr) := by
  induction tr generalizing s with
  | nil => exact h
  | cons a tr ih => exact ih (h.step ha hc a) (ha.step a) (hc.step a)

/-! ### progress: a buffered `Stop` ends the runner -/

/-- the facts about arbiter `i` that no step destroys: `sent[k] = Stop`, created -/
def StopAt (s : State) (i k : Nat) : Prop :=
  (s.arbs i).sent[k]? = some Cmd.stop ∧ (s.arbs i).created = true

theorem push_sent_get {a : Arb} {k : Nat} {x : Cmd} (c : Cmd) (h : a.sent[k]? = some x) :
    (a.push c).sent[k]? = some x := by
  unfold Arb.push; split
  · exact h
  · exact getElem?_append_single.mpr (Or.inl h)

theorem recv_sent (a : Arb) : a.recv.sent = a.sent := by
  unfold Arb.recv; split
  · split <;> rfl
  · rfl
theorem recv_created (a : Arb) : a.recv.created = a.created := by
  unfold Arb.recv; split
  · split <;> rfl
  · rfl
theorem startTask_sent (a : Arb) : a.startTask.sent = a.sent := by
  unfold Arb.startTask; split
  · rfl
  · split <;> rfl
theorem startTask_created (a : Arb) : a.startTask.created = a.created := by
  unfold Arb.startTask; split
  · rfl
  · split <;> rfl
theorem startTask_recvd (a : Arb) : a.startTask.recvd = a.recvd := by
  unfold Arb.startTask; split
  · rfl
  · split <;> rfl
theorem push_recvd (a : Arb) (c : Cmd) : (a.push c).recvd = a.recvd := by
  unfold Arb.push; split <;> rfl

/-- what one step does to arbiter `j`, as a case list -/
theorem step_arb_cases (s : State) (a : Act) (j : Nat) :
    (step s a).arbs j = s.arbs j ∨
    (∃ c, (step s a).arbs j = (s.arbs j).push c) ∨
    (a = .runner j ∧ (step s a).arbs j = (s.arbs j).recv) ∨
    (step s a).arbs j = (s.arbs j).startTask ∨
    (step s a).arbs j = { s.arbs j with created := true } ∨
    ((s.arbs j).ended = true ∧ (step s a).arbs j = { s.arbs j with gone := true }) ∨
    ((a = .fin j ∧ (s.arbs j).gone = true ∧ (s.arbs j).sys = false) ∧
      (step s a).arbs j = { s.arbs j with exited := true }) := by
  cases a with
  | newArb i =>
    simp only [step]; split
    · exact Or.inl rfl
    · by_cases hj : j = i
      · subst hj; simp
      · simp [upd_other _ _ _ _ hj]
  | send i c =>
    simp only [step]; split
    · by_cases hj : j = i
      · subst hj; exact Or.inr (Or.inl ⟨c, by simp⟩)
      · simp [upd_other _ _ _ _ hj]
    · exact Or.inl rfl
  | sysSend code => exact Or.inl rfl
  | ctrl =>
    simp only [step]; split
    · exact Or.inl rfl
    · by_cases hr : s.registered j = true
      · exact Or.inr (Or.inl ⟨.stop, by simp [hr]⟩)
      · exact Or.inl (by simp [hr])
    · exact Or.inl rfl
    · exact Or.inl rfl
  | runner i =>
    simp only [step]
    by_cases hj : j = i
    · subst hj; exact Or.inr (Or.inr (Or.inl ⟨rfl, by simp⟩))
    · simp [upd_other _ _ _ _ hj]
  | task i =>
    simp only [step]
    by_cases hj : j = i
    · subst hj; simp
    · simp [upd_other _ _ _ _ hj]
  | close i =>
    simp only [step]; split
    · rename_i hc; simp at hc
      by_cases hj : j = i
      · subst hj; simp [hc.1]
      · simp [upd_other _ _ _ _ hj]
    · exact Or.inl rfl
  | fin i =>
    simp only [step]; split
    · rename_i hc; simp at hc
      by_cases hj : j = i
      · subst hj; simp [hc.1.1, hc.2]
      · simp [upd_other _ _ _ _ hj]
    · exact Or.inl rfl

/-- no step changes the `sys` flag -/
theorem sys_step (s : State) (a : Act) (i : Nat) : ((step s a).arbs i).sys = (s.arbs i).sys := by
  rcases step_arb_cases s a i with e | ⟨c, e⟩ | ⟨_, e⟩ | e | e | ⟨_, e⟩ | ⟨_, e⟩ <;> rw [e]
  · unfold Arb.push; split <;> rfl
  · unfold Arb.recv; split
    · split <;> rfl
    · rfl
  · unfold Arb.startTask; split
    · rfl
    · split <;> rfl

theorem sys_run (s : State) (tr : List Act) (i : Nat) : ((run s tr).arbs i).sys = (s.arbs i).sys := by
  induction tr generalizing s with
  | nil => rfl
  | cons a tr ih => simp only [run]; rw [ih, sys_step]

theorem StopAt.step {s : State} {i k : Nat} (h : StopAt s i k) (a : Act) : StopAt (step s a) i k := by
  obtain ⟨h1, h2⟩ := h
  rcases step_arb_cases s a i with e | ⟨c, e⟩ | ⟨_, e⟩ | e | e | ⟨_, e⟩ | ⟨_, e⟩ <;>
    (unfold StopAt; rw [e])
  · exact ⟨h1, h2⟩
  · exact ⟨push_sent_get c h1, by rw [push_created]; exact h2⟩
  · exact ⟨by rw [recv_sent]; exact h1, by rw [recv_created]; exact h2⟩
  · exact ⟨by rw [startTask_sent]; exact h1, by rw [startTask_created]; exact h2⟩
  · exact ⟨h1, rfl⟩
  · exact ⟨h1, h2⟩
  · exact ⟨h1, h2⟩

theorem ended_mono_step {s : State} {i : Nat} (h : (s.arbs i).ended = true) (a : Act) :
    ((step s a).arbs i).ended = true := by
  rcases step_arb_cases s a i with e | ⟨c, e⟩ | ⟨_, e⟩ | e | e | ⟨_, e⟩ | ⟨_, e⟩ <;> rw [e]
  · exact h
  · rw [push_ended]; exact h
  · exact recv_ended_mono h
  · rw [startTask_ended]; exact h
  · exact h
  · exact h
  · exact h

theorem ended_mono_run {s : State} {i : Nat} (h : (s.arbs i).ended = true) (tr : List Act) :
    ((run s tr).arbs i).ended = true := by
  induction tr generalizing s with
  | nil => exact h
  | cons a tr ih => exact ih (ended_mono_step h a)

/-- receiving with a `Stop` at position `k ≥ recvd`: the runner ends or advances by one, not past `k` -/
theorem recv_progress {a : Arb} {k : Nat} (hs : a.sent[k]? = some Cmd.stop) (hc : a.created = true)
    (he : a.ended = false) (hk : a.recvd ≤ k) :
    a.recv.ended = true ∨ (a.recv.recvd = a.recvd + 1 ∧ a.recv.recvd ≤ k) := by
  unfold Arb.recv
  simp only [hc, he, Bool.not_false, Bool.and_self, if_true]
  have hlt : k < a.sent.length := (List.getElem?_eq_some_iff.mp hs).1
  have hsome : a.recvd < a.sent.length := by omega
  cases hg : a.sent[a.recvd]? with
  | none => rw [List.getElem?_eq_none_iff] at hg; omega
  | some x =>
    cases x with
    | stop => exact Or.inl rfl
    | exec t =>
      refine Or.inr ⟨rfl, ?_⟩
      show a.recvd + 1 ≤ k
      have : k ≠ a.recvd := by intro hh; subst hh; rw [hs] at hg; cases hg
      omega

theorem not_runner_frame {s : State} {i : Nat} {a : Act} (ha : a ≠ .runner i) :
    ((step s a).arbs i).recvd = (s.arbs i).recvd ∧ ((step s a).arbs i).ended = (s.arbs i).ended := by
  rcases step_arb_cases s a i with e | ⟨c, e⟩ | ⟨h, _⟩ | e | e | ⟨_, e⟩ | ⟨_, e⟩
  · rw [e]; exact ⟨rfl, rfl⟩
  · rw [e]; exact ⟨push_recvd _ _, push_ended _⟩
  · exact absurd h ha
  · rw [e]; exact ⟨startTask_recvd _, startTask_ended⟩
  · rw [e]; exact ⟨rfl, rfl⟩
  · rw [e]; exact ⟨rfl, rfl⟩
  · rw [e]; exact ⟨rfl, rfl⟩

theorem runnerSteps_cons (i : Nat) (a : Act) (tr : List Act) :
    runnerSteps i (a :: tr) = (if a = .runner i then 1 else 0) + runnerSteps i tr := by
  cases a <;> simp [runnerSteps]

theorem progress_step {s : State} {i k : Nat} (h : StopAt s i k) (he : (s.arbs i).ended = false)
    (hk : (s.arbs i).recvd ≤ k) (a : Act) :
    ((step s a).arbs i).ended = true ∨
    ((s.arbs i).recvd + (if a = .runner i then 1 else 0) ≤ ((step s a).arbs i).recvd ∧
      ((step s a).arbs i).recvd ≤ k) := by
  obtain ⟨h1, h2⟩ := h
  by_cases har : a = .runner i
  · subst har
    have e' : (step s (.runner i)).arbs i = (s.arbs i).recv := by simp [step]
    rcases recv_progress h1 h2 he hk with r | ⟨r1, r2⟩
    · left; rw [e']; exact r
    · right; rw [e']; simp; omega
  · obtain ⟨f1, f2⟩ := not_runner_frame (s := s) har
    right; rw [f1]; simp [har]; exact hk

/-- **the runner terminates**: with a `Stop` buffered at position `k`, after `k + 1 - recvd` of its
own steps — whatever else is interleaved — arbiter `i`'s loop has ended -/
theorem runner_terminates {s : State} {i k : Nat} (h : StopAt s i k) (hk : (s.arbs i).recvd ≤ k)
    (tr : List Act) (hn : k + 1 ≤ (s.arbs i).recvd + runnerSteps i tr) :
    ((run s tr).arbs i).ended = true := by
  induction tr generalizing s with
  | nil => simp [runnerSteps] at hn; omega
  | cons a tr ih =>
    simp only [run]
    cases he : (s.arbs i).ended with
    | true => exact ended_mono_run (ended_mono_step he a) tr
    | false =>
      rcases progress_step h he hk a with r | ⟨r1, r2⟩
      · exact ended_mono_run r tr
      · apply ih (h.step a) r2
        rw [runnerSteps_cons] at hn
        omega

/-! ### life-cycle flags are monotone; `close` then `fin` make `join` return -/

theorem gone_mono_step {s : State} {i : Nat} (h : (s.arbs i).gone = true) (a : Act) :
    ((step s a).arbs i).gone = true := by
  rcases step_arb_cases s a i with e | ⟨c, e⟩ | ⟨_, e⟩ | e | e | ⟨_, e⟩ | ⟨_, e⟩ <;> rw [e]
  · exact h
  · unfold Arb.push; simp [h]
  · unfold Arb.recv; split
    · split <;> exact h
    · exact h
  · unfold Arb.startTask; split
    · exact h
    · split <;> exact h
  · exact h
  · exact h

theorem exited_mono_step {s : State} {i : Nat} (h : (s.arbs i).exited = true) (a : Act) :
    ((step s a).arbs i).exited = true := by
  rcases step_arb_cases s a i with e | ⟨c, e⟩ | ⟨_, e⟩ | e | e | ⟨_, e⟩ | ⟨_, e⟩ <;> rw [e]
  · exact h
  · rw [push_exited]; exact h
  · unfold Arb.recv; split
    · split <;> exact h
    · exact h
  · unfold Arb.startTask; split
    · exact h
    · split <;> exact h
  · exact h
  · exact h

theorem exited_mono_run {s : State} {i : Nat} (h : (s.arbs i).exited = true) (tr : List Act) :
    ((run s tr).arbs i).exited = true := by
  induction tr generalizing s with
  | nil => exact h
  | cons a tr ih => exact ih (exited_mono_step h a)

theorem close_step {s : State} {i : Nat} (h : (s.arbs i).ended = true) :
    ((step s (.close i)).arbs i).gone = true := by
  simp only [step]
  cases hg : (s.arbs i).gone <;> simp [h, hg]

theorem fin_step {s : State} {i : Nat} (h : (s.arbs i).gone = true) (hs : (s.arbs i).sys = false) :
    ((step s (.fin i)).arbs i).exited = true := by
  simp only [step]
  cases hg : (s.arbs i).exited <;> simp [h, hg, hs]

theorem fin_reaches_exit {s : State} {i : Nat} (h : (s.arbs i).gone = true)
    (hs : (s.arbs i).sys = false) (tr : List Act)
    (hm : Act.fin i ∈ tr) : ((run s tr).arbs i).exited = true := by
  induction tr generalizing s with
  | nil => cases hm
  | cons a tr ih =>
    simp only [run]
    by_cases ha : a = .fin i
    · subst ha; exact exited_mono_run (fin_step h hs) tr
    · exact ih (gone_mono_step h a) (by rw [sys_step]; exact hs) (by simpa [Ne.symm ha] using hm)

/-- once the loop has ended, a schedule in which thread `i` gets to run its two remaining steps
(`close i` and later `fin i`) makes `join` return -/
theorem join_returns {s : State} {i : Nat} (h : (s.arbs i).ended = true)
    (hs : (s.arbs i).sys = false) (tr : List Act)
    (hsub : [Act.close i, Act.fin i].Sublist tr) : ((run s tr).arbs i).exited = true := by
  induction tr generalizing s with
  | nil => cases hsub
  | cons a tr ih =>
    simp only [run]
    by_cases ha : a = .close i
    · subst ha
      have hf : Act.fin i ∈ tr := by
        have : [Act.fin i].Sublist tr := by
          cases hsub with
          | cons _ h' => exact (List.sublist_of_cons_sublist h')
          | cons_cons _ h' => exact h'
        exact List.singleton_sublist.mp this
      exact fin_reaches_exit (close_step h) (by rw [sys_step]; exact hs) tr hf
    · apply ih (ended_mono_step h a) (by rw [sys_step]; exact hs)
      cases hsub with
      | cons _ h' => exact h'
      | cons_cons _ h' => exact absurd rfl ha


/-! ### ended / gone arbiters are inert (deregistered_harmless, spawn_false_when_gone) -/

theorem ended_frozen_step {s : State} {i : Nat} (h : (s.arbs i).ended = true)
    (hs : (s.arbs i).sys = false) (a : Act) :
    ((step s a).arbs i).started = (s.arbs i).started ∧ ((step s a).arbs i).recvd = (s.arbs i).recvd ∧
    ((step s a).arbs i).spawned = (s.arbs i).spawned := by
  rcases step_arb_cases s a i with e | ⟨c, e⟩ | ⟨_, e⟩ | e | e | ⟨_, e⟩ | ⟨_, e⟩ <;> rw [e]
  · exact ⟨rfl, rfl, rfl⟩
  · unfold Arb.push; split <;> exact ⟨rfl, rfl, rfl⟩
  · unfold Arb.recv; simp [h]
  · unfold Arb.startTask; simp [h, hs]
  · exact ⟨rfl, rfl, rfl⟩
  · exact ⟨rfl, rfl, rfl⟩
  · exact ⟨rfl, rfl, rfl⟩

theorem gone_frozen_step {s : State} {i : Nat} (h : (s.arbs i).gone = true) (a : Act) :
    ((step s a).arbs i).sent = (s.arbs i).sent := by
  rcases step_arb_cases s a i with e | ⟨c, e⟩ | ⟨_, e⟩ | e | e | ⟨_, e⟩ | ⟨_, e⟩ <;> rw [e]
  · unfold Arb.push; simp [h]
  · exact recv_sent _
  · exact startTask_sent _

theorem ended_frozen_run {s : State} {i : Nat} (h : (s.arbs i).ended = true)
    (hs : (s.arbs i).sys = false) (tr : List Act) :
    ((run s tr).arbs i).started = (s.arbs i).started := by
  induction tr generalizing s with
  | nil => rfl
  | cons a tr ih =>
    simp only [run]; rw [ih (ended_mono_step h a) (by rw [sys_step]; exact hs)]
    exact (ended_frozen_step h hs a).1

/-- `join` returning means the `Deregister` is in the system queue -/
def ExitOk (s : State) : Prop :=
  ∀ i, (s.arbs i).exited = true → SysCmd.deregister i ∈ s.syssent

theorem exitOk_init : ExitOk init := by
  intro i h
  simp only [init, upd] at h
  split at h <;> simp at h

theorem ExitOk.step {s : State} (h : ExitOk s) (a : Act) : ExitOk (Rt.step s a) := by
  intro j hj
  have hsub : ∀ x, x ∈ s.syssent → x ∈ (Rt.step s a).syssent := by
    intro x hx
    cases a <;> simp only [Rt.step] <;> (try split) <;> simp [hx]
  rcases step_arb_cases s a j with e | ⟨c, e⟩ | ⟨_, e⟩ | e | e | ⟨_, e⟩ | ⟨⟨ha, hg, hns⟩, e⟩
  · rw [e] at hj; exact hsub _ (h j hj)
  · rw [e, push_exited] at hj; exact hsub _ (h j hj)
  · rw [e] at hj
    have : (s.arbs j).recv.exited = (s.arbs j).exited := by
      unfold Arb.recv; split
      · split <;> rfl
      · rfl
    rw [this] at hj; exact hsub _ (h j hj)
  · rw [e] at hj
    have : (s.arbs j).startTask.exited = (s.arbs j).exited := by
      unfold Arb.startTask; split
      · rfl
      · split <;> rfl
    rw [this] at hj; exact hsub _ (h j hj)
  · rw [e] at hj; exact hsub _ (h j hj)
  · rw [e] at hj; exact hsub _ (h j hj)
  · subst ha
    by_cases hx : (s.arbs j).exited = true
    · exact hsub _ (h j hx)
    · simp only [Rt.step]
      simp [hg, hx, hns]

theorem ExitOk.run {s : State} (h : ExitOk s) (tr : List Act) : ExitOk (run s tr) := by
  induction tr generalizing s with
  | nil => exact h
  | cons a tr ih => exact ih (h.step a)

/-! ### reachable states -/

/-- exactly the arbiter registered under `usize::MAX` is the system arbiter -/
def SysFlagOk (s : State) : Prop := ∀ i, (s.arbs i).sys = decide (i = sysArbId)

theorem sysFlagOk_init : SysFlagOk init := by
  intro i
  simp only [init, upd]
  split <;> simp [*]

/-- the system arbiter's `Register` stays the first command of the system queue -/
theorem syssent_get_step {s : State} {k : Nat} {x : SysCmd} (h : s.syssent[k]? = some x) (a : Act) :
    (step s a).syssent[k]? = some x := by
  cases a <;> simp only [Rt.step] <;> (try split) <;>
    first
    | exact h
    | exact getElem?_append_single.mpr (Or.inl h)

theorem syssent_get_run {s : State} {k : Nat} {x : SysCmd} (h : s.syssent[k]? = some x) (tr : List Act) :
    (run s tr).syssent[k]? = some x := by
  induction tr generalizing s with
  | nil => exact h
  | cons a tr ih => exact ih (syssent_get_step h a)

structure Reach (s : State) : Prop where
  all : AllOk s
  code : CodeOk s
  reg : RegOk s
  exit : ExitOk s
  sysflag : SysFlagOk s
  sysreg : s.syssent[0]? = some (SysCmd.register sysArbId)

theorem reach_init : Reach init :=
  ⟨allOk_init, codeOk_init, regOk_init, exitOk_init, sysFlagOk_init, rfl⟩

theorem Reach.run {s : State} (h : Reach s) (tr : List Act) : Reach (run s tr) :=
  ⟨h.all.run tr, h.code.run tr, h.reg.run h.all h.code tr, h.exit.run tr,
   fun i => by rw [sys_run]; exact h.sysflag i, syssent_get_run h.sysreg tr⟩

/-- on everything but the system arbiter the `sys` flag is off -/
theorem Reach.notsys {s : State} (h : Reach s) {i : Nat} (hi : i ≠ sysArbId) : (s.arbs i).sys = false := by
  rw [h.sysflag i]; simp [hi]

theorem run_append (s : State) (t1 t2 : List Act) : run s (t1 ++ t2) = run (run s t1) t2 := by
  induction t1 generalizing s with
  | nil => rfl
  | cons a t ih => exact ih (step s a)

theorem sends_stable_step {s : State} (h : CodeOk s) (hne : s.sends ≠ []) (a : Act) :
    (step s a).sends = s.sends := by
  have hst : s.stopTx = false := by
    have h1 := h.sends_eq; have h2 := h.stopTx_eq
    cases hf : firstExit (s.syssent.take s.sysDone) <;> simp [hf] at h1 h2
    · exact absurd h1 hne
    · exact h2
  cases a <;> simp only [step] <;> (try split) <;> simp [hst]

theorem sends_stable_run {s : State} (h : CodeOk s) (hne : s.sends ≠ []) (tr : List Act) :
    (run s tr).sends = s.sends := by
  induction tr generalizing s with
  | nil => rfl
  | cons a tr ih =>
    have e := sends_stable_step h hne a
    simp only [run]; rw [ih (h.step a) (by rw [e]; exact hne), e]

/-- an arbiter whose thread has finished is untouched by every later step -/
theorem exited_inert {s : State} (ha : AllOk s) {i : Nat} (h : (s.arbs i).exited = true) (a : Act) :
    (step s a).arbs i = s.arbs i := by
  have hg := (ha i).exited_gone h
  have he := (ha i).gone_ended hg
  have hc := (ha i).ended_created he
  have hns := (ha i).exited_notsys h
  rcases step_arb_cases s a i with e | ⟨c, e⟩ | ⟨_, e⟩ | e | e | ⟨_, e⟩ | ⟨_, e⟩ <;> rw [e]
  · unfold Arb.push; simp [hg]
  · unfold Arb.recv; simp [he]
  · unfold Arb.startTask; simp [he, hns]
  · cases hh : s.arbs i; simp [hh] at hc; simp [hc]
  · cases hh : s.arbs i; simp [hh] at hg; simp [hg]
  · cases hh : s.arbs i; simp [hh] at h; simp [h]

theorem mem_execIds {l : List Cmd} {t : Nat} : t ∈ execIds l ↔ Cmd.exec t ∈ l := by
  induction l with
  | nil => simp [execIds]
  | cons x r ih => cases x <;> simp [execIds, ih]


/-! ### the controller catches up; send histories only grow -/

theorem ctrl_step_advances {s : State} (h : s.sysDone < s.syssent.length) :
    (step s .ctrl).sysDone = s.sysDone + 1 ∧ (step s .ctrl).syssent = s.syssent := by
  have hg : s.syssent[s.sysDone]? = some s.syssent[s.sysDone] := List.getElem?_eq_getElem h
  simp only [step]
  rw [hg]
  cases s.syssent[s.sysDone] <;> simp

/-- `n` controller steps handle the next `n` buffered commands (nothing else touches the queue) -/
theorem ctrl_catches_up (n : Nat) (s : State) (h : s.sysDone + n ≤ s.syssent.length) :
    (run s (List.replicate n .ctrl)).sysDone = s.sysDone + n ∧
    (run s (List.replicate n .ctrl)).syssent = s.syssent := by
  induction n generalizing s with
  | zero => exact ⟨rfl, rfl⟩
  | succ n ih =>
    have h1 := ctrl_step_advances (s := s) (by omega)
    have h2 := ih (step s .ctrl) (by rw [h1.1, h1.2]; omega)
    simp only [List.replicate, run]
    rw [h2.1, h2.2, h1.1, h1.2]
    exact ⟨by omega, rfl⟩

theorem sent_prefix_step (s : State) (a : Act) (i : Nat) :
    (s.arbs i).sent <+: ((step s a).arbs i).sent := by
  rcases step_arb_cases s a i with e | ⟨c, e⟩ | ⟨_, e⟩ | e | e | ⟨_, e⟩ | ⟨_, e⟩ <;> rw [e]
  · exact List.prefix_refl _
  · unfold Arb.push; split
    · exact List.prefix_refl _
    · exact List.prefix_append _ _
  · rw [recv_sent]; exact List.prefix_refl _
  · rw [startTask_sent]; exact List.prefix_refl _
  · exact List.prefix_refl _
  · exact List.prefix_refl _
  · exact List.prefix_refl _

theorem sent_prefix_run (s : State) (tr : List Act) (i : Nat) :
    (s.arbs i).sent <+: ((run s tr).arbs i).sent := by
  induction tr generalizing s with
  | nil => exact List.prefix_refl _
  | cons a tr ih => exact (sent_prefix_step s a i).trans (ih (step s a))

/-- what follows a `Stop` in the send history is not in front of the first `Stop` -/
theorem preStop_append_of_mem {l : List Cmd} (h : Cmd.stop ∈ l) (r : List Cmd) :
    preStop (l ++ r) = preStop l := by
  induction l with
  | nil => cases h
  | cons x l ih =>
    cases x with
    | stop => simp [preStop, notStop]
    | exec t =>
      have h' : Cmd.stop ∈ l := by
        rcases List.mem_cons.mp h with e | e
        · cases e
        · exact e
      have := ih h'
      simp only [preStop] at this ⊢
      simp [List.takeWhile, notStop, this]

/-- a prefix `take k` of `A ++ [u] ++ R` that contains `u ∉ A` contains all of `A ++ [u]` -/
theorem take_covers {α : Type} [DecidableEq α] (A R : List α) (u : α) (k : Nat) (hA : u ∉ A)
    (hu : u ∈ (A ++ [u] ++ R).take k) : A ++ [u] <+: (A ++ [u] ++ R).take k := by
  have hlen : A.length < k := by
    apply Classical.byContradiction
    intro hle
    have hle : k ≤ A.length := by omega
    rw [List.append_assoc, List.take_append_of_le_length hle] at hu
    exact hA (List.mem_of_mem_take hu)
  have h1 : A ++ [u] = (A ++ [u] ++ R).take (A.length + 1) := by
    rw [List.take_append_of_le_length (by simp)]
    rw [List.take_of_length_le (by simp)]
  have h2 : (A ++ [u] ++ R).take (A.length + 1) <+: (A ++ [u] ++ R).take k :=
    List.take_prefix_take_left (show A.length + 1 ≤ k by omega)
  rw [← h1] at h2
  exact h2

theorem preStop_subset (l : List Cmd) : ∀ x ∈ preStop l, x ∈ l := fun _ hx =>
  (List.takeWhile_prefix _).subset hx

theorem TLS.run_append (t : TLS) (a b : List TAct) : TLS.run t (a ++ b) = TLS.run (TLS.run t a) b := by
  induction a generalizing t with
  | nil => rfl
  | cons x r ih => exact ih (t.step x)

theorem blockOnFuel_spec {α : Type} (f : Fut α) (fuel : Nat) (h : f.pend < fuel) :
    blockOnFuel fuel f = some f.out := by
  induction fuel generalizing f with
  | zero => omega
  | succ n ih =>
    obtain ⟨p, o⟩ := f
    cases p with
    | zero => simp [blockOnFuel, Fut.poll]
    | succ p =>
      simp only [blockOnFuel, Fut.poll]
      exact ih ⟨p, o⟩ (by simp at h ⊢; omega)


end ActixNet.Rt
