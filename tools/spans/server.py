"""T1 spans for actix-server (C01-C08): counter, availability bitset, error classification, timings."""
W = "actix-server/src/worker.rs"
A = "actix-server/src/accept.rs"
V = "actix-server/src/availability.rs"
S = "actix-server/src/server.rs"

# ---- worker.rs: the per-worker connection counter ------------------------------------------------
register("srv_counter_init", span_expr(W, "new", "Counter", r"AtomicUsize::new\(([^)]*)\)", "wcInit", "", "Nat", {}))
_C = dict(reads={"self.counter.fetch_add(_,_)": "old", "self.counter.fetch_sub(_,_)": "old",
                 "self.counter.load(_)": "raw", "self.limit": "limit"})
register("srv_counter_inc", span_fn(W, "inc", "Counter", "wcIncStill", "(old limit : Nat)", "Bool",
         dict(_C, require=[r"fetch_add\(\s*1\s*,"])))
register("srv_counter_dec", span_fn(W, "dec", "Counter", "wcDecCrossed", "(old limit : Nat)", "Bool",
         dict(_C, require=[r"fetch_sub\(\s*1\s*,"])))
register("srv_counter_total", span_fn(W, "total", "Counter", "wcTotal", "(raw : Nat)", "Nat", dict(_C)))
register("srv_worker_timed_out", span_expr(W, "poll", "Future for ServerWorker",
         r"else if (shutdown\.start_from\.elapsed\(\)\s*[<>=!]+\s*this\.shutdown_timeout)", "wkTimedOut",
         "(elapsed timeout : Nat)", "Bool",
         dict(reads={"shutdown.start_from.elapsed()": "elapsed", "this.shutdown_timeout": "timeout"})))
register("srv_worker_tick_first", span_expr(W, "handle_stop", "ServerWorker",
         r"timer:\s*Box::pin\(sleep\((Duration::from_\w+\([^)]*\))\)\)", "wkTickFirstMs", "", "Nat", {}))
register("srv_worker_tick_next", span_expr(W, "poll", "Future for ServerWorker",
         r"let time = Instant::now\(\)\s*\+\s*(Duration::from_\w+\([^)]*\));", "wkTickNextMs", "", "Nat", {}))

# ---- accept.rs -------------------------------------------------------------------------------------
register("srv_connection_error", span_fn(A, "connection_error", None, "connectionError", "(kind : ErrorKind)", "Bool",
         dict(reads={"e.kind()": "kind"}, kinds=("kind",))))
register("srv_backoff_ms", span_expr(A, "accept", "Accept",
         r"info\.timeout\s*=\s*Some\(Instant::now\(\)\s*\+\s*(Duration::from_\w+\([^)]*\))\)", "backoffMs", "", "Nat", {}))
register("srv_poll_timeout_ms", span_const(A, "TIMEOUT_DURATION_ON_ERROR", "pollTimeoutMs"))

# ---- availability.rs: the 4 x u128 bitset ------------------------------------------------------------
_B = dict(word="BitVec 128", words=("word",))
register("srv_avail_offset", span_fn(V, "offset", "Availability", "availOffset", "(idx : Nat)", "Nat × Nat", dict(reads={"idx": "idx"})))
register("srv_avail_get", span_fn(V, "get_available", "Availability", "availGet", "(word : BitVec 128) (idx : Nat)", "Bool",
         dict(_B, reads={"self.0[_]": "word", "idx": "idx"}, skip=[r"^let \(tuple\) = Self::offset"])))
register("srv_avail_set", span_fn(V, "set_available", "Availability", "availSet",
         "(word : BitVec 128) (idx : Nat) (avail : Bool)", "BitVec 128",
         dict(_B, reads={"self.0[_]": "word", "idx": "idx", "avail": "avail"}, lvalues={"self.0[_]": "word"}, bools=("avail",), state=["word"],
              result="state", skip=[r"^let \(tuple\) = Self::offset"])))
register("srv_avail_any", span_fn(V, "available", "Availability", "availAny", "(words : List (BitVec 128))", "Bool",
         dict(_B, reads={"self.0": "words"})))


# ---- server.rs: signal -> stop kind -----------------------------------------------------------------
def _signals(src):
    m = re.search(r"fn map_signal\b.*?\n    \}\n", src, re.S)
    if not m:
        raise Fail("fn map_signal not found")
    body = m.group(0)
    arms = re.findall(r"SignalKind::(\w+)\s*=>\s*\{.*?graceful:\s*(true|false)", body, re.S)
    got = dict(arms)
    if sorted(got) != ["Int", "Quit", "Term"] or len(arms) != 3:
        raise Fail("map_signal: expected exactly the arms Int, Term, Quit with a `graceful:` field, found %r" % (arms,))
    lean = "inductive Signal where | Int | Term | Quit\nderiving DecidableEq, Repr\n\n"
    lean += "def mapSignalGraceful : Signal → Bool\n" + "".join("  | .%s => %s\n" % (k, got[k]) for k in ["Int", "Term", "Quit"])
    return lean.rstrip("\n"), body


register("srv_map_signal", span_custom(S, _signals))


# ---- waker queue: the critical sections -----------------------------------------------------------------
# `WakerQueue::wake` pushes under the queue's lock; `Accept::handle_waker` pops under a guard taken inside the loop and, on
# an empty pop, resets the queue UNDER THE SAME GUARD (no unlock between "found empty" and "replaced"): that atomicity is
# what lets the model treat "pop returned None" as one step (Model/WakerQueue.lean: `lossless`).
def _facts(facts, what, frag):
    bad = [n for n, ok in facts if not ok]
    if bad:
        raise Fail("%s: %s no longer hold(s) syntactically" % (what, ", ".join(bad)))
    return "\n".join("def %s : Bool := true" % n for n, _ in facts), frag


def _waker_drain(src):
    m = re.search(r"fn handle_waker\b.*?\n    \}\n", src, re.S)
    if not m:
        raise Fail("fn handle_waker not found")
    body = m.group(0)
    sq = re.sub(r"\s+", "", body)
    none_arm = re.search(r"None=>\{((?:(?!=>).)*?)\}\}\}\}$", sq)
    if not none_arm:
        raise Fail("handle_waker: the `None => { … }` arm (queue drained) is not the last arm of the match")
    arm = none_arm.group(1)
    return _facts([
        ("wqGuardPerIteration", "loop{" in sq and "letmutguard=self.waker_queue.guard();" in sq.split("loop{", 1)[1]),
        ("wqPopUnderGuard", "matchguard.pop_front(){" in sq),
        ("wqDrainedResetsUnderSameGuard", arm.startswith("WakerQueue::reset(&mutguard);") and "drop(guard)" not in arm and ".guard()" not in arm),
        ("wqDrainedReturns", arm.endswith("returnfalse;")),
    ], "waker queue drain (Accept::handle_waker)", body)


def _waker_wake(src):
    sq = re.sub(r"\s+", "", src)
    push = '.lock().expect("FailedtolockWakerQueue").push_back(interest);'
    return _facts([
        ("wqWakePushesUnderLock", ("queue" + push) in sq),
        ("wqWakeRingsAfterPush", push in sq and sq.find("waker.wake()", sq.find(push)) != -1),
        ("wqResetIsSwapWithEmpty", "fnreset(queue:&mutVecDeque<WakerInterest>){std::mem::swap(&mutVecDeque::<WakerInterest>::with_capacity(16),queue);}" in sq),
    ], "waker queue (WakerQueue::wake / reset)", src)


register("srv_waker_drain", span_custom(A, _waker_drain))
register("srv_waker_wake", span_custom("actix-server/src/waker_queue.rs", _waker_wake))
