import ActixNet.Lemmas.SrvCursor
/-!
The round-robin cursor stands right behind the worker that received the last connection.

Every successful `send_connection` ends in `set_next` at the slot it sent through, so right after it
`handles[pos] = w` and `next = (pos + 1) % handles.len()` for the entry `(c, w)` it appended to the
dispatch log.  What follows in the same iteration (environment actions, listener bookkeeping,
`WorkerAvailable`, `Pause` / `Resume` / `Stop`, time-outs) leaves `next` and `handles` alone; a new
`Worker` handle is pushed at the END of `handles`, so the slot of every existing handle is stable,
but the LENGTH changes: `set_next` computed the modulus with the length `n` at the time of the send.
`remove_next` (`swap_remove`) reorders `handles`, but it appends to `faultedLog`, so the statement is
about steps that leave the fault log alone.

* `Trk s s'` — the dispatch log grows by appending, `handles` grows by appending while the fault log
  is unchanged, and if a connection was dispatched (fault log unchanged, fault-free outcome) the cursor
  is `(pos + 1) % n` for a slot `pos < n` holding the worker of the LAST log entry, where
  `s.handles.length ≤ n ≤ s'.handles.length` is the number of handles at the time of that send.
* `Fol s s'` — `CurR s s' ∧ Trk s s'`; transitive (`Fol.trans`), holds for one iteration (`poll_fol`).
-/
namespace ActixNet.Srv
open ActixNet

/-- the cursor of `s'` is right behind slot `pos` (modulus `n`, at least `lo` handles then) and that
slot holds worker `w` -/
def Behind (lo : Nat) (s' : St) (w : Nat) : Prop :=
  ∃ pos n, pos < n ∧ lo ≤ n ∧ n ≤ s'.handles.length ∧ s'.handles[pos]? = some w ∧ s'.next = (pos + 1) % n

def Trk (s s' : St) : Prop :=
  s.dispatched <+: s'.dispatched ∧ s.faultedLog.length ≤ s'.faultedLog.length ∧
  (s.fault.isSome = true → s'.fault.isSome = true) ∧
  (s'.faultedLog.length = s.faultedLog.length → s.handles <+: s'.handles) ∧
  (s'.faultedLog.length = s.faultedLog.length → s'.fault = none → s.dispatched.length < s'.dispatched.length →
    ∀ c w, s'.dispatched.getLast? = some (c, w) → Behind s.handles.length s' w)

theorem Behind.mono {lo lo' : Nat} {s' : St} {w : Nat} (h : Behind lo s' w) (hl : lo' ≤ lo) : Behind lo' s' w := by
  obtain ⟨pos, n, h1, h2, h3, h4, h5⟩ := h
  exact ⟨pos, n, h1, by omega, h3, h4, h5⟩

/-- the state moves on without touching the cursor, appending to `handles` at most -/
theorem Behind.later {lo : Nat} {b c : St} {w : Nat} (h : Behind lo b w) (hp : b.handles <+: c.handles)
    (hn : c.next = b.next) : Behind lo c w := by
  obtain ⟨pos, n, h1, h2, h3, h4, h5⟩ := h
  have hl := hp.length_le
  obtain ⟨t, ht⟩ := hp
  refine ⟨pos, n, h1, h2, by omega, ?_, by rw [hn]; exact h5⟩
  rw [← ht, List.getElem?_append_left (by omega)]; exact h4

theorem Trk.refl (s : St) : Trk s s :=
  ⟨List.prefix_refl _, Nat.le_refl _, id, fun _ => List.prefix_refl _, fun _ _ h => absurd h (Nat.lt_irrefl _)⟩

/-- composition: the second step must also satisfy `CurR` (it keeps the cursor if it logs nothing) -/
theorem Trk.trans {a b c : St} (h1 : Trk a b) (h2 : Trk b c) (hc : CurR b c) : Trk a c := by
  obtain ⟨d1, f1, k1, p1, t1⟩ := h1
  obtain ⟨d2, f2, k2, p2, t2⟩ := h2
  refine ⟨d1.trans d2, by omega, fun h => k2 (k1 h), fun hf => (p1 (by omega)).trans (p2 (by omega)), ?_⟩
  intro hf hn hlt c0 w hl
  have hfb : b.faultedLog.length = a.faultedLog.length := by omega
  have hfc : c.faultedLog.length = b.faultedLog.length := by omega
  have hb : b.fault = none := isSome_of_none_imp k2 hn
  have hab := (p1 hfb).length_le
  have hle := d2.length_le
  by_cases hbc : b.dispatched.length < c.dispatched.length
  · exact (t2 hfc hn hbc c0 w hl).mono hab
  · have he : b.dispatched = c.dispatched := d2.eq_of_length (by omega)
    rw [← he] at hl hlt
    exact (t1 hfb hb hlt c0 w hl).later (p2 hfc) (hc.2.2.2 (by rw [he]) hfc hn)

/-! ### `KeepH`: logs, cursor and `handles` untouched -/

def KeepH (s s' : St) : Prop := Keep s s' ∧ s'.handles = s.handles

theorem KeepH.refl (s : St) : KeepH s s := ⟨Keep.refl s, rfl⟩
theorem KeepH.trans {a b c : St} (h1 : KeepH a b) (h2 : KeepH b c) : KeepH a c :=
  ⟨h1.1.trans h2.1, h2.2.trans h1.2⟩
/-- a record update of fields other than the logs, the cursor, `handles`, `fault` -/
theorem KeepH.rfl' {s s' : St} (h1 : s'.dispatched = s.dispatched) (h2 : s'.faultedLog = s.faultedLog)
    (h3 : s'.next = s.next) (h4 : s'.fault = s.fault) (h5 : s'.handles = s.handles) : KeepH s s' :=
  ⟨⟨h1, h2, h3, by rw [h4]; exact id⟩, h5⟩

theorem setAvail_handles (s : St) (i : Nat) (v : Bool) : (setAvail s i v).handles = s.handles := by
  unfold setAvail; split <;> rfl
theorem setAvail_keepH (s : St) (i : Nat) (v : Bool) : KeepH s (setAvail s i v) :=
  ⟨setAvail_keep s i v, setAvail_handles s i v⟩
theorem yieldPt_keepH (cfg : Cfg) (s : St) : KeepH s (yieldPt cfg s) := ⟨yieldPt_keep cfg s, yieldPt_handles cfg s⟩
theorem runEnv_keepH (cfg : Cfg) (as : List EnvAct) (s : St) : KeepH s (runEnv cfg s as) :=
  ⟨runEnv_keep cfg as s, runEnv_handles cfg as s⟩
theorem envStep_keepH (cfg : Cfg) (s : St) (a : EnvAct) : KeepH s (envStep cfg s a).1 :=
  ⟨envStep_keep cfg s a, envStep_handles cfg s a⟩

theorem register_keepH (s : St) (l : Nat) : KeepH s (register s l) := by
  refine ⟨register_keep s l, ?_⟩; unfold register; simp only; split <;> rfl
theorem deregister_keepH (s : St) (l : Nat) : KeepH s (deregister s l) := ⟨deregister_keep s l, rfl⟩
theorem setTimeout_keepH (s : St) (d : Nat) : KeepH s (setTimeout s d) := by
  refine ⟨setTimeout_keep s d, ?_⟩; unfold setTimeout; split
  · split <;> rfl
  · rfl

theorem deregisterAllFrom_handles : ∀ (ls : List Nat) (s : St), (deregisterAllFrom s ls).handles = s.handles := by
  intro ls; induction ls with
  | nil => intro s; rfl
  | cons l ls ih =>
    intro s; simp only [deregisterAllFrom]; rw [ih]
    split
    · rfl
    · rfl
theorem deregisterAll_keepH (s : St) : KeepH s (deregisterAll s) :=
  ⟨deregisterAll_keep s, deregisterAllFrom_handles _ s⟩

theorem registerAllFrom_handles : ∀ (ls : List Nat) (s : St), (registerAllFrom s ls).handles = s.handles := by
  intro ls; induction ls with
  | nil => intro s; rfl
  | cons l ls ih => intro s; simp only [registerAllFrom]; rw [ih, (register_keepH _ l).2]
theorem registerAllFrom_keepH (ls : List Nat) (s : St) : KeepH s (registerAllFrom s ls) :=
  ⟨registerAllFrom_keep ls s, registerAllFrom_handles ls s⟩

theorem cleanupAll_keepH (s : St) : KeepH s (cleanupAll s) := ⟨cleanupAll_keep s, rfl⟩
theorem clearEdges_keepH (s : St) : KeepH s (clearEdges s) := ⟨clearEdges_keep s, rfl⟩

theorem wakePrim_keepH (s : St) (idx : Nat) : KeepH s (wakePrim s idx) := by
  unfold wakePrim; split
  · exact setAvail_keepH s idx true
  · exact KeepH.refl s

theorem acceptSys_keepH (s : St) (l : Nat) : KeepH s (acceptSys s l).1 := by
  refine ⟨acceptSys_keep s l, ?_⟩
  unfold acceptSys; simp only
  repeat' split
  all_goals rfl

theorem processTimeoutFrom_handles (now : Nat) : ∀ (ls : List Nat) (s : St), (processTimeoutFrom s now ls).handles = s.handles := by
  intro ls; induction ls with
  | nil => intro s; rfl
  | cons l ls ih =>
    intro s; simp only [processTimeoutFrom]
    split
    · exact ih s
    · rw [ih]
      split
      · exact (setTimeout_keepH _ _).2
      · split
        · exact (register_keepH _ l).2
        · rfl

theorem processTimeout_keepH (s : St) : KeepH s (processTimeout s) := by
  refine ⟨processTimeout_keep s, ?_⟩
  unfold processTimeout; split
  · rfl
  · exact processTimeoutFrom_handles _ _ _

theorem pollFinish_keepH (r : St × Bool) : KeepH r.1 (pollFinish r) := by
  refine ⟨pollFinish_keep r, ?_⟩
  unfold pollFinish; split
  · rfl
  · exact (processTimeout_keepH r.1).2

theorem incPrim_keepH (cfg : Cfg) (s : St) (w i : Nat) : KeepH s (incPrim cfg s w i) := by
  refine ⟨incPrim_keep cfg s w i, ?_⟩
  unfold incPrim; simp only; split
  · rfl
  · exact setAvail_handles _ _ _

/-! ### from the step classes to `Trk` -/

theorem KeepH.trk {a b : St} (h : KeepH a b) : Trk a b := by
  obtain ⟨⟨d, f, _, k⟩, hh⟩ := h
  refine ⟨by rw [d]; exact List.prefix_refl _, by rw [f]; exact Nat.le_refl _, k,
    fun _ => by rw [hh]; exact List.prefix_refl _, fun _ _ hlt => ?_⟩
  rw [d] at hlt; exact absurd hlt (Nat.lt_irrefl _)

/-- the outcome is a fault (or the fault log grew): the clauses about `handles` and the cursor are void -/
theorem Trk.of_void {a b : St} (hd : b.dispatched = a.dispatched) (hf : a.faultedLog.length ≤ b.faultedLog.length)
    (hk : a.fault.isSome = true → b.fault.isSome = true)
    (hp : b.faultedLog.length = a.faultedLog.length → a.handles <+: b.handles) : Trk a b := by
  refine ⟨by rw [hd]; exact List.prefix_refl _, hf, hk, hp, fun _ _ hlt => ?_⟩
  rw [hd] at hlt; exact absurd hlt (Nat.lt_irrefl _)

/-- logs and `handles` untouched, a fault stays a fault; the cursor may move (`set_next` over an unavailable worker) -/
def LogsH (s s' : St) : Prop := Logs s s' ∧ s'.handles = s.handles

theorem KeepH.logsH {a b : St} (h : KeepH a b) : LogsH a b := ⟨h.1.logs, h.2⟩
theorem LogsH.trans {a b c : St} (h1 : LogsH a b) (h2 : LogsH b c) : LogsH a c :=
  ⟨h1.1.trans h2.1, h2.2.trans h1.2⟩

theorem setNext_logsH (s : St) : LogsH s (setNext s) := by
  refine ⟨setNext_logs s, ?_⟩
  unfold setNext; split <;> rfl

theorem LogsH.trans_trk {a b c : St} (h1 : LogsH a b) (h2 : Trk b c) : Trk a c := by
  obtain ⟨⟨d1, f1, k1⟩, hh⟩ := h1
  obtain ⟨d2, f2, k2, p2, t2⟩ := h2
  rw [d1] at d2 t2; rw [f1] at f2 p2 t2; rw [hh] at p2 t2
  exact ⟨d2, f2, fun h => k2 (k1 h), p2, t2⟩

/-- `WakerInterest::Worker`: the new handle goes to the END of `handles` -/
theorem addWorker_trk (s : St) (w : Nat) : Trk s (addWorker s w) := by
  have hk := addWorker_keep s w
  refine Trk.of_void hk.1 (by rw [hk.2.1]; exact Nat.le_refl _) hk.2.2.2 (fun _ => ?_)
  unfold addWorker; simp only
  rw [setAvail_handles]; exact List.prefix_append _ _

theorem sendFail_logs (s : St) (w : Nat) (c : Conn) :
    (sendFail s w c).1.dispatched = s.dispatched ∧
    (sendFail s w c).1.faultedLog.length = s.faultedLog.length + 1 ∧
    (s.fault.isSome = true → (sendFail s w c).1.fault.isSome = true) := by
  have hr : Keep { s with handles := swapRemove s.handles s.next, faultedLog := s.faultedLog ++ [(s.wk w).idx] }
      (removeNext s w) := setAvail_keep _ _ false
  have hf : (removeNext s w).faultedLog.length = s.faultedLog.length + 1 := by rw [hr.2.1]; simp
  unfold sendFail; simp only
  split
  · exact ⟨hr.1, hf, hr.2.2.2⟩
  · split
    · exact ⟨hr.1, hf, hr.2.2.2⟩
    · exact ⟨hr.1, hf, hr.2.2.2⟩

/-! ### `send_connection`, the forced-send loop, `accept_one` -/

/-- **a successful `send_connection` leaves the cursor right behind the slot it sent through** -/
theorem sendConnection_trk (cfg : Cfg) (s : St) (c : Conn) : Trk s (sendConnection cfg s c).1 := by
  unfold sendConnection
  split
  · exact Trk.refl s
  · split
    · exact Trk.of_void rfl (Nat.le_refl _) (fun _ => rfl) (fun _ => List.prefix_refl _)
    · rename_i w hw
      split
      · simp only
        have hm : KeepH (sendPrim s w c) (incPrim cfg (yieldPt cfg (sendPrim s w c)) w (s.wk w).idx) :=
          (yieldPt_keepH cfg _).trans (incPrim_keepH cfg _ w _)
        generalize incPrim cfg (yieldPt cfg (sendPrim s w c)) w (s.wk w).idx = m at hm
        obtain ⟨⟨md, mf, mn, mk⟩, mh⟩ := hm
        have md' : m.dispatched = s.dispatched ++ [(c, w)] := md
        have mf' : m.faultedLog = s.faultedLog := mf
        have mn' : m.next = s.next := mn
        have mh' : m.handles = s.handles := mh
        have mk' : s.fault.isSome = true → m.fault.isSome = true := mk
        have hpos : s.next < s.handles.length := by
          have := List.getElem?_eq_some_iff.mp hw; exact this.1
        obtain ⟨⟨ld, lf, lk⟩, lh⟩ := setNext_logsH m
        refine ⟨by rw [ld, md']; exact List.prefix_append _ _, by rw [lf, mf']; exact Nat.le_refl _,
          fun h => lk (mk' h), fun _ => by rw [lh, mh']; exact List.prefix_refl _, ?_⟩
        intro _ hn _ c0 w0 hl
        rw [ld, md', List.getLast?_concat] at hl
        have hw0 : w = w0 := by injection hl with hl; injection hl
        subst hw0
        refine ⟨s.next, s.handles.length, hpos, Nat.le_refl _, by rw [lh, mh']; exact Nat.le_refl _,
          by rw [lh, mh']; exact hw, ?_⟩
        unfold setNext at hn ⊢
        split
        · rename_i h0; rw [if_pos h0] at hn; cases hn
        · simp only; rw [mn', mh']
      · obtain ⟨hd, hf, hk⟩ := sendFail_logs s w c
        exact Trk.of_void hd (by omega) hk (fun h => by omega)

theorem forcedSend_trk (cfg : Cfg) : ∀ (fuel : Nat) (s : St) (c : Conn), Trk s (forcedSend cfg fuel s c) := by
  intro fuel; induction fuel with
  | zero => intro s c; exact Trk.of_void rfl (Nat.le_refl _) (fun _ => rfl) (fun _ => List.prefix_refl _)
  | succ f ih =>
    intro s c
    simp only [forcedSend]
    have hm := sendConnection_trk cfg s c
    cases hsc : sendConnection cfg s c with
    | mk s1 ok =>
      rw [hsc] at hm; simp only at hm ⊢
      split
      · exact hm
      · exact hm.trans (ih s1 c) (forcedSend_moved cfg f s1 c).curR

/-- `accept_one`: whatever it stepped over and however often it retried, if it placed the connection
without a `WorkerFaulted` the cursor is right behind the worker that got it -/
theorem acceptOne_trk (cfg : Cfg) : ∀ (fuel : Nat) (s : St) (c : Conn), Trk s (acceptOne cfg fuel s c) := by
  intro fuel; induction fuel with
  | zero => intro s c; exact Trk.of_void rfl (Nat.le_refl _) (fun _ => rfl) (fun _ => List.prefix_refl _)
  | succ f ih =>
    intro s c
    simp only [acceptOne]
    split
    · exact Trk.refl s
    · split
      · exact Trk.of_void rfl (Nat.le_refl _) (fun _ => rfl) (fun _ => List.prefix_refl _)
      · rename_i w _
        split
        · have hm := sendConnection_trk cfg s c
          cases hsc : sendConnection cfg s c with
          | mk s1 ok =>
            rw [hsc] at hm; simp only at hm ⊢
            split
            · exact hm
            · exact hm.trans (ih s1 c) (acceptOne_moved cfg f s1 c).curR
        · have hl : LogsH s (setNext (setAvail s (s.wk w).idx false)) :=
            (setAvail_keepH s _ false).logsH.trans (setNext_logsH _)
          split
          · exact hl.trans_trk (forcedSend_trk cfg _ _ c)
          · exact hl.trans_trk (ih _ c)

/-! ### the loops: `accept`, `handle_waker`, the event batch, one iteration -/

def Fol (s s' : St) : Prop := CurR s s' ∧ Trk s s'

theorem Fol.refl (s : St) : Fol s s := ⟨CurR.refl s, Trk.refl s⟩
theorem Fol.trans {a b c : St} (h1 : Fol a b) (h2 : Fol b c) : Fol a c :=
  ⟨h1.1.trans h2.1, h1.2.trans h2.2 h2.1⟩
theorem KeepH.fol {a b : St} (h : KeepH a b) : Fol a b := ⟨h.1.curR, h.trk⟩

theorem acceptOne_fol (cfg : Cfg) (fuel : Nat) (s : St) (c : Conn) : Fol s (acceptOne cfg fuel s c) :=
  ⟨(acceptOne_moved cfg fuel s c).curR, acceptOne_trk cfg fuel s c⟩
theorem addWorker_fol (s : St) (w : Nat) : Fol s (addWorker s w) := ⟨(addWorker_keep s w).curR, addWorker_trk s w⟩

theorem accept_fol (cfg : Cfg) : ∀ (fuel : Nat) (s : St) (l : Nat), Fol s (accept cfg fuel s l) := by
  intro fuel; induction fuel with
  | zero => intro s l; exact ⟨Keep.curR ⟨rfl, rfl, rfl, fun _ => rfl⟩,
      Trk.of_void rfl (Nat.le_refl _) (fun _ => rfl) (fun _ => List.prefix_refl _)⟩
  | succ f ih =>
    intro s l
    simp only [accept]
    split
    · exact Fol.refl s
    · split
      · exact Fol.refl s
      · have h0 := yieldPt_keepH cfg s
        have h1 := acceptSys_keepH (yieldPt cfg s) l
        cases hsys : acceptSys (yieldPt cfg s) l with
        | mk s1 r =>
          rw [hsys] at h1; simp only at h1
          have h01 : Fol s s1 := (h0.trans h1).fol
          cases r with
          | conn c => exact h01.trans ((acceptOne_fol cfg _ s1 c).trans (ih _ l))
          | wouldBlock => exact h01
          | connErr => exact h01.trans (ih s1 l)
          | otherErr =>
            exact h01.trans (KeepH.fol ((deregister_keepH s1 l).trans
              (KeepH.trans (KeepH.rfl' rfl rfl rfl rfl rfl) (setTimeout_keepH _ _))))

theorem acceptAllFrom_fol (cfg : Cfg) : ∀ (ls : List Nat) (s : St), Fol s (acceptAllFrom cfg s ls) := by
  intro ls; induction ls with
  | nil => intro s; exact Fol.refl s
  | cons l ls ih => intro s; simp only [acceptAllFrom]; exact (accept_fol cfg _ s l).trans (ih _)

theorem acceptAll_fol (cfg : Cfg) (s : St) : Fol s (acceptAll cfg s) := acceptAllFrom_fol cfg _ s

theorem handleWaker_fol (cfg : Cfg) : ∀ (fuel : Nat) (s : St), Fol s (handleWaker cfg fuel s).1 := by
  intro fuel; induction fuel with
  | zero => intro s; exact ⟨Keep.curR ⟨rfl, rfl, rfl, fun _ => rfl⟩,
      Trk.of_void rfl (Nat.le_refl _) (fun _ => rfl) (fun _ => List.prefix_refl _)⟩
  | succ f ih =>
    intro s
    simp only [handleWaker]
    split
    · exact Fol.refl s
    · have h0 := (yieldPt_keepH cfg s).fol
      generalize yieldPt cfg s = s0 at h0 ⊢
      cases hwq : s0.wq with
      | nil => exact h0
      | cons i q =>
        simp only
        have hq : KeepH s0 { s0 with wq := q } := KeepH.rfl' rfl rfl rfl rfl rfl
        cases i with
        | workerAvail idx =>
          simp only
          have h2 : Fol s (wakePrim { s0 with wq := q } idx) := h0.trans (hq.trans (wakePrim_keepH _ idx)).fol
          split
          · exact h2.trans ((acceptAll_fol cfg _).trans (ih _))
          · exact h2.trans (ih _)
        | worker w =>
          simp only
          have h2 : Fol s (addWorker { s0 with wq := q } w) := h0.trans (hq.fol.trans (addWorker_fol _ w))
          split
          · exact h2.trans ((acceptAll_fol cfg _).trans (ih _))
          · exact h2.trans (ih _)
        | pause =>
          simp only
          split
          · have h2 : KeepH s0 (deregisterAll { s0 with wq := q, paused := true }) :=
              KeepH.trans (b := { s0 with wq := q, paused := true }) (KeepH.rfl' rfl rfl rfl rfl rfl) (deregisterAll_keepH _)
            exact h0.trans (h2.fol.trans (ih _))
          · exact h0.trans (hq.fol.trans (ih _))
        | resume =>
          simp only
          split
          · have h2 : KeepH s0 (registerAllFrom { s0 with wq := q, paused := false } (List.range s0.nLst)) :=
              KeepH.trans (b := { s0 with wq := q, paused := false }) (KeepH.rfl' rfl rfl rfl rfl rfl) (registerAllFrom_keepH _ _)
            exact h0.trans (h2.fol.trans ((acceptAll_fol cfg _).trans (ih _)))
          · exact h0.trans (hq.fol.trans (ih _))
        | stop =>
          simp only
          split
          · exact h0.trans ((hq.trans ((deregisterAll_keepH _).trans (cleanupAll_keepH _))).fol)
          · exact h0.trans ((hq.trans (cleanupAll_keepH _)).fol)

theorem pollEvents_fol (cfg : Cfg) : ∀ (order : List Ev) (s : St), Fol s (pollEvents cfg s order).1 := by
  intro order; induction order with
  | nil => intro s; exact Fol.refl s
  | cons e es ih =>
    intro s
    simp only [pollEvents]
    cases e with
    | waker =>
      simp only
      have hw := handleWaker_fol cfg (wakerFuel s) s
      cases hhw : handleWaker cfg (wakerFuel s) s with
      | mk s1 ex =>
        rw [hhw] at hw; simp only at hw ⊢
        split
        · exact hw
        · exact hw.trans (ih s1)
    | listener l => exact (accept_fol cfg _ s l).trans (ih _)

theorem poll_fol (cfg : Cfg) (s : St) (order : List Ev) (sched : List (List EnvAct)) :
    Fol s (poll cfg s order sched) := by
  unfold poll; split
  · exact Fol.refl s
  · have h1 : KeepH s (clearEdges { s with sched := sched, yields := 0 }) :=
      KeepH.trans (b := { s with sched := sched, yields := 0 }) (KeepH.rfl' rfl rfl rfl rfl rfl) (clearEdges_keepH _)
    exact h1.fol.trans ((pollEvents_fol cfg order _).trans (pollFinish_keepH _).fol)

theorem step_fol (cfg : Cfg) (s : St) (op : Op) : Fol s (step cfg s op) := by
  cases op with
  | env a => exact (runEnv_keepH cfg [a] s).fol
  | poll order sched => exact poll_fol cfg s order sched
  | finishW2 w c order =>
    simp only [step]
    have h1 : KeepH s { (envStep cfg s (.finish w c)).1 with acts := (envStep cfg s (.finish w c)).1.acts ++ [(envStep cfg s (.finish w c)).2] } :=
      (envStep_keepH cfg s (.finish w c)).trans (KeepH.rfl' rfl rfl rfl rfl rfl)
    split
    · exact h1.fol.trans ((poll_fol cfg _ order []).trans (runEnv_keepH cfg _ _).fol)
    · exact h1.fol

theorem run_fol (cfg : Cfg) : ∀ (ops : List Op) (s : St), Fol s (run cfg s ops) := by
  intro ops; induction ops with
  | nil => intro s; exact Fol.refl s
  | cons op ops ih => intro s; simp only [run]; exact (step_fol cfg s op).trans (ih _)

/-! ### reading the relation -/

/-- a step that dispatched (fault log unchanged, fault-free outcome): the last log entry exists and the
cursor is right behind a slot holding its worker, modulo the number `n` of handles at the time of that send -/
theorem Fol.behind {s s' : St} (h : Fol s s') (hnf : s'.fault = none)
    (hf : s'.faultedLog.length = s.faultedLog.length) (hd : s.dispatched.length < s'.dispatched.length) :
    ∃ c w, s'.dispatched.getLast? = some (c, w) ∧ Behind s.handles.length s' w := by
  cases hl : s'.dispatched.getLast? with
  | none => rw [List.getLast?_eq_none_iff] at hl; rw [hl] at hd; simp at hd
  | some e => exact ⟨e.1, e.2, rfl, h.2.2.2.2.2 hf hnf hd e.1 e.2 hl⟩

/-- no `WorkerFaulted` and as many handles as before: `handles` is what it was (nothing removed, nothing pushed) -/
theorem Fol.handles_eq {s s' : St} (h : Fol s s') (hf : s'.faultedLog.length = s.faultedLog.length)
    (hh : s'.handles.length = s.handles.length) : s'.handles = s.handles :=
  ((h.2.2.2.2.1 hf).eq_of_length hh.symm).symm

/-- … and then the modulus is the current number of handles -/
theorem Fol.behind_same {s s' : St} (h : Fol s s') (hnf : s'.fault = none)
    (hf : s'.faultedLog.length = s.faultedLog.length) (hh : s'.handles.length = s.handles.length)
    (hd : s.dispatched.length < s'.dispatched.length) :
    ∃ c w pos, s'.dispatched.getLast? = some (c, w) ∧ s'.handles[pos]? = some w ∧
      s'.next = (pos + 1) % s'.handles.length := by
  obtain ⟨c, w, hl, pos, n, _, h2, h3, h4, h5⟩ := h.behind hnf hf hd
  have hn : n = s'.handles.length := by omega
  subst hn
  exact ⟨c, w, pos, hl, h4, h5⟩

/-- in a list without duplicates a value has one slot -/
theorem slot_unique {l : List Nat} (hl : l.Nodup) {i j w : Nat} (hi : l[i]? = some w) (hj : l[j]? = some w) : i = j := by
  obtain ⟨hi1, hi2⟩ := List.getElem?_eq_some_iff.mp hi
  obtain ⟨hj1, hj2⟩ := List.getElem?_eq_some_iff.mp hj
  exact (List.getElem_inj (h₀ := hi1) (h₁ := hj1) hl).mp (hi2.trans hj2.symm)

theorem nodup_of_map {f : Nat → Nat} {l : List Nat} (h : (l.map f).Nodup) : l.Nodup := by
  unfold List.Nodup at *
  rw [List.pairwise_map] at h
  exact h.imp (fun hne he => hne (by rw [he]))

end ActixNet.Srv
