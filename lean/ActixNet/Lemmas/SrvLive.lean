import ActixNet.Lemmas.SrvSound
import ActixNet.Lemmas.SrvLog
/-!
# The counter / availability invariant of LIVE workers, in histories WITH worker deaths

`Good` (SrvInv.lean) is exact but only inductive on fault-free histories: a dead worker's late
notification may set the availability bit of its saturated replacement, and a forced dispatch may push
a worker beyond its limit.  What survives worker deaths — and is all that C03 needs — is the one-sided
statement `Live`: for every live incarnation `w`

* its shared counter is exact: `c + [increment outstanding] = 1 + in-progress`, and
* if `w` has a handle, its availability bit is clear, and no wake-up for its index exists anywhere
  (neither about to be pushed by `w` nor queued), then `w` is saturated: `c ≥ limit + 1`.

It is threaded through the whole accept program next to `NP` (SrvSound.lean), for every schedule of
client / worker / server actions — `die` and `restart` included — at every yield point.
-/
namespace ActixNet.Srv
open ActixNet

/-- the invariant of one live incarnation as arithmetic: `c` raw counter, `q` in progress, `tokp` wake-ups
about to be pushed by it, `cnt` wake-ups queued for its index, `p` an increment is outstanding (W1),
`inH` it has a handle, `av` the availability bit of its index -/
def LWn (L c q tokp cnt : Nat) (p : Bool) (inH : Prop) (av : Bool) : Prop :=
  c + (if p then 1 else 0) = 1 + q ∧ (inH → av = false → tokp = 0 → cnt = 0 → L + 1 ≤ c)

def LiveW (L : Nat) (c : Core) (w : Nat) : Prop :=
  LWn L (c.wk w).c (qOf (c.wk w)) (c.wk w).tokp (c.wq.count (.workerAvail (c.wk w).idx))
    (pendIs c.pend w) (w ∈ c.handles) (c.avail (c.wk w).idx)

structure LiveC (L : Nat) (c : Core) : Prop where
  lw : ∀ w, w < c.nWk → (c.wk w).alive = true → LiveW L c w
  pb : ∀ w, c.pend = some w → w < c.nWk

def Live (cfg : Cfg) (s : St) : Prop := LiveC cfg.limit (core s)

theorem live_of_core_eq {cfg s s'} (h : core s' = core s) (g : Live cfg s) : Live cfg s' := by
  unfold Live at *; rw [h]; exact g

/-- `next` and the fault log are not mentioned -/
theorem LiveC.next_flog {L : Nat} {c : Core} (g : LiveC L c) (n : Nat) (fl : List Nat) :
    LiveC L { c with next := n, faultedLog := fl } := ⟨g.lw, g.pb⟩

theorem init_live (cfg : Cfg) (kinds : List Kind) : Live cfg (init cfg kinds) := by
  refine ⟨?_, ?_⟩
  · intro w hw _
    simp only [LiveW, LWn, init, core, initWk, qOf, SrvKernels.wcInit_eq, pendIs_none]
    simp only [core, init] at hw
    simp [hw]
  · intro w hw; simp [init, core] at hw

/-- generic environment step: the record of worker `w` changes (same index), wake-ups are only added -/
theorem liveC_upd {L : Nat} {c : Core} (g : LiveC L c) (w : Nat) (W' : Wk) (wq' : List Interest)
    (hidx : W'.idx = (c.wk w).idx)
    (hmono : ∀ i, c.wq.count (.workerAvail i) ≤ wq'.count (.workerAvail i))
    (hw : w < c.nWk → W'.alive = true → (c.wk w).alive = true ∧
      ∀ p inH av, LWn L (c.wk w).c (qOf (c.wk w)) (c.wk w).tokp (c.wq.count (.workerAvail (c.wk w).idx)) p inH av →
        LWn L W'.c (qOf W') W'.tokp (wq'.count (.workerAvail (c.wk w).idx)) p inH av) :
    LiveC L { c with wk := upd c.wk w W', wq := wq' } := by
  refine ⟨?_, g.pb⟩
  intro v hv hal
  by_cases hvw : v = w
  · subst hvw
    simp only [upd_same] at hal
    obtain ⟨hal0, step⟩ := hw hv hal
    have := step _ _ _ (g.lw v hv hal0)
    simpa [LiveW, hidx] using this
  · simp only [upd, hvw, ↓reduceIte] at hal
    have := g.lw v hv hal
    simp only [LiveW, upd, hvw, ↓reduceIte] at this ⊢
    have hm := hmono (c.wk v).idx
    unfold LWn at *
    refine ⟨this.1, ?_⟩
    intro h1 h2 h3 h4
    exact this.2 h1 h2 h3 (by omega)

theorem count_le_append (l : List Interest) (a b : Interest) : l.count b ≤ (l ++ [a]).count b := by
  rw [count_append_single]; omega

/-- every environment action — a worker dying and the server starting a replacement included —
preserves the invariant; needs `Sound` only for "a handle is an existing incarnation" -/
theorem envStep_live (cfg : Cfg) (s : St) (a : EnvAct) (hs : Sound cfg s) (g : Live cfg s) :
    Live cfg (envStep cfg s a).1 := by
  cases a with
  | connect l =>
    simp only [envStep]
    split
    · split
      · exact g
      · exact live_of_core_eq rfl g
    · exact g
  | recv w =>
    simp only [envStep]
    split
    · split
      · split
        · exact g
        · rename_i c q hq
          exact liveC_upd g w { s.wk w with queue := q, inflight := (s.wk w).inflight ++ [c] } s.wq rfl
            (fun _ => Nat.le_refl _) (by
              intro _ hal
              refine ⟨hal, ?_⟩
              intro p inH av h
              simp only [qOf, core] at h ⊢
              rw [hq] at h
              simp only [List.length_cons, List.length_append, List.length_nil] at h ⊢
              unfold LWn at *
              exact ⟨by omega, h.2⟩)
      · exact g
    · exact g
  | finish w cid =>
    simp only [envStep]
    split
    · split
      · exact g
      · rename_i c hp
        obtain ⟨hlen, hpos⟩ := length_eraseP_pick hp
        exact liveC_upd g w _ s.wq rfl (fun _ => Nat.le_refl _) (by
          intro _ hal
          refine ⟨hal, ?_⟩
          intro p inH av h
          simp only [qOf, core] at h ⊢
          rw [hlen]
          unfold LWn at *
          have hc1 : 1 ≤ (s.wk w).c ∨ p = true := by
            rcases h with ⟨h1, _⟩; cases p <;> simp at h1 ⊢ <;> omega
          by_cases hc : 1 ≤ (s.wk w).c
          · have hx := SrvKernels.decCrossed_iff (s.wk w).c cfg.limit hc
            by_cases hcr : Src.wcDecCrossed (s.wk w).c cfg.limit = true
            · simp only [hcr, ↓reduceIte]
              refine ⟨by omega, ?_⟩
              intro _ _ h3; omega
            · simp only [hcr]
              have hne : (s.wk w).c ≠ cfg.limit + 1 := fun e => hcr (hx.mpr e)
              refine ⟨by omega, ?_⟩
              intro h1 h2 h3 h4
              have := h.2 h1 h2 h3 h4
              omega
          · -- c = 0 is impossible: c + p = 1 + q with q ≥ 1
            exfalso
            rcases h with ⟨h1, _⟩
            cases p <;> simp at h1 <;> omega)
    · exact g
  | push w =>
    simp only [envStep]
    split
    · split
      · rename_i ht
        exact liveC_upd g w { s.wk w with tokp := (s.wk w).tokp - 1 } (s.wq ++ [.workerAvail (s.wk w).idx]) rfl
          (fun i => count_le_append _ _ _) (by
            intro _ hal
            refine ⟨hal, ?_⟩
            intro p inH av h
            simp only [qOf, core] at h ⊢
            rw [count_append_single]
            unfold LWn at *
            refine ⟨h.1, ?_⟩
            intro _ _ _ h4
            simp at h4)
      · exact g
    · exact g
  | finishNow w cid =>
    simp only [envStep]
    split
    · split
      · exact g
      · rename_i c hp
        obtain ⟨hlen, hpos⟩ := length_eraseP_pick hp
        have key := liveC_upd g w
          { s.wk w with inflight := (s.wk w).inflight.eraseP (fun x => x.1 == c.1), c := (s.wk w).c - 1 }
          (if Src.wcDecCrossed (s.wk w).c cfg.limit = true then s.wq ++ [.workerAvail (s.wk w).idx] else s.wq) rfl
          (by intro i; split
              · exact count_le_append _ _ _
              · exact Nat.le_refl _)
          (by
            intro _ hal
            refine ⟨hal, ?_⟩
            intro p inH av h
            simp only [qOf, core] at h ⊢
            rw [hlen]
            unfold LWn at *
            by_cases hc : 1 ≤ (s.wk w).c
            · have hx := SrvKernels.decCrossed_iff (s.wk w).c cfg.limit hc
              by_cases hcr : Src.wcDecCrossed (s.wk w).c cfg.limit = true
              · simp only [hcr, ↓reduceIte]
                refine ⟨by omega, ?_⟩
                intro _ _ _ h4
                rw [count_append_single] at h4; simp at h4
              · simp only [hcr]
                have hne : (s.wk w).c ≠ cfg.limit + 1 := fun e => hcr (hx.mpr e)
                refine ⟨by omega, ?_⟩
                intro h1 h2 h3 h4
                have := h.2 h1 h2 h3 (by simpa using h4)
                omega
            · exfalso
              rcases h with ⟨h1, _⟩
              cases p <;> simp at h1 <;> omega)
        by_cases hcr : Src.wcDecCrossed (s.wk w).c cfg.limit = true
        · simp only [hcr, ↓reduceIte] at key ⊢; exact key
        · simp only [hcr] at key ⊢; exact key
    · exact g
  | die w =>
    simp only [envStep]
    split
    · split
      · exact liveC_upd g w { s.wk w with alive := false, queue := [] } s.wq rfl (fun _ => Nat.le_refl _)
          (by intro _ hal; simp at hal)
      · exact g
    · exact g
  | cmd i =>
    have push_ok : ∀ j : Interest, Live cfg (pushWq s j) := by
      intro j
      have := liveC_upd g 0 (s.wk 0) (s.wq ++ [j]) rfl (fun i => count_le_append _ _ _) (by
        intro _ hal
        refine ⟨hal, ?_⟩
        intro p inH av h
        unfold LWn at *
        refine ⟨h.1, ?_⟩
        intro h1 h2 h3 h4
        have := count_le_append s.wq j (.workerAvail (s.wk 0).idx)
        simp only [core] at h4 h this
        exact h.2 h1 h2 h3 (by omega))
      simp only [core, upd_noop] at this
      exact this
    cases i with
    | pause => exact push_ok _
    | resume => exact push_ok _
    | stop => exact push_ok _
    | workerAvail k => exact g
    | worker k => exact g
  | restart idx =>
    simp only [envStep]
    split
    · refine ⟨?_, ?_⟩
      · intro v hv hal
        simp only [core, pushWq] at hv hal ⊢
        by_cases hvn : v = s.nWk
        · subst hvn
          -- the new incarnation: counter 1, nothing in progress, no handle yet
          have hnh : ¬ (s.nWk ∈ s.handles) := fun hm => Nat.lt_irrefl _ (hs.hlt _ hm)
          have hpn : pendIs s.pend s.nWk = false := by
            cases hp : s.pend with
            | none => rfl
            | some u =>
              have := g.pb u (by simpa [core] using hp)
              simp only [core] at this
              simp only [pendIs_some, beq_eq_false_iff_ne]; omega
          simp [LiveW, LWn, upd, initWk, qOf, SrvKernels.wcInit_eq, hnh, hpn]
        · have hv' : v < s.nWk := by omega
          simp only [upd, hvn, ↓reduceIte] at hal
          have := g.lw v hv' hal
          simp only [LiveW, core, upd, hvn, ↓reduceIte] at this ⊢
          rw [count_append_single]
          simp only [reduceCtorEq, ↓reduceIte, Nat.add_zero]
          exact this
      · intro w hw
        have := g.pb w (by simpa [core, pushWq] using hw)
        simp only [core, pushWq] at this ⊢; omega
    · exact g
  | advance ms => exact live_of_core_eq rfl g
  | inject l e =>
    simp only [envStep]
    split
    · exact live_of_core_eq rfl g
    · exact g

/-- `NP` (structure) and `Live` (counters) together -/
structure NL (cfg : Cfg) (s : St) : Prop where
  np : NP cfg s
  live : Live cfg s

theorem runEnv_nl (cfg : Cfg) : ∀ (as : List EnvAct) (s : St), NL cfg s → NL cfg (runEnv cfg s as) := by
  intro as; induction as with
  | nil => intro s h; exact h
  | cons a as ih =>
    intro s h
    simp only [runEnv]
    have h1 := envStep_np cfg s a h.np
    have h2 := envStep_live cfg s a h.np.sound h.live
    exact ih _ ⟨⟨sound_of_view_eq rfl h1.sound, h1.nopanic⟩, live_of_core_eq rfl h2⟩

theorem yieldPt_nl (cfg : Cfg) (s : St) (h : NL cfg s) : NL cfg (yieldPt cfg s) := by
  unfold yieldPt; split
  · exact ⟨⟨sound_of_view_eq rfl h.np.sound, h.np.nopanic⟩, live_of_core_eq rfl h.live⟩
  · exact runEnv_nl cfg _ _ ⟨⟨sound_of_view_eq rfl h.np.sound, h.np.nopanic⟩, live_of_core_eq rfl h.live⟩

theorem envStep_pend (cfg : Cfg) (s : St) (a : EnvAct) : (envStep cfg s a).1.pend = s.pend := by
  cases a <;> simp only [envStep] <;> (repeat' split) <;> first | rfl | (simp [pushWq])
theorem runEnv_pend (cfg : Cfg) : ∀ (as : List EnvAct) (s : St), (runEnv cfg s as).pend = s.pend := by
  intro as; induction as with
  | nil => intro s; rfl
  | cons a as ih => intro s; simp only [runEnv]; rw [ih]; exact envStep_pend cfg s a
theorem yieldPt_pend (cfg : Cfg) (s : St) : (yieldPt cfg s).pend = s.pend := by
  unfold yieldPt; split
  · rfl
  · rw [runEnv_pend]

/-- an incarnation never changes its index -/
theorem envStep_idx (cfg : Cfg) (s : St) (a : EnvAct) (w : Nat) (hw : w < s.nWk) :
    ((envStep cfg s a).1.wk w).idx = (s.wk w).idx ∧ s.nWk ≤ (envStep cfg s a).1.nWk := by
  cases a <;> simp only [envStep] <;> (repeat' split) <;>
    first
      | exact ⟨rfl, Nat.le_refl _⟩
      | (refine ⟨?_, by simp [pushWq]⟩
         simp only [pushWq, upd] <;>
         first
           | rfl
           | (split <;> first | rfl | (rename_i h; subst h; rfl) | (rename_i h; exfalso; omega)))
theorem runEnv_idx (cfg : Cfg) : ∀ (as : List EnvAct) (s : St) (w : Nat), w < s.nWk →
    ((runEnv cfg s as).wk w).idx = (s.wk w).idx := by
  intro as; induction as with
  | nil => intro s w _; rfl
  | cons a as ih =>
    intro s w hw; simp only [runEnv]
    have := envStep_idx cfg s a w hw
    rw [ih _ w (by simp only; omega)]; exact this.1
theorem yieldPt_idx (cfg : Cfg) (s : St) (w : Nat) (hw : w < s.nWk) : ((yieldPt cfg s).wk w).idx = (s.wk w).idx := by
  unfold yieldPt; split
  · rfl
  · rw [runEnv_idx _ _ _ w (by simpa using hw)]

/-- two handles never share a worker index -/
theorem handle_idx_inj {cfg s} (hs : Sound cfg s) {v w : Nat} (hv : v ∈ s.handles) (hw : w ∈ s.handles)
    (h : (s.wk v).idx = (s.wk w).idx) : v = w := by
  have nd : (s.handles.map fun u => (s.wk u).idx).Nodup := handles_nodup hs
  generalize s.handles = l at hv hw nd
  induction l with
  | nil => cases hv
  | cons a as ih =>
    simp only [List.map_cons, List.nodup_cons, List.mem_map, not_exists, not_and] at nd
    rcases List.mem_cons.mp hv with rfl | hv' <;> rcases List.mem_cons.mp hw with rfl | hw'
    · rfl
    · exact absurd h.symm (nd.1 w hw')
    · exact absurd h (nd.1 v hv')
    · exact ih hv' hw' nd.2

/-- `send` succeeded: one more connection in the worker's channel, its increment outstanding -/
theorem sendPrim_live {cfg s} (g : Live cfg s) (hp : s.pend = none) (w : Nat) (hw : w < s.nWk) (c : Conn) :
    Live cfg (sendPrim s w c) := by
  refine ⟨?_, ?_⟩
  · intro v hv hal
    simp only [core, sendPrim] at hv hal ⊢
    by_cases hvw : v = w
    · subst hvw
      simp only [upd_same] at hal
      have := g.lw v hv hal
      simp only [LiveW, core, hp, pendIs_none, upd_same, pendIs_some, beq_self_eq_true, qOf,
        List.length_append, List.length_cons, List.length_nil] at this ⊢
      unfold LWn at *
      exact ⟨by simp at this ⊢; omega, this.2⟩
    · simp only [upd, hvw, ↓reduceIte] at hal
      have := g.lw v hv hal
      have hb : (w == v) = false := by simpa using fun h => hvw h.symm
      simpa [LiveW, core, hp, upd, hvw, hb] using this
  · intro u hu
    simp only [core, sendPrim] at hu ⊢
    cases hu; exact hw

/-- `inc_counter` + `set_available(idx, false)` when the limit is reached -/
theorem incPrim_live {cfg s} (hs : Sound cfg s) (g : Live cfg s) (w : Nat) (hp : s.pend = some w) (hwm : w ∈ s.handles) :
    Live cfg (incPrim cfg s w (s.wk w).idx) ∧ (incPrim cfg s w (s.wk w).idx).pend = none := by
  -- the counter step
  have g3 : Live cfg { s with wk := upd s.wk w { s.wk w with c := (s.wk w).c + 1 }, pend := none } := by
    refine ⟨?_, ?_⟩
    · intro v hv hal
      simp only [core] at hv hal ⊢
      by_cases hvw : v = w
      · subst hvw
        simp only [upd_same] at hal
        have := g.lw v hv hal
        simp only [LiveW, core, hp, pendIs_some, beq_self_eq_true, pendIs_none, upd_same, qOf] at this ⊢
        unfold LWn at *
        refine ⟨by simp at this ⊢; omega, ?_⟩
        intro h1 h2 h3 h4
        have := this.2 h1 h2 h3 h4
        omega
      · simp only [upd, hvw, ↓reduceIte] at hal
        have := g.lw v hv hal
        have hb : (w == v) = false := by simpa using fun h => hvw h.symm
        simpa [LiveW, core, hp, upd, hvw, hb] using this
    · intro u hu; simp [core] at hu
  unfold incPrim
  simp only
  split
  · exact ⟨g3, rfl⟩
  · rename_i hstill
    have hcl : (s.wk w).c = cfg.limit := by
      by_cases hne : (s.wk w).c = cfg.limit
      · exact hne
      · exact absurd ((SrvKernels.incStill_iff _ _).mpr hne) hstill
    unfold setAvail
    split
    · refine ⟨⟨?_, ?_⟩, rfl⟩
      · intro v hv hal
        simp only [core] at hv hal ⊢
        have base := g3.lw v hv hal
        simp only [LiveW, core] at base ⊢
        by_cases hvw : v = w
        · subst hvw
          simp only [upd_same] at base ⊢
          unfold LWn at *
          refine ⟨base.1, ?_⟩
          intro _ _ _ _
          omega
        · by_cases hi : ((upd s.wk w { s.wk w with c := (s.wk w).c + 1 }) v).idx = (s.wk w).idx
          · -- same index as `w`: then `v` has no handle (two handles never share an index)
            unfold LWn at *
            refine ⟨base.1, ?_⟩
            intro h1 _ _ _
            exfalso
            simp only [upd, hvw, ↓reduceIte] at hi
            exact hvw (handle_idx_inj hs h1 hwm hi)
          · simpa [upd_ne _ _ hi] using base
      · exact g3.pb
    · exact ⟨live_of_core_eq rfl g3, rfl⟩

/-- `set_available(idx, false)` on a bit that is already clear changes nothing the invariant sees -/
theorem setAvail_false_noop_live {cfg s} (g : Live cfg s) (idx : Nat) (h : s.avail idx = false) :
    Live cfg (setAvail s idx false) := by
  unfold setAvail; split
  · have : upd s.avail idx false = s.avail := by
      funext j; by_cases hj : j = idx <;> simp [upd, hj, h]
    exact live_of_core_eq (by simp only [core, this]) g
  · exact live_of_core_eq rfl g

/-- after `swap_remove(next)` no remaining handle has the removed worker's index, and every remaining
handle was a handle before -/
theorem swapRemove_handles {cfg s} (hs : Sound cfg s) {w : Nat} (hw : s.handles[s.next]? = some w) {v : Nat}
    (hv : v ∈ swapRemove s.handles s.next) : v ∈ s.handles ∧ (s.wk v).idx ≠ (s.wk w).idx := by
  obtain ⟨hk, hwk⟩ := List.getElem?_eq_some_iff.mp hw
  have pm := perm_cons_swapRemove s.handles s.next hk
  rw [hwk] at pm
  have hvm : v ∈ s.handles := pm.mem_iff.mpr (List.mem_cons_of_mem _ hv)
  refine ⟨hvm, ?_⟩
  have nd : (s.handles.map fun u => (s.wk u).idx).Nodup := handles_nodup hs
  have nd2 := (pm.map (fun u => (s.wk u).idx)).nodup nd
  simp only [List.map_cons, List.nodup_cons, List.mem_map, not_exists, not_and] at nd2
  exact fun e => nd2.1 v hv e

/-- `remove_next`: the faulted worker's handle goes, its bit is cleared -/
theorem removeNext_live {cfg s} (hs : Sound cfg s) (g : Live cfg s) {w : Nat} (hw : s.handles[s.next]? = some w) :
    Live cfg (removeNext s w) := by
  have base : Live cfg { s with handles := swapRemove s.handles s.next, faultedLog := s.faultedLog ++ [(s.wk w).idx] } := by
    refine ⟨?_, g.pb⟩
    intro v hv hal
    have := g.lw v hv hal
    simp only [LiveW, core] at this ⊢
    unfold LWn at *
    exact ⟨this.1, fun h1 => this.2 (swapRemove_handles hs hw h1).1⟩
  unfold removeNext setAvail
  simp only
  split
  · refine ⟨?_, base.pb⟩
    intro v hv hal
    have := base.lw v hv hal
    simp only [LiveW, core] at this ⊢
    unfold LWn at *
    refine ⟨this.1, ?_⟩
    intro h1 h2
    have hne := (swapRemove_handles hs hw h1).2
    rw [upd_ne _ _ hne] at h2
    exact this.2 h1 h2
  · exact live_of_core_eq rfl base

theorem sendFail_live {cfg s} (hs : Sound cfg s) (g : Live cfg s) {w : Nat} (hw : s.handles[s.next]? = some w) (c : Conn) :
    Live cfg (sendFail s w c).1 ∧ (sendFail s w c).1.pend = s.pend := by
  have h := removeNext_live hs g hw
  have hp : (removeNext s w).pend = s.pend := by unfold removeNext setAvail; simp only; split <;> rfl
  unfold sendFail
  simp only
  split
  · exact ⟨live_of_core_eq rfl h, hp⟩
  · split
    · exact ⟨(LiveC.next_flog h 0 _ : LiveC cfg.limit _), hp⟩
    · exact ⟨h, hp⟩

/-- `WakerInterest::Worker(handle)`: the replacement joins with its bit set -/
theorem addWorker_live {cfg s} (g : Live cfg s) (w : Nat) (h512 : (s.wk w).idx < 512) : Live cfg (addWorker s w) := by
  unfold addWorker setAvail
  simp only [h512, ↓reduceIte]
  refine ⟨?_, g.pb⟩
  intro v hv hal
  have := g.lw v hv hal
  simp only [LiveW, core] at this ⊢
  unfold LWn at *
  refine ⟨this.1, ?_⟩
  intro h1 h2
  by_cases hi : (s.wk v).idx = (s.wk w).idx
  · rw [hi, upd_same] at h2; cases h2
  · rw [upd_ne _ _ hi] at h2
    rcases List.mem_append.mp h1 with h1 | h1
    · exact this.2 h1 h2
    · simp at h1; subst h1; exact absurd rfl hi

/-- a wake-up for `idx` is taken from the queue and processed (`wakePrim`): the bit is set if the index
has a handle; if it has none, no live incarnation with that index is in the rotation -/
theorem wake_live {cfg s} (g : Live cfg s) (idx : Nat) (q : List Interest) (hq : s.wq = .workerAvail idx :: q)
    (h512 : idx < 512) : Live cfg (wakePrim { s with wq := q } idx) := by
  have hcount : ∀ i, i ≠ idx → q.count (.workerAvail i) = s.wq.count (.workerAvail i) := by
    intro i hi
    rw [hq, List.count_cons]
    have : ¬ (Interest.workerAvail idx = Interest.workerAvail i) := by
      intro h; injection h with h; exact hi h.symm
    simp [this]
  unfold wakePrim
  split
  · unfold setAvail; simp only [h512, ↓reduceIte]
    refine ⟨?_, g.pb⟩
    intro v hv hal
    have := g.lw v hv hal
    simp only [LiveW, core] at this ⊢
    unfold LWn at *
    refine ⟨this.1, ?_⟩
    intro h1 h2 h3 h4
    by_cases hi : (s.wk v).idx = idx
    · rw [hi, upd_same] at h2; cases h2
    · rw [upd_ne _ _ hi] at h2
      rw [hcount _ hi] at h4
      exact this.2 h1 h2 h3 h4
  · rename_i hno
    refine ⟨?_, g.pb⟩
    intro v hv hal
    have := g.lw v hv hal
    simp only [LiveW, core] at this ⊢
    unfold LWn at *
    refine ⟨this.1, ?_⟩
    intro h1 h2 h3 h4
    by_cases hi : (s.wk v).idx = idx
    · exfalso
      apply hno
      unfold hasHandleIdx
      exact List.any_eq_true.mpr ⟨v, h1, by simpa using hi⟩
    · rw [hcount _ hi] at h4
      exact this.2 h1 h2 h3 h4

/-- taking a command or a replacement handle from the queue does not touch the wake-up counts -/
theorem popOther_live {cfg s} (g : Live cfg s) (i : Interest) (q : List Interest) (hq : s.wq = i :: q)
    (hi : ∀ k, i ≠ .workerAvail k) : Live cfg { s with wq := q } := by
  refine ⟨?_, g.pb⟩
  intro v hv hal
  have := g.lw v hv hal
  simp only [LiveW, core] at this ⊢
  have : q.count (.workerAvail (s.wk v).idx) = s.wq.count (.workerAvail (s.wk v).idx) := by
    rw [hq, List.count_cons]
    have : ¬ (i = Interest.workerAvail (s.wk v).idx) := hi _
    simp [this]
  rw [this]; assumption

/-! ### threading through the accept program -/

/-- at the accept thread's own program points no increment is outstanding -/
structure NLP (cfg : Cfg) (s : St) : Prop where
  np : NP cfg s
  live : Live cfg s
  pn : s.pend = none

theorem NLP.frame {cfg s s'} (h : NLP cfg s) (f : Frame s s') (v : VFrame s s') : NLP cfg s' :=
  ⟨h.np.vframe v, live_of_core_eq f.1 h.live, by
    have := congrArg Core.pend f.1; simp only [core] at this; rw [this]; exact h.pn⟩

theorem yieldPt_nlp {cfg s} (h : NLP cfg s) : NLP cfg (yieldPt cfg s) := by
  have := yieldPt_nl cfg s ⟨h.np, h.live⟩
  exact ⟨this.np, this.live, by rw [yieldPt_pend]; exact h.pn⟩

theorem NLP.setFaultSpin {cfg s} (h : NLP cfg s) (f : Fault)
    (hf : f = .spinAcceptOne ∨ f = .spinWaker ∨ f = .spinAccept) : NLP cfg { s with fault := some f } :=
  ⟨h.np.setFaultSpin f hf, live_of_core_eq rfl h.live, h.pn⟩

theorem setNext_nlp {cfg s} (h : NLP cfg s) (hne : s.handles ≠ []) : NLP cfg (setNext s) := by
  refine ⟨(setNext_np h.np hne).1, ?_, ?_⟩
  · unfold setNext; split
    · exact live_of_core_eq rfl h.live
    · exact (LiveC.next_flog h.live _ s.faultedLog : LiveC cfg.limit _)
  · unfold setNext; split <;> exact h.pn

theorem sendConnection_nlp {cfg} (ok : CfgOk cfg) {s} (h : NLP cfg s) (hne : s.handles ≠ []) (c : Conn) :
    NLP cfg (sendConnection cfg s c).1 := by
  have hnp := (sendConnection_np ok h.np hne c).1
  refine ⟨hnp, ?_, ?_⟩ <;> unfold sendConnection <;> split
  · exact h.live
  · obtain ⟨w, hw, hwm⟩ := handles_next_some h.np.sound hne
    rw [hw]; simp only
    split
    · have hwlt : w < s.nWk := h.np.sound.hlt w hwm
      have h1np : NP cfg (sendPrim s w c) := h.np.vframe (sendPrim_vframe s w c)
      have h1 : Live cfg (sendPrim s w c) := sendPrim_live h.live h.pn w hwlt c
      have h2 := yieldPt_nl cfg _ ⟨h1np, h1⟩
      have hp2 : (yieldPt cfg (sendPrim s w c)).pend = some w := by rw [yieldPt_pend]; rfl
      have hh2 : (yieldPt cfg (sendPrim s w c)).handles = s.handles := by rw [yieldPt_handles]; rfl
      have hi2 : ((yieldPt cfg (sendPrim s w c)).wk w).idx = (s.wk w).idx := by
        rw [yieldPt_idx _ _ w (by simpa [sendPrim] using hwlt)]; simp [sendPrim]
      have h3 := incPrim_live h2.np.sound h2.live w hp2 (by rw [hh2]; exact hwm)
      rw [hi2] at h3
      unfold setNext; split
      · exact live_of_core_eq rfl h3.1
      · exact (LiveC.next_flog h3.1 _ _ : LiveC cfg.limit _)
    · exact (sendFail_live h.np.sound h.live hw c).1
  · exact h.pn
  · obtain ⟨w, hw, hwm⟩ := handles_next_some h.np.sound hne
    rw [hw]; simp only
    split
    · have hwlt : w < s.nWk := h.np.sound.hlt w hwm
      have h1np : NP cfg (sendPrim s w c) := h.np.vframe (sendPrim_vframe s w c)
      have h1 : Live cfg (sendPrim s w c) := sendPrim_live h.live h.pn w hwlt c
      have h2 := yieldPt_nl cfg _ ⟨h1np, h1⟩
      have hp2 : (yieldPt cfg (sendPrim s w c)).pend = some w := by rw [yieldPt_pend]; rfl
      have hh2 : (yieldPt cfg (sendPrim s w c)).handles = s.handles := by rw [yieldPt_handles]; rfl
      have hi2 : ((yieldPt cfg (sendPrim s w c)).wk w).idx = (s.wk w).idx := by
        rw [yieldPt_idx _ _ w (by simpa [sendPrim] using hwlt)]; simp [sendPrim]
      have h3 := incPrim_live h2.np.sound h2.live w hp2 (by rw [hh2]; exact hwm)
      rw [hi2] at h3
      unfold setNext; split <;> exact h3.2
    · rw [(sendFail_live h.np.sound h.live hw c).2]; exact h.pn

theorem forcedSend_nlp {cfg} (ok : CfgOk cfg) : ∀ (fuel : Nat) (s : St) (c : Conn), NLP cfg s → s.handles ≠ [] →
    NLP cfg (forcedSend cfg fuel s c) := by
  intro fuel; induction fuel with
  | zero => intro s c h _; exact h.setFaultSpin _ (Or.inl rfl)
  | succ f ih =>
    intro s c h hne
    simp only [forcedSend]
    have h1 := sendConnection_nlp ok h hne c
    have h2 := (sendConnection_np ok h.np hne c).2
    generalize sendConnection cfg s c = r at h1 h2
    obtain ⟨s1, b⟩ := r
    cases b with
    | true => exact h1
    | false => exact ih s1 c h1 (h2 rfl)

theorem acceptOne_nlp {cfg} (ok : CfgOk cfg) : ∀ (fuel : Nat) (s : St) (c : Conn), NLP cfg s → s.handles ≠ [] →
    NLP cfg (acceptOne cfg fuel s c) := by
  intro fuel; induction fuel with
  | zero => intro s c h _; exact h.setFaultSpin _ (Or.inl rfl)
  | succ f ih =>
    intro s c h hne
    simp only [acceptOne]
    split
    · exact h
    · obtain ⟨w, hw, hwm⟩ := handles_next_some h.np.sound hne
      rw [hw]; simp only
      split
      · have h1 := sendConnection_nlp ok h hne c
        have h2 := (sendConnection_np ok h.np hne c).2
        generalize sendConnection cfg s c = r at h1 h2
        obtain ⟨s1, b⟩ := r
        cases b with
        | true => exact h1
        | false => exact ih s1 c h1 (h2 rfl)
      · rename_i hav
        have hav' : s.avail (s.wk w).idx = false := by simpa using hav
        have h1np := setAvail_np h.np (s.wk w).idx false (idx_lt_512 ok h.np.sound hwm) (by intro hf; cases hf)
        have hh1 : (setAvail s (s.wk w).idx false).handles = s.handles := by unfold setAvail; split <;> rfl
        have hp1 : (setAvail s (s.wk w).idx false).pend = none := by unfold setAvail; split <;> exact h.pn
        have h1 : NLP cfg (setAvail s (s.wk w).idx false) := ⟨h1np, setAvail_false_noop_live h.live _ hav', hp1⟩
        have hne1 : (setAvail s (s.wk w).idx false).handles ≠ [] := by rw [hh1]; exact hne
        have h2 := setNext_nlp h1 hne1
        have hne2 : (setNext (setAvail s (s.wk w).idx false)).handles ≠ [] := by
          rw [(setNext_np h1np hne1).2, hh1]; exact hne
        split
        · exact forcedSend_nlp ok _ _ c h2 hne2
        · exact ih _ c h2 hne2

theorem accept_nlp {cfg} (ok : CfgOk cfg) : ∀ (fuel : Nat) (s : St) (l : Nat), NLP cfg s → NLP cfg (accept cfg fuel s l) := by
  intro fuel; induction fuel with
  | zero => intro s l h; exact h.setFaultSpin _ (Or.inr (Or.inr rfl))
  | succ f ih =>
    intro s l h
    simp only [accept]
    split
    · exact h
    · split
      · exact h
      · rename_i hany
        have hany' : anyAvail cfg s = true := by simpa using hany
        have h0 := yieldPt_nlp h
        have fr := acceptSys_vframe (yieldPt cfg s) l
        have fr2 := acceptSys_frame (yieldPt cfg s) l
        have hav : (acceptSys (yieldPt cfg s) l).1.avail = s.avail := by
          have := congrArg View.avail fr.1; simp only [view] at this; rw [this, yieldPt_avail]
        generalize acceptSys (yieldPt cfg s) l = r at fr fr2 hav
        obtain ⟨s1, res⟩ := r
        simp only at fr fr2 hav ⊢
        have h1 : NLP cfg s1 := h0.frame fr2 fr
        have hne1 : s1.handles ≠ [] := anyAvail_handles h1.np.sound (by unfold anyAvail at hany' ⊢; rw [hav]; exact hany')
        cases res with
        | conn c => exact ih _ l (acceptOne_nlp ok _ s1 c h1 hne1)
        | wouldBlock => exact h1
        | connErr => exact ih _ l h1
        | otherErr =>
          exact h1.frame (Frame.trans (deregister_frame s1 l) (Frame.trans ⟨rfl, rfl⟩ (setTimeout_frame _ _)))
            (VFrame.trans (deregister_vframe s1 l) (VFrame.trans ⟨rfl, rfl⟩ (setTimeout_vframe _ _)))

theorem acceptAllFrom_nlp {cfg} (ok : CfgOk cfg) : ∀ (ls : List Nat) (s : St), NLP cfg s → NLP cfg (acceptAllFrom cfg s ls) := by
  intro ls; induction ls with
  | nil => intro s h; exact h
  | cons l ls ih => intro s h; simp only [acceptAllFrom]; exact ih _ (accept_nlp ok _ s l h)

theorem acceptAll_nlp {cfg} (ok : CfgOk cfg) {s} (h : NLP cfg s) : NLP cfg (acceptAll cfg s) := acceptAllFrom_nlp ok _ s h

theorem handleWaker_nlp {cfg} (ok : CfgOk cfg) : ∀ (fuel : Nat) (s : St), NLP cfg s → NLP cfg (handleWaker cfg fuel s).1 := by
  intro fuel; induction fuel with
  | zero => intro s h; exact h.setFaultSpin _ (Or.inr (Or.inl rfl))
  | succ f ih =>
    intro s h
    have hnp := handleWaker_np ok (f + 1) s h.np
    simp only [handleWaker] at hnp ⊢
    split
    · exact h
    · have h0 := yieldPt_nlp h
      generalize yieldPt cfg s = s0 at h0 ⊢
      cases hwq : s0.wq with
      | nil => exact h0
      | cons i q =>
        simp only
        cases i with
        | workerAvail idx =>
          have h1np : NP cfg { s0 with wq := q } := popWq_np h0.np _ q hwq (by intro w hw; cases hw)
          have h2 : NLP cfg (wakePrim { s0 with wq := q } idx) := by
            by_cases hh : hasHandleIdx { s0 with wq := q } idx = true
            · obtain ⟨w, hw, hidx⟩ := hasHandleIdx_mem _ idx hh
              have h512 : idx < 512 := by rw [← hidx]; exact idx_lt_512 ok h1np.sound hw
              refine ⟨?_, wake_live h0.live idx q hwq h512, ?_⟩
              · unfold wakePrim; rw [if_pos hh]
                exact setAvail_np h1np idx true h512 (fun _ => ⟨w, hw, hidx⟩)
              · unfold wakePrim setAvail; rw [if_pos hh]; split <;> exact h0.pn
            · have e : wakePrim { s0 with wq := q } idx = { s0 with wq := q } := by unfold wakePrim; rw [if_neg hh]
              rw [e]
              refine ⟨h1np, ?_, h0.pn⟩
              -- no handle for `idx`: nothing with that index is in the rotation
              refine ⟨?_, h0.live.pb⟩
              intro v hv hal
              have := h0.live.lw v hv hal
              simp only [LiveW, core] at this ⊢
              unfold LWn at *
              refine ⟨this.1, ?_⟩
              intro h1 h2 h3 h4
              by_cases hi : (s0.wk v).idx = idx
              · exfalso; apply hh
                unfold hasHandleIdx
                exact List.any_eq_true.mpr ⟨v, h1, by simpa using hi⟩
              · have hc : q.count (.workerAvail (s0.wk v).idx) = s0.wq.count (.workerAvail (s0.wk v).idx) := by
                  rw [hwq, List.count_cons]
                  have : ¬ (Interest.workerAvail idx = Interest.workerAvail (s0.wk v).idx) := by
                    intro h; injection h with h; exact hi h.symm
                  simp [this]
                rw [hc] at h4
                exact this.2 h1 h2 h3 h4
          simp only
          split
          · exact ih _ (acceptAll_nlp ok h2)
          · exact ih _ h2
        | worker w =>
          have hp : (view s0).pend = w :: pendingWorkers q := by
            simp only [view, hwq, pendingWorkers, List.filterMap_cons]
          have hwlt : w < s0.nWk := h0.np.sound.plt w (by rw [hp]; exact List.mem_cons_self)
          have h512 : (s0.wk w).idx < 512 := by
            have := h0.np.sound.idxlt w hwlt; have := ok.max; simp only [view] at *; omega
          have h1 : Live cfg { s0 with wq := q } := popOther_live h0.live _ q hwq (by intro k hk; cases hk)
          have h3 : NLP cfg (addWorker { s0 with wq := q } w) := by
            refine ⟨?_, addWorker_live h1 w h512, ?_⟩
            · refine ⟨?_, by simp only [addWorker, setAvail, h512, ↓reduceIte]; exact h0.np.nopanic⟩
              have key := SoundV.addWorker h0.np.sound w (pendingWorkers q) hp
              unfold Sound
              have hv : view (addWorker { s0 with wq := q } w) =
                  View.mk (view s0).idxOf (view s0).nWk ((view s0).handles ++ [w]) (view s0).next
                    (upd (view s0).avail ((view s0).idxOf w) true) (pendingWorkers q) (view s0).flog (view s0).restarted := by
                simp only [addWorker, setAvail, h512, ↓reduceIte, view]
              rw [hv]; exact key
            · simp only [addWorker, setAvail, h512, ↓reduceIte]; exact h0.pn
          simp only
          split
          · exact ih _ (acceptAll_nlp ok h3)
          · exact ih _ h3
        | pause =>
          have h1 : NLP cfg { s0 with wq := q } :=
            ⟨popWq_np h0.np _ q hwq (by intro w hw; cases hw), popOther_live h0.live _ q hwq (by intro k hk; cases hk), h0.pn⟩
          simp only
          split
          · have h1' : NLP cfg { s0 with wq := q, paused := true } := h1.frame ⟨rfl, rfl⟩ ⟨rfl, rfl⟩
            exact ih _ (h1'.frame (deregisterAllFrom_frame _ _) (deregisterAllFrom_vframe _ _))
          · exact ih _ h1
        | resume =>
          have h1 : NLP cfg { s0 with wq := q } :=
            ⟨popWq_np h0.np _ q hwq (by intro w hw; cases hw), popOther_live h0.live _ q hwq (by intro k hk; cases hk), h0.pn⟩
          simp only
          split
          · have h1' : NLP cfg { s0 with wq := q, paused := false } := h1.frame ⟨rfl, rfl⟩ ⟨rfl, rfl⟩
            exact ih _ (acceptAll_nlp ok (h1'.frame (registerAllFrom_frame _ _) (registerAllFrom_vframe _ _)))
          · exact ih _ h1
        | stop =>
          have h1 : NLP cfg { s0 with wq := q } :=
            ⟨popWq_np h0.np _ q hwq (by intro w hw; cases hw), popOther_live h0.live _ q hwq (by intro k hk; cases hk), h0.pn⟩
          simp only
          split
          · exact (h1.frame (deregisterAllFrom_frame _ _) (deregisterAllFrom_vframe _ _)).frame (cleanupAll_frame _) ⟨rfl, rfl⟩
          · exact h1.frame (cleanupAll_frame _) ⟨rfl, rfl⟩

theorem pollEvents_nlp {cfg} (ok : CfgOk cfg) : ∀ (order : List Ev) (s : St), NLP cfg s → NLP cfg (pollEvents cfg s order).1 := by
  intro order; induction order with
  | nil => intro s h; exact h
  | cons e es ih =>
    intro s h
    simp only [pollEvents]
    cases e with
    | waker =>
      simp only
      have hw := handleWaker_nlp ok (wakerFuel s) s h
      generalize handleWaker cfg (wakerFuel s) s = r at hw
      obtain ⟨s1, ex⟩ := r
      simp only at hw ⊢
      split
      · exact hw
      · exact ih _ hw
    | listener l => exact ih _ (accept_nlp ok _ s l h)

theorem poll_nlp {cfg} (ok : CfgOk cfg) {s} (h : NLP cfg s) (order : List Ev) (sched : List (List EnvAct)) :
    NLP cfg (poll cfg s order sched) := by
  unfold poll
  split
  · exact h
  · have h0 : NLP cfg (clearEdges { s with sched := sched, yields := 0 }) :=
      ⟨NP.vframe (s := s) ⟨rfl, rfl⟩ h.np, live_of_core_eq rfl h.live, h.pn⟩
    have h1 := pollEvents_nlp ok order _ h0
    generalize (pollEvents cfg (clearEdges { s with sched := sched, yields := 0 }) order) = r at h1
    unfold pollFinish
    split
    · exact ⟨NP.vframe (s := r.1) ⟨rfl, rfl⟩ h1.np, live_of_core_eq rfl h1.live, h1.pn⟩
    · have h2 := h1.frame (processTimeout_frame _) (processTimeout_vframe _)
      exact ⟨NP.vframe (s := processTimeout r.1) ⟨rfl, rfl⟩ h2.np, live_of_core_eq rfl h2.live, h2.pn⟩

theorem runEnv_nlp (cfg : Cfg) (as : List EnvAct) {s : St} (h : NLP cfg s) : NLP cfg (runEnv cfg s as) := by
  have := runEnv_nl cfg as s ⟨h.np, h.live⟩
  exact ⟨this.np, this.live, by rw [runEnv_pend]; exact h.pn⟩

theorem step_nlp {cfg} (ok : CfgOk cfg) {s} (h : NLP cfg s) (op : Op) : NLP cfg (step cfg s op) := by
  cases op with
  | env a => exact runEnv_nlp cfg [a] h
  | poll order sched => exact poll_nlp ok h order sched
  | finishW2 w c order =>
    simp only [step]
    have e1 := runEnv_nlp cfg [.finish w c] h
    have h1 : NLP cfg { (envStep cfg s (.finish w c)).1 with acts := (envStep cfg s (.finish w c)).1.acts ++ [(envStep cfg s (.finish w c)).2] } := by
      simpa [runEnv] using e1
    split
    · exact runEnv_nlp cfg _ (poll_nlp ok h1 order [])
    · exact h1

theorem run_nlp {cfg} (ok : CfgOk cfg) : ∀ (ops : List Op) (s : St), NLP cfg s → NLP cfg (run cfg s ops) := by
  intro ops; induction ops with
  | nil => intro s h; exact h
  | cons op ops ih => intro s h; simp only [run]; exact ih _ (step_nlp ok h op)

theorem init_nlp (cfg : Cfg) (kinds : List Kind) : NLP cfg (init cfg kinds) :=
  ⟨init_np cfg kinds, init_live cfg kinds, rfl⟩

end ActixNet.Srv
