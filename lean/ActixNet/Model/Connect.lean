/-!
# Model of the `actix-tls` connector (C19)

Sources (actix-tls/src/connect):
* `host.rs`      — `impl Host for String / &'static str` (`split_once(':')`, `port.parse().ok()`)
* `info.rs`      — `ConnectInfo::{new, with_addr, set_port, set_addr, set_addrs, set_local_addr, port}`
* `connect_addrs.rs` — `ConnectAddrs::{None, One, Multi}`
* `resolver.rs`  — `ResolverService::call` + `ResolverFut::poll`
* `tcp.rs`       — `TcpConnectorFut::{new, poll}` (pop addresses from the front until one connects)
* `connector.rs` — `ConnectServiceResponse::poll` (resolve, then connect)
* `rustls_0_23.rs`, `openssl.rs` — the TLS step (`ServerName::try_from(hostname)` / `into_ssl(hostname)`)

The environment is passed in as functions: `parseIp` (is this hostname an IP literal, `str::parse::<IpAddr>`),
`lookup` (what the configured resolver answers), `connect` (what a TCP connect to one address does) and,
for the TLS step, `validName` / `certOk` (the TLS library's name syntax check and certificate
verification — uninterpreted).  Every function also returns the *log* of environment calls it made
(resolver look-ups, addresses dialled), because the property is about which calls are made, too.
Import-free so that the driver links as a `lean_exe`.
-/
namespace ActixNet.Connect

/-! ## `Host` for strings -/

/-- `str::split_once(':')` on the characters of the string -/
def splitOnce (cs : List Char) : Option (List Char × List Char) :=
  match cs with
  | [] => none
  | c :: t =>
    if c = ':' then some ([], t)
    else match splitOnce t with
      | some (a, b) => some (c :: a, b)
      | none => none

def isDigit (c : Char) : Bool := decide ('0' ≤ c ∧ c ≤ '9')
def digitVal (c : Char) : Nat := c.toNat - '0'.toNat

/-- value of a string of ASCII digits (`none` if a non-digit occurs); `acc` = value so far -/
def digitsVal : List Char → Nat → Option Nat
  | [], acc => some acc
  | c :: t, acc => if isDigit c then digitsVal t (10 * acc + digitVal c) else none

/-- `str::parse::<u16>()`: optional leading `+`, at least one digit, only ASCII digits, value ≤ 65535 -/
def parseU16 (cs : List Char) : Option Nat :=
  let ds := match cs with
    | '+' :: t => t
    | _ => cs
  if ds.isEmpty then none
  else match digitsVal ds 0 with
    | some v => if v ≤ 65535 then some v else none
    | none => none

/-- what the `Host` trait returns for a request: `hostname()` and `port()` -/
structure Host where
  hostname : String
  port : Option Nat
deriving Repr, DecidableEq

/-- `impl Host for String` -/
def hostOfChars (cs : List Char) : Host :=
  match splitOnce cs with
  | some (h, p) => { hostname := String.ofList h, port := parseU16 p }
  | none => { hostname := String.ofList cs, port := none }

def hostOfString (s : String) : Host := hostOfChars s.toList

/-! ## `Host` for `http::Uri` (cargo feature `uri`; connect/uri.rs, both for http 0.2 and http 1)

`hostname()` is the URI's host (`""` if it has none), `port()` the explicit port if the authority has
one, otherwise the well-known port of the scheme looked up in a table (`scheme_to_port`; the table is
a parameter here: the driver passes the one regenerated from the source, `Src.tlsSchemePorts`). -/

/-- the parts of a URI the `Host` impl looks at -/
structure UriParts where
  scheme : Option String
  host : Option String
  port : Option Nat
deriving Repr, DecidableEq

/-- `scheme_to_port` over a table of `(scheme, port)` arms: first match, `None` if not listed -/
def schemePort (table : List (String × Nat)) : Option String → Option Nat
  | none => none
  | some sch => (table.find? (fun e => e.1 == sch)).map (·.2)

/-- `impl Host for http::Uri` -/
def hostOfUri (table : List (String × Nat)) (u : UriParts) : Host :=
  { hostname := u.host.getD "",
    port := match u.port with
      | some p => some p
      | none => schemePort table u.scheme }

/-- IANA service-name registry (and the registered defaults of the database protocols): the reference
the regenerated source table is compared with in `Props/C19.lean` -/
def wellKnownPorts : List (String × Nat) :=
  [("http", 80), ("https", 443), ("ws", 80), ("wss", 443), ("amqp", 5672), ("amqps", 5671),
   ("mqtt", 1883), ("mqtts", 8883), ("ftp", 21), ("ftps", 990), ("redis", 6379), ("mysql", 3306),
   ("postgres", 5432)]

/-! ## IPv4 literals (`Ipv4Addr::from_str`): four decimal octets, 1–3 digits, no leading zero, ≤ 255 -/

def octetOk (cs : List Char) : Bool :=
  match cs with
  | [] => false
  | c :: t =>
    cs.all isDigit && decide (cs.length ≤ 3) && (t.isEmpty || c != '0') &&
      (match digitsVal cs 0 with | some v => decide (v ≤ 255) | none => false)

/-- split on every `.` -/
def splitDots : List Char → List (List Char)
  | [] => [[]]
  | c :: t =>
    match splitDots t with
    | [] => [[c]]          -- unreachable: `splitDots` never returns `[]`
    | g :: gs => if c = '.' then [] :: g :: gs else (c :: g) :: gs

def isIpv4 (cs : List Char) : Bool :=
  let gs := splitDots cs
  decide (gs.length = 4) && gs.all octetOk

/-! ## `ConnectInfo` -/

structure Addr where
  ip : String
  port : Nat
deriving Repr, DecidableEq

/-- `ConnectAddrs` -/
inductive Addrs where
  | none
  | one (a : Addr)
  | multi (l : List Addr)
deriving Repr, DecidableEq

def Addrs.isUnresolved : Addrs → Bool
  | .none => true
  | _ => false

def Addrs.isResolved (a : Addrs) : Bool := !a.isUnresolved

/-- `From<Option<SocketAddr>>` -/
def Addrs.ofOption : Option Addr → Addrs
  | some a => .one a
  | Option.none => .none

def Addrs.toList : Addrs → List Addr
  | .none => []
  | .one a => [a]
  | .multi l => l

/-- `ConnectInfo<R>` -/
structure Req where
  host : Host
  port : Nat := 0
  addr : Addrs := .none
  localAddr : Option String := none
deriving Repr, DecidableEq

/-- `ConnectInfo::new` -/
def Req.new (h : Host) : Req := { host := h, port := h.port.getD 0 }
/-- `ConnectInfo::with_addr` -/
def Req.withAddr (h : Host) (a : Addr) : Req := { host := h, port := 0, addr := .one a }
def Req.setPort (r : Req) (p : Nat) : Req := { r with port := p }
def Req.setAddr (r : Req) (a : Option Addr) : Req := { r with addr := Addrs.ofOption a }
/-- `set_addrs`: fewer than two ⇒ `None` / `One`, otherwise `Multi` -/
def Req.setAddrs (r : Req) (l : List Addr) : Req :=
  { r with addr := if l.length < 2 then Addrs.ofOption l.head? else .multi l }
/-- `take_addrs`: `mem::take(&mut self.addr)` — the addresses are handed out (in order) and the request is
unresolved again -/
def Req.takeAddrs (r : Req) : Req × List Addr := ({ r with addr := .none }, r.addr.toList)
def Req.setLocal (r : Req) (ip : String) : Req := { r with localAddr := some ip }
/-- `ConnectInfo::port()`: the request's own port wins over the `port` field -/
def Req.effPort (r : Req) : Nat := r.host.port.getD r.port
def Req.hostname (r : Req) : String := r.host.hostname

/-- well-formedness of what the public API can build: `Multi` has at least two entries -/
def Addrs.wf : Addrs → Prop
  | .multi l => 2 ≤ l.length
  | _ => True

/-! ## Resolver -/

/-- what the configured resolver (custom `Resolve::lookup` or `ToSocketAddrs`) answers -/
inductive Lookup where
  | ok (l : List Addr)
  | fail
deriving Repr, DecidableEq

/-- `ConnectError` (`Io` carries the OS error code) -/
inductive ConnectError where
  | resolver
  | noRecords
  | invalidInput
  | unresolved
  | io (code : Nat)
deriving Repr, DecidableEq

structure Resolved where
  result : Except ConnectError Req
  /-- resolver calls made: `(hostname, port)` in order -/
  lookups : List (String × Nat)

/-- `ResolverService::call` followed by `ResolverFut::poll` to completion -/
def resolve (parseIp : String → Option String) (lookup : String → Nat → Lookup) (r : Req) : Resolved :=
  if r.addr.isResolved then { result := .ok r, lookups := [] }
  else match parseIp r.hostname with
    | some ip => { result := .ok (r.setAddr (some { ip := ip, port := r.effPort })), lookups := [] }
    | none =>
      match lookup r.hostname r.effPort with
      | .fail => { result := .error .resolver, lookups := [(r.hostname, r.effPort)] }
      | .ok l =>
        if (r.setAddrs l).addr.isUnresolved then
          { result := .error .noRecords, lookups := [(r.hostname, r.effPort)] }
        else { result := .ok (r.setAddrs l), lookups := [(r.hostname, r.effPort)] }

/-! ## TCP connector -/

/-- the loop of `TcpConnectorFut::poll`: `cur` is being connected, `rest` is the queue -/
def dialLoop {S : Type} (connect : Addr → Except Nat S) (cur : Addr) : List Addr → Except Nat S × List Addr
  | [] =>
    match connect cur with
    | .ok s => (.ok s, [cur])
    | .error e => (.error e, [cur])
  | a :: t =>
    match connect cur with
    | .ok s => (.ok s, [cur])
    | .error _ => ((dialLoop connect a t).1, cur :: (dialLoop connect a t).2)

structure Dialed (S : Type) where
  result : Except ConnectError S
  /-- addresses a connect was attempted to, in order -/
  tried : List Addr

def liftIo {S : Type} : Except Nat S → Except ConnectError S
  | .ok s => .ok s
  | .error e => .error (.io e)

/-- `TcpConnectorFut::new` + `poll` to completion; `none` = the `pop_front().unwrap()` panic on an
empty `Multi` (not constructible through the public API, see `Addrs.wf`) -/
def dial {S : Type} (connect : Addr → Except Nat S) : Addrs → Option (Dialed S)
  | .none => some { result := .error .unresolved, tried := [] }
  | .one a => some { result := liftIo (dialLoop connect a []).1, tried := (dialLoop connect a []).2 }
  | .multi [] => Option.none
  | .multi (a :: t) => some { result := liftIo (dialLoop connect a t).1, tried := (dialLoop connect a t).2 }

/-! ## Connector = resolver, then TCP connector -/

structure Connected (S : Type) where
  result : Except ConnectError S
  lookups : List (String × Nat)
  tried : List Addr

/-- `ConnectServiceResponse::poll` to completion.  `connect` gets the request's local bind address. -/
def connectFull {S : Type} (parseIp : String → Option String) (lookup : String → Nat → Lookup)
    (connect : Option String → Addr → Except Nat S) (r : Req) : Option (Connected S) :=
  match (resolve parseIp lookup r).result with
  | .error e => some { result := .error e, lookups := (resolve parseIp lookup r).lookups, tried := [] }
  | .ok r' =>
    match dial (connect r'.localAddr) r'.addr with
    | Option.none => Option.none
    | some d => some { result := d.result, lookups := (resolve parseIp lookup r).lookups, tried := d.tried }

/-! ## Construction paths (`Connector`, `Resolver`, `TcpConnector`, the TLS connector factories)

Every connector comes as a *factory* (`Connector::new(resolver)`, `Resolver::custom(r)`, `TcpConnector`,
`TlsConnector::new(config)`) from which a *service* is obtained either by the inherent `service()`
method or through `ServiceFactory::new_service` (what `actix-web` / `awc` and service pipelines use);
factories and services are `Clone`.  `κ` is the configuration carried along: the resolver for
`Connector` / `Resolver`, the TLS client configuration for the TLS connectors, nothing for
`TcpConnector`. -/

structure Factory (κ : Type) where
  cfg : κ

structure Service (κ : Type) where
  cfg : κ

/-- `Connector::new` / `Resolver::custom` / `TlsConnector::new` -/
def Factory.new {κ : Type} (k : κ) : Factory κ := { cfg := k }
/-- `impl Clone` of a factory -/
def Factory.clone {κ : Type} (f : Factory κ) : Factory κ := { cfg := f.cfg }
/-- the inherent `service()` method: the service gets (a clone of) the factory's configuration -/
def Factory.service {κ : Type} (f : Factory κ) : Service κ := { cfg := f.cfg }
/-- `ServiceFactory::new_service`: `ok(self.service())` -/
def Factory.newService {κ : Type} (f : Factory κ) : Service κ := f.service
/-- `impl Clone` of a service -/
def Service.clone {κ : Type} (s : Service κ) : Service κ := { cfg := s.cfg }

/-- the ways the harness obtains a service from a configuration -/
inductive Path where
  /-- `X::new(cfg).service()` -/
  | s
  /-- `ServiceFactory::new_service(&X::new(cfg), ())` -/
  | f
  /-- `X::new(cfg).clone().service()` -/
  | cs
  /-- `new_service` on a clone of the factory -/
  | cf
  /-- `service().clone()` -/
  | sc
  /-- `new_service(..).clone()` -/
  | fc
  /-- the service constructed directly from the configuration (`ResolverService::custom(r)`,
  `TlsConnector::service(config)`) -/
  | k
  /-- … and cloned -/
  | kc
  /-- `XService::default()` -/
  | d
  /-- `X::default().service()` -/
  | ds
  /-- `new_service` on `X::default()` -/
  | df
deriving DecidableEq, Repr

/-- does the path start from `Default::default()` rather than from a given configuration? -/
def Path.isDefault : Path → Bool
  | .d | .ds | .df => true
  | _ => false

/-- the service a path yields from configuration `k` (`dflt` = what `Default` gives) -/
def Path.build {κ : Type} (dflt : κ) (p : Path) (k : κ) : Service κ :=
  match p with
  | .s => (Factory.new k).service
  | .f => (Factory.new k).newService
  | .cs => (Factory.new k).clone.service
  | .cf => (Factory.new k).clone.newService
  | .sc => (Factory.new k).service.clone
  | .fc => (Factory.new k).newService.clone
  | .k => { cfg := k }
  | .kc => (Service.mk k).clone
  | .d => { cfg := dflt }
  | .ds => (Factory.new dflt).service
  | .df => (Factory.new dflt).newService

def parsePath : String → Option Path
  | "s" => some .s | "f" => some .f | "cs" => some .cs | "cf" => some .cf | "sc" => some .sc | "fc" => some .fc
  | "k" => some .k | "kc" => some .kc | "d" => some .d | "ds" => some .ds | "df" => some .df
  | _ => none

/-! ## TLS connector step -/

inductive TlsOutcome where
  /-- the name is not acceptable to the library: `InvalidInput`, no byte is exchanged -/
  | invalidInput
  /-- handshake ran with `name` as the verified server name and was accepted -/
  | established (name : String)
  /-- handshake ran with `name` and was rejected -/
  | handshakeError (name : String)
deriving Repr, DecidableEq

/-- names for which a handshake is started (i.e. everything except `invalidInput`) -/
def TlsOutcome.handshakeName : TlsOutcome → Option String
  | .invalidInput => none
  | .established n => some n
  | .handshakeError n => some n

/-- `TlsConnectorService::call` + `ConnectFut::poll`: the name handed to the library is
`connection.hostname()`; `validName` is the library's syntax check (rustls: `ServerName::try_from`;
OpenSSL: none), `verify cert name` the library's certificate + hostname verification. -/
def tlsConnect {Cert : Type} (validName : String → Bool) (verify : Cert → String → Bool)
    (h : Host) (cert : Cert) : TlsOutcome :=
  if validName h.hostname then
    if verify cert h.hostname then .established h.hostname else .handshakeError h.hostname
  else .invalidInput

/-- Several calls on ONE `TlsConnectorService` instance (or on clones of it), in order: the service holds
nothing but its TLS configuration, so every call is `tlsConnect` of its own request — the name
verified is never one remembered from an earlier call. -/
def tlsConnectMany {Cert : Type} (validName : String → Bool) (verify : Cert → String → Bool)
    (calls : List (Host × Cert)) : List TlsOutcome :=
  calls.map fun c => tlsConnect validName verify c.1 c.2

/-! ## Name syntax accepted by the TLS libraries, certificate coverage (driver-side environment) -/

/-- `rustls_pki_types::DnsName` validation (server_name.rs `validate`): the label state machine -/
inductive DnsSt where
  | start | next | numOnly (len : Nat) | nextAfterNum | subsequent (len : Nat) | hyphen (len : Nat)

def isAlphaU (c : Char) : Bool := decide (('a' ≤ c ∧ c ≤ 'z') ∨ ('A' ≤ c ∧ c ≤ 'Z') ∨ c = '_')

def dnsStep (st : DnsSt) (c : Char) : Option DnsSt :=
  match st, c with
  | .subsequent _, '.' => some .next
  | .numOnly _, '.' => some .nextAfterNum
  | _, '.' => none
  | .start, c | .next, c | .nextAfterNum, c =>
    if isDigit c then some (.numOnly 1) else if isAlphaU c then some (.subsequent 1) else none
  | .subsequent len, c | .numOnly len, c | .hyphen len, c =>
    if 63 ≤ len then none
    else if c = '-' then some (.hyphen (len + 1))
    else match st with
      | .numOnly _ => if isDigit c then some (.numOnly (len + 1)) else if isAlphaU c then some (.subsequent (len + 1)) else none
      | _ => if isDigit c || isAlphaU c then some (.subsequent (len + 1)) else none

def dnsRun : DnsSt → List Char → Option DnsSt
  | st, [] => some st
  | st, c :: t => match dnsStep st c with
    | some st' => dnsRun st' t
    | none => none

/-- `DnsName::try_from(&str).is_ok()` -/
def validDnsName (s : String) : Bool :=
  if s.length > 253 then false else
  match dnsRun .start s.toList with
  | some (.subsequent _) | some .next => true
  | _ => false

/-- The name a TLS library verifies (and sends as SNI) when the connector hands it `name` — environment,
measured on the unchanged tree: rustls (`"r"`) reads ONE trailing dot as the root label of a fully
qualified name and drops it; OpenSSL takes the name exactly as given.  Note that this is the library's
doing: the connector itself hands over the request's hostname unchanged (`tls_name_is_hostname`), so
`localhost..` reaches rustls as such and is rejected as a name, and reaches OpenSSL as such and matches
no certificate for `localhost`. -/
def verifiedName (lib : String) (name : String) : String :=
  if lib == "r" then
    match name.toList.reverse with
    | '.' :: rest => String.ofList rest.reverse
    | _ => name
  else name

/-- certificate names the library considers: rustls never matches a name that ends in a dot -/
def certNamesFor (lib : String) (names : List String) : List String :=
  if lib == "r" then names.filter fun n => n.toList.getLast? != some '.' else names

def lowerStr (s : String) : String := String.ofList (s.toList.map Char.toLower)

/-- textbook certificate coverage (RFC 6125): IP SAN for IP literals, else case-insensitive exact
match or a single left-most wildcard label -/
def covers (isIp : String → Bool) (names : List String) (host : String) : Bool :=
  names.any fun n =>
    if isIp host || isIp n then isIp host && n == host
    else
      let n := lowerStr n
      let h := lowerStr host
      match n.toList with
      | '*' :: '.' :: rest =>
        match splitOnceAt '.' h.toList with
        | some (label, tail) => !label.isEmpty && tail == rest
        | none => false
      | _ => n == h
where
  splitOnceAt (c : Char) : List Char → Option (List Char × List Char)
    | [] => none
    | x :: t => if x = c then some ([], t) else
      match splitOnceAt c t with
      | some (a, b) => some (x :: a, b)
      | none => none

end ActixNet.Connect
