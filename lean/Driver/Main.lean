import Driver.Util
import Driver.Bs
/-! `amodel <engine>`: reads one operation per line on stdin, prints one observation per line. -/
open Driver

def main (args : List String) : IO UInt32 := do
  let stdin ← IO.getStdin
  let stdout ← IO.getStdout
  match args with
  | ["bs"] => loop stdin stdout Driver.Bs.step ([] : ActixNet.ByteString.Store); return 0
  | _ => IO.eprintln "usage: amodel <engine>"; return 2
