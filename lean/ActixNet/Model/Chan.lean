import ActixNet.Model.Counter
/-!
# Model of `local_channel::mpsc` (C16)

`Chan` is `Shared {buffer, blocked_recv, has_receiver}` (local-channel/src/mpsc.rs:36-41) plus the
handles that own the `Rc`: the live `Sender`s (ids in creation order) and the `Receiver`.
`Rc::strong_count` is `senders.length + (1 if the receiver is alive)`.

The whole public surface of the crate is an operation: `Sender::{send, close, clone, drop}`,
`<Sender as Sink>::{poll_ready, start_send, poll_flush, poll_close}`, `Receiver::{recv, sender, drop}`,
`<Receiver as Stream>::poll_next`, `Debug` of both ends.  `start_send` *is* `send` (:99-101) and the
`recv()` future *is* `poll_fn(|cx| poll_next(cx))` (:137-140, no state of its own): they are the same
constructor with a `SendPath` / `RecvPath` tag that `step` does not look at, so every theorem
quantifies over the entry points.  The `Sink` readiness methods (always `Ready(Ok(()))`; `poll_close`
does not close the channel), dropping a pending `recv()` future and `Debug` are `Quiet` operations.

Every operation follows the code line by line (`send` :55-67, `Sender::drop` :106-118, `poll_next`
:151-166, `Receiver::sender` :141-145, `Receiver::drop` :168-174) with **one exception, `close`
(:73-75) and the corresponding test in `poll_next`**: property C16 demands that `close` wakes a
parked receiver and that a closed channel drains and then ends, while the unchanged tree only clears
`has_receiver` (DESIGN.md §7 F5; reproduced by `corpus/C16/f5-*.ops`).  The model implements what
the property demands — exactly the behaviour of `/verif/fixes/C16-close-wakes.patch`, which has since
been applied to /repo (`fix: local-channel Sender::close ends the receiver's stream and wakes it`):

* `close`: `has_receiver = false; blocked_recv.wake()`;
* `poll_next`: ends the stream when `strong_count == 1 || !has_receiver`.
-/
namespace ActixNet
namespace Chan

structure Chan where
  buffer : List Nat := []
  /-- the `has_receiver` flag: cleared by `Receiver::drop` **and** by `Sender::close` -/
  hasReceiver : Bool := true
  /-- `blocked_recv`: the parked receiver's waker -/
  blocked : LocalWaker := {}
  /-- live `Sender` handles, newest first (a `clone` of the newest sender, `Receiver::sender()` and the
  drop of the newest sender are O(1) in the compiled driver: populations of 65 537 senders are driven
  through it; nothing depends on the order) -/
  senders : List Nat := [0]
  nextSender : Nat := 1
  /-- the `Receiver` handle has not been dropped -/
  recvAlive : Bool := true
deriving Repr, DecidableEq

/-- `channel()`: one sender (id 0) and the receiver -/
def init : Chan := {}

/-- `Rc::strong_count(&shared)` -/
def Chan.strong (c : Chan) : Nat := c.senders.length + (if c.recvAlive then 1 else 0)

/-- the waker of the parked receiver, if any -/
def Chan.parked (c : Chan) : Option WakerId := c.blocked.waker

/-- the public entry points through which a message is handed to the channel -/
inductive SendPath where
  | send        -- `Sender::send`
  | sink        -- `<Sender as Sink>::start_send` (which is `self.send(item)`)
deriving Repr, DecidableEq

/-- the public entry points through which the receiver is asked for the next message.  The future
returned by `recv()` is `poll_fn(|cx| this.poll_next(cx))`: it has no state of its own, so polling a
pending `recv()` future again, or dropping it and polling a new one, is one more `poll_next`. -/
inductive RecvPath where
  | pollNext    -- `<Receiver as Stream>::poll_next`
  | recv        -- one poll of a `Receiver::recv()` future (a pending one, or a fresh one)
deriving Repr, DecidableEq

/-- public entry points that must leave the channel as it is and wake nobody -/
inductive Quiet where
  | sinkReady (i : Nat)       -- `<Sender as Sink>::poll_ready`  (always `Ready(Ok)`)
  | sinkFlush (i : Nat)       -- `<Sender as Sink>::poll_flush`  (always `Ready(Ok)`)
  | sinkClose (i : Nat)       -- `<Sender as Sink>::poll_close`  (always `Ready(Ok)`; does **not** close)
  | recvDrop                  -- drop a pending `recv()` future (cancellation), if there is one
  | debugSender (i : Nat)     -- `format!("{:?}", senders[i])`
  | debugReceiver             -- `format!("{:?}", receiver)`
deriving Repr, DecidableEq

inductive Op where
  | send (p : SendPath) (i x : Nat)     -- `senders[i].send(x)` / `start_send(x)`
  | clone (i : Nat)                     -- `senders[i].clone()`
  | dropSender (i : Nat)                -- `drop(senders[i])`
  | close (i : Nat)                     -- `senders[i].close()`
  | poll (p : RecvPath) (w : WakerId)   -- `receiver.poll_next(cx)` / `receiver.recv()` polled, waker `w`
  | senderFromReceiver                  -- `receiver.sender()`
  | dropReceiver                        -- `drop(receiver)`
  | quiet (k : Quiet)
deriving Repr, DecidableEq

inductive PollRes where
  | ready (x : Option Nat)
  | pending
deriving Repr, DecidableEq

inductive Obs where
  | sent (ok : Bool) (woke : Option WakerId)
  | sender (id : Nat)
  | senderDropped (woke : Option WakerId)
  | closed (woke : Option WakerId)
  | polled (r : PollRes)
  | receiverDropped
  | readyOk                                         -- `Poll::Ready(Ok(()))` of the `Sink` methods
  | futDropped
  | debug (buffer : List Nat) (hasReceiver : Bool)  -- the fields `Debug` prints
deriving Repr, DecidableEq

/-- the waker an observation reports as woken -/
def Obs.woke : Obs → Option WakerId
  | .sent _ w => w
  | .senderDropped w => w
  | .closed w => w
  | _ => none

/-- a quiet operation applies to a live sender / the live receiver -/
def Quiet.applies (c : Chan) : Quiet → Bool
  | .sinkReady i => c.senders.contains i
  | .sinkFlush i => c.senders.contains i
  | .sinkClose i => c.senders.contains i
  | .recvDrop => c.recvAlive
  | .debugSender i => c.senders.contains i
  | .debugReceiver => c.recvAlive

def Quiet.obs (c : Chan) : Quiet → Obs
  | .sinkReady _ => .readyOk
  | .sinkFlush _ => .readyOk
  | .sinkClose _ => .readyOk
  | .recvDrop => .futDropped
  | .debugSender _ => .debug c.buffer c.hasReceiver
  | .debugReceiver => .debug c.buffer c.hasReceiver

/-- one operation; `none` = not applicable (`bad-op`: sender not live, receiver already dropped).
`send` and `poll` do not look at the entry point they were reached through. -/
def step (c : Chan) : Op → Option (Chan × Obs)
  | .send _ i x =>
    if i ∈ c.senders then
      if c.hasReceiver then
        some ({ c with buffer := c.buffer ++ [x], blocked := c.blocked.wake.1 }, .sent true c.blocked.wake.2)
      else some (c, .sent false none)
    else none
  | .clone i =>
    if i ∈ c.senders then
      some ({ c with senders := c.nextSender :: c.senders, nextSender := c.nextSender + 1 }, .sender c.nextSender)
    else none
  | .dropSender i =>
    if i ∈ c.senders then
      if c.hasReceiver && c.strong == 2 then
        some ({ c with senders := c.senders.erase i, blocked := c.blocked.wake.1 }, .senderDropped c.blocked.wake.2)
      else some ({ c with senders := c.senders.erase i }, .senderDropped none)
    else none
  | .close i =>
    if i ∈ c.senders then
      some ({ c with hasReceiver := false, blocked := c.blocked.wake.1 }, .closed c.blocked.wake.2)
    else none
  | .poll _ w =>
    if c.recvAlive then
      if c.strong == 1 || !c.hasReceiver then
        some ({ c with buffer := c.buffer.tail }, .polled (.ready c.buffer.head?))
      else
        match c.buffer with
        | x :: t => some ({ c with buffer := t }, .polled (.ready (some x)))
        | [] => some ({ c with blocked := (c.blocked.register w).1 }, .polled .pending)
    else none
  | .senderFromReceiver =>
    if c.recvAlive then
      some ({ c with senders := c.nextSender :: c.senders, nextSender := c.nextSender + 1 }, .sender c.nextSender)
    else none
  | .dropReceiver =>
    if c.recvAlive then
      some ({ c with buffer := [], hasReceiver := false, recvAlive := false }, .receiverDropped)
    else none
  | .quiet k => if k.applies c then some (c, k.obs c) else none

/-- a history of applicable operations with the observations it produced -/
def run (c : Chan) : List Op → Option (Chan × List Obs)
  | [] => some (c, [])
  | op :: ops =>
    match step c op with
    | none => none
    | some (c', o) =>
      match run c' ops with
      | none => none
      | some (c'', os) => some (c'', o :: os)

/-- reachable from `channel()` -/
def Reach (c : Chan) : Prop := ∃ ops os, run init ops = some (c, os)

/-! ### two channels and `Clone::clone_from`

A sender handle can be re-pointed with `a.clone_from(&b)` — to a sender of its own channel or of
**another** one.  `Clone::clone_from` is `*self = source.clone()`: the old value of `a` is dropped
(`Sender::drop` runs: if it was the last sender of its channel, the receiver parked there is woken and
its stream ends) and `a` becomes one more sender of `b`'s channel.  `Pair` is two independent channels;
an ordinary operation goes to one of them; `cloneFrom` is the `dropSender` step on the channel of the
overwritten handle followed by the `clone` step on the channel of the source (the order is immaterial:
on different channels the steps commute, on one channel `i ≠ j` is alive throughout, so `i` is not the
last sender either way).  Every observation is the list of the `Chan` observations made. -/

inductive Side where
  | a
  | b
deriving Repr, DecidableEq

structure Pair where
  a : Chan := init
  b : Chan := init
deriving Repr, DecidableEq

def Pair.get (p : Pair) : Side → Chan
  | .a => p.a
  | .b => p.b

def Pair.set (p : Pair) : Side → Chan → Pair
  | .a, c => { p with a := c }
  | .b, c => { p with b := c }

inductive POp where
  | on (s : Side) (op : Op)
  | cloneFrom (si : Side) (i : Nat) (sj : Side) (j : Nat)   -- `si.senders[i].clone_from(&sj.senders[j])`
deriving Repr, DecidableEq

def Pair.step (p : Pair) : POp → Option (Pair × List Obs)
  | .on s op =>
    match ActixNet.Chan.step (p.get s) op with
    | none => none
    | some (c', o) => some (p.set s c', [o])
  | .cloneFrom si i sj j =>
    if si = sj ∧ i = j then none   -- `a.clone_from(&a)` does not borrow-check
    else
      match ActixNet.Chan.step (p.get si) (.dropSender i) with
      | none => none
      | some (c1, o1) =>
        match ActixNet.Chan.step ((p.set si c1).get sj) (.clone j) with
        | none => none
        | some (c2, o2) => some ((p.set si c1).set sj c2, [o1, o2])

/-! ### what a trace (operations zipped with their observations) says, independent of the state -/

/-- messages whose `send` / `start_send` returned `Ok`, in send order -/
def sentOk : List (Op × Obs) → List Nat
  | [] => []
  | (.send _ _ x, .sent true _) :: t => x :: sentOk t
  | _ :: t => sentOk t

/-- messages handed out by `poll_next` / `recv()`, in order -/
def received : List (Op × Obs) → List Nat
  | [] => []
  | (_, .polled (.ready (some x))) :: t => x :: received t
  | _ :: t => received t

/-- the operation closes the channel (`close`) or drops the receiver -/
def Op.closes : Op → Bool
  | .close _ => true
  | .dropReceiver => true
  | _ => false

def Op.isClose : Op → Bool
  | .close _ => true
  | _ => false

end Chan
end ActixNet
