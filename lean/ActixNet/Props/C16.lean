import ActixNet.Lemmas.Chan
/-!
# C16 — local-channel: FIFO, exactly once, clean closure, no lost wake-up

Property theorems only, over `Model/Chan.lean`, for **every** history of applicable operations
`send p i x | clone i | dropSender i | close i | poll p w | senderFromReceiver | dropReceiver | quiet k`
from `channel()` (`run init ops = some (c, os)`: state `c` after `ops`, observations `os`; `Reach c`:
some history leads to `c`), any number of senders, any message values.  `send p` is `Sender::send` or
`Sink::start_send`; `poll p` is `Stream::poll_next` or one poll of a `recv()` future; `quiet k` are the
remaining public entry points (`Sink::poll_ready/poll_flush/poll_close`, dropping a pending `recv()`
future, `Debug`).  Every theorem quantifies over the entry points as well: **all receive paths and
all send paths obey the same statements, in any mixture**.

The model follows local-channel/src/mpsc.rs line by line except for `close`, which it models as the
property demands (wakes the parked receiver; a closed channel drains and ends).  On the original
tree `parked_woken_by_close` and `closed_drains_then_none` were false of the implementation
(DESIGN.md §7 F5; replays in `corpus/C16/f5-*.ops`); `fixes/C16-close-wakes.patch` (applied to /repo)
makes the code behave as modelled, and the differential run checks that on every run.
-/
namespace ActixNet.C16
open ActixNet ActixNet.Chan

/-- **FIFO, exactly once.**  At any point of any history the messages handed out by `poll_next`
are, in order, a prefix of the messages whose `send` returned `Ok`; and while the receiver is alive
the rest is exactly the buffer — nothing is lost, duplicated or reordered. -/
theorem fifo_exactly_once (ops : List Op) (c : Chan) (os : List Obs) (hr : run init ops = some (c, os)) :
    ∃ rest, sentOk (ops.zip os) = received (ops.zip os) ++ rest ∧ (c.recvAlive = true → rest = c.buffer) := by
  simpa [init] using fifo_gen ops init c os hr

example : (run init [.send .send 0 7, .clone 0, .send .sink 1 8, .poll .pollNext 0, .send .send 0 9, .poll .recv 0,
      .poll .pollNext 1, .poll .recv 1]).map (·.2) =
    some [.sent true none, .sender 1, .sent true none, .polled (.ready (some 7)), .sent true none,
      .polled (.ready (some 8)), .polled (.ready (some 9)), .polled .pending] := by decide

/-- **`send` fails exactly when the receiver has been dropped or the channel closed** (by any
sender, at any earlier point of the history). -/
theorem send_fails_iff (ops : List Op) (c c' : Chan) (os : List Obs) (p : SendPath) (i x : Nat) (ok : Bool)
    (wk : Option WakerId) (hr : run init ops = some (c, os))
    (hs : step c (.send p i x) = some (c', .sent ok wk)) :
    ok = false ↔ (Op.dropReceiver ∈ ops ∨ ∃ j, Op.close j ∈ ops) := by
  have hf := (run_flags ops init c os hr).1
  have hcl : ops.any Op.closes = true ↔ (Op.dropReceiver ∈ ops ∨ ∃ j, Op.close j ∈ ops) := by
    rw [List.any_eq_true]
    constructor
    · rintro ⟨op, hm, ho⟩
      cases op <;> simp [Op.closes] at ho
      · exact Or.inr ⟨_, hm⟩
      · exact Or.inl hm
    · rintro (h | ⟨j, h⟩)
      · exact ⟨_, h, rfl⟩
      · exact ⟨_, h, rfl⟩
  rw [← hcl]
  simp only [step] at hs
  split at hs
  · split at hs
    · rename_i hrx
      simp only [Option.some.injEq, Prod.mk.injEq, Obs.sent.injEq] at hs
      obtain ⟨_, hok, _⟩ := hs; subst hok
      have hany : ops.any Op.closes = false := by
        rw [hf] at hrx; simpa [init] using hrx
      rw [hany]; simp
    · rename_i hrx
      simp only [Option.some.injEq, Prod.mk.injEq, Obs.sent.injEq] at hs
      obtain ⟨_, hok, _⟩ := hs; subst hok
      have hany : ops.any Op.closes = true := by
        rw [hf] at hrx; simpa [init] using hrx
      rw [hany]; simp
  · simp at hs

example : (run init [.clone 0, .close 1, .send .send 0 1, .send .sink 0 1]).map (·.2) =
    some [.sender 1, .closed none, .sent false none, .sent false none] := by decide
example : (run init [.dropReceiver, .send .send 0 1]).map (·.2) = some [.receiverDropped, .sent false none] := by decide

/-- A `poll_next` / polled `recv()` that returns `Pending` leaves the caller's waker registered … -/
theorem pending_parks (c c' : Chan) (p : RecvPath) (w : WakerId) (hs : step c (.poll p w) = some (c', .polled .pending)) :
    c'.parked = some w := by
  simp only [step] at hs
  split at hs
  · split at hs
    · simp at hs
    · split at hs
      · simp at hs
      · simp only [Option.some.injEq, Prod.mk.injEq] at hs; obtain ⟨hs, _⟩ := hs; subst hs
        simp [Chan.parked, LocalWaker.register]
  · simp at hs

/-- … **no wake-up is lost**: as long as the parked waker has not been woken it stays registered —
a step either keeps it, or reports it woken, or replaces it by the waker of a newer `poll_next`
(or newer poll of a `recv()` future) that returned `Pending`, or drops the receiver; in particular
dropping a pending `recv()` future keeps the registration — … -/
theorem unwoken_stays_parked (c c' : Chan) (op : Op) (o : Obs) (w : WakerId) (hp : c.parked = some w)
    (hs : step c op = some (c', o)) :
    c'.parked = some w ∨ o.woke = some w ∨ (∃ p w', op = .poll p w' ∧ o = .polled .pending ∧ c'.parked = some w') ∨
      op = .dropReceiver := by
  simp only [Chan.parked] at hp ⊢
  cases op with
  | send p i x =>
    simp only [step] at hs; split at hs
    · split at hs <;>
      · simp only [Option.some.injEq, Prod.mk.injEq] at hs; obtain ⟨h1, h2⟩ := hs; subst h1; subst h2
        simp [Obs.woke, LocalWaker.wake, LocalWaker.take, hp]
    · simp at hs
  | clone i =>
    simp only [step] at hs; split at hs
    · simp only [Option.some.injEq, Prod.mk.injEq] at hs; obtain ⟨h1, h2⟩ := hs; subst h1; subst h2
      exact Or.inl hp
    · simp at hs
  | dropSender i =>
    simp only [step] at hs; split at hs
    · split at hs <;>
      · simp only [Option.some.injEq, Prod.mk.injEq] at hs; obtain ⟨h1, h2⟩ := hs; subst h1; subst h2
        simp [Obs.woke, LocalWaker.wake, LocalWaker.take, hp]
    · simp at hs
  | close i =>
    simp only [step] at hs; split at hs
    · simp only [Option.some.injEq, Prod.mk.injEq] at hs; obtain ⟨h1, h2⟩ := hs; subst h1; subst h2
      simp [Obs.woke, LocalWaker.wake, LocalWaker.take, hp]
    · simp at hs
  | poll p w' =>
    simp only [step] at hs; split at hs
    · split at hs
      · simp only [Option.some.injEq, Prod.mk.injEq] at hs; obtain ⟨h1, h2⟩ := hs; subst h1; subst h2
        exact Or.inl hp
      · split at hs
        · simp only [Option.some.injEq, Prod.mk.injEq] at hs; obtain ⟨h1, h2⟩ := hs; subst h1; subst h2
          exact Or.inl hp
        · simp only [Option.some.injEq, Prod.mk.injEq] at hs; obtain ⟨h1, h2⟩ := hs; subst h1; subst h2
          exact Or.inr (Or.inr (Or.inl ⟨p, w', rfl, rfl, by simp [LocalWaker.register]⟩))
    · simp at hs
  | senderFromReceiver =>
    simp only [step] at hs; split at hs
    · simp only [Option.some.injEq, Prod.mk.injEq] at hs; obtain ⟨h1, h2⟩ := hs; subst h1; subst h2
      exact Or.inl hp
    · simp at hs
  | dropReceiver => exact Or.inr (Or.inr (Or.inr rfl))
  | quiet k => rw [(quiet_step c c' k o hs).1]; exact Or.inl hp

/-- … and **a parked receiver is missing nothing**: in every reachable state in which the
receiver's waker is still registered, the channel is open, has a sender, and the buffer is empty
(so `poll_next` / `recv()` would return `Pending` again). -/
theorem parked_has_nothing_to_do (c : Chan) (w : WakerId) (hr : Reach c) (hp : c.parked = some w)
    (ha : c.recvAlive = true) : c.hasReceiver = true ∧ c.senders ≠ [] ∧ c.buffer = [] :=
  (good_reach hr).2 w hp ha

/-- A parked receiver is woken by the next `send` / `start_send` (which succeeds) -/
theorem parked_woken_by_send (c c' : Chan) (w : WakerId) (p : SendPath) (i x : Nat) (o : Obs) (hr : Reach c)
    (hp : c.parked = some w) (ha : c.recvAlive = true) (hs : step c (.send p i x) = some (c', o)) :
    o = .sent true (some w) ∧ c'.parked = none := by
  have hopen := (parked_has_nothing_to_do c w hr hp ha).1
  simp only [Chan.parked] at hp
  simp only [step, hopen, if_true] at hs
  split at hs
  · simp only [Option.some.injEq, Prod.mk.injEq] at hs; obtain ⟨h1, h2⟩ := hs; subst h1; subst h2
    simp [LocalWaker.wake, LocalWaker.take, hp, Chan.parked]
  · simp at hs

example : (run init [.poll .pollNext 2, .send .send 0 5]).map (·.2) = some [.polled .pending, .sent true (some 2)] := by decide
example : (run init [.poll .recv 2, .quiet .recvDrop, .poll .recv 3, .send .sink 0 5, .poll .recv 3]).map (·.2) =
    some [.polled .pending, .futDropped, .polled .pending, .sent true (some 3), .polled (.ready (some 5))] := by decide

/-- A parked receiver is woken by the drop of the last sender -/
theorem parked_woken_by_last_sender_drop (c c' : Chan) (w : WakerId) (i : Nat) (o : Obs) (hr : Reach c)
    (hp : c.parked = some w) (ha : c.recvAlive = true) (hlast : c.senders.length = 1)
    (hs : step c (.dropSender i) = some (c', o)) :
    o = .senderDropped (some w) ∧ c'.parked = none := by
  have hopen := (parked_has_nothing_to_do c w hr hp ha).1
  simp only [Chan.parked] at hp
  have h2 : (c.hasReceiver && c.strong == 2) = true := by simp [hopen, Chan.strong, ha, hlast]
  simp only [step, h2, if_true] at hs
  split at hs
  · simp only [Option.some.injEq, Prod.mk.injEq] at hs; obtain ⟨h1, h2⟩ := hs; subst h1; subst h2
    simp [LocalWaker.wake, LocalWaker.take, hp, Chan.parked]
  · simp at hs

example : (run init [.clone 0, .poll .recv 1, .dropSender 0, .dropSender 1, .poll .recv 1]).map (·.2) =
    some [.sender 1, .polled .pending, .senderDropped none, .senderDropped (some 1), .polled (.ready none)] := by decide

/-- A parked receiver is woken by `close` (through any sender).
**Was false of the original tree** (F5): `Sender::close` only cleared `has_receiver`. -/
theorem parked_woken_by_close (c c' : Chan) (w : WakerId) (i : Nat) (o : Obs)
    (hp : c.parked = some w) (hs : step c (.close i) = some (c', o)) :
    o = .closed (some w) ∧ c'.parked = none := by
  simp only [Chan.parked] at hp
  simp only [step] at hs
  split at hs
  · simp only [Option.some.injEq, Prod.mk.injEq] at hs; obtain ⟨h1, h2⟩ := hs; subst h1; subst h2
    simp [LocalWaker.wake, LocalWaker.take, hp, Chan.parked]
  · simp at hs

example : (run init [.poll .pollNext 3, .close 0, .poll .pollNext 3]).map (·.2) =
    some [.polled .pending, .closed (some 3), .polled (.ready none)] := by decide
example : (run init [.poll .recv 3, .close 0, .poll .recv 3]).map (·.2) =
    some [.polled .pending, .closed (some 3), .polled (.ready none)] := by decide

/-- Once the channel has been closed (by any sender, earlier in the history) or has no sender left,
`poll_next` / `recv()` never parks: it hands out the head of the buffer, and `None` once the buffer is
empty (so a message buffered before `close` is never dropped on either receive path).
**Was false of the original tree** (F5) in the closed-with-a-live-sender case. -/
theorem closed_drains_then_none (ops : List Op) (c : Chan) (os : List Obs) (p : RecvPath) (w : WakerId)
    (hr : run init ops = some (c, os)) (ha : c.recvAlive = true)
    (h : (∃ j, Op.close j ∈ ops) ∨ c.senders = []) :
    step c (.poll p w) = some ({ c with buffer := c.buffer.tail }, .polled (.ready c.buffer.head?)) ∧
    (c.buffer = [] → (step c (.poll p w)).map (·.2) = some (.polled (.ready none))) := by
  have hcl : c.hasReceiver = false ∨ c.senders = [] := by
    rcases h with ⟨j, hj⟩ | h
    · left
      rw [(run_flags ops init c os hr).1]
      have : ops.any Op.closes = true := List.any_eq_true.mpr ⟨_, hj, rfl⟩
      simp [this]
    · exact Or.inr h
  have hp := poll_closed c p w ha hcl
  exact ⟨hp, fun hb => by rw [hp]; simp [hb]⟩

/-- … so asking such a channel `buffer.length + 1` times — through **any mixture** of `poll_next` and
`recv()`, with any wakers (`polls ps`) — yields exactly the buffered messages, in order, and then
`None`. -/
theorem closed_drains_fully (ops : List Op) (c : Chan) (os : List Obs) (ps : List (RecvPath × WakerId))
    (hr : run init ops = some (c, os)) (ha : c.recvAlive = true)
    (h : (∃ j, Op.close j ∈ ops) ∨ c.senders = []) (hl : ps.length = c.buffer.length + 1) :
    (run c (polls ps)).map (·.2) =
      some (c.buffer.map (fun x => Obs.polled (.ready (some x))) ++ [Obs.polled (.ready none)]) := by
  have hcl : c.hasReceiver = false ∨ c.senders = [] := by
    rcases h with ⟨j, hj⟩ | h
    · left
      rw [(run_flags ops init c os hr).1]
      have : ops.any Op.closes = true := List.any_eq_true.mpr ⟨_, hj, rfl⟩
      simp [this]
    · exact Or.inr h
  exact drain_gen c.buffer ps c rfl hl ha hcl

example : (run init [.send .send 0 1, .send .send 0 2, .clone 0, .close 1, .poll .pollNext 0, .poll .pollNext 0,
      .poll .pollNext 0, .poll .pollNext 0]).map (·.2) =
    some [.sent true none, .sent true none, .sender 1, .closed none, .polled (.ready (some 1)),
      .polled (.ready (some 2)), .polled (.ready none), .polled (.ready none)] := by decide
example : (run init [.send .send 0 1, .send .sink 0 2, .close 0, .poll .recv 0, .poll .pollNext 1, .poll .recv 2]).map (·.2) =
    some [.sent true none, .sent true none, .closed none, .polled (.ready (some 1)),
      .polled (.ready (some 2)), .polled (.ready none)] := by decide
example : (run init [.send .send 0 1, .dropSender 0, .poll .recv 0, .poll .recv 0]).map (·.2) =
    some [.sent true none, .senderDropped none, .polled (.ready (some 1)), .polled (.ready none)] := by decide
example : polls [(.recv, 0), (.pollNext, 1)] = [.poll .recv 0, .poll .pollNext 1] := by decide

/-- **All receive paths agree**: what the receiver is handed, and the state it leaves behind, do not
depend on whether it was asked through `poll_next` or through a `recv()` future (pending or fresh). -/
theorem receive_paths_agree (c : Chan) (p q : RecvPath) (w : WakerId) : step c (.poll p w) = step c (.poll q w) := by
  simp only [step]

/-- **All send paths agree**: `Sink::start_send` is `Sender::send`. -/
theorem send_paths_agree (c : Chan) (p q : SendPath) (i x : Nat) : step c (.send p i x) = step c (.send q i x) := by
  simp only [step]

example : step init (.poll .recv 1) = some ({ init with blocked := { waker := some 1 } }, .polled .pending) := by decide

/-- The remaining public entry points — `Sink::poll_ready / poll_flush / poll_close`, dropping a
pending `recv()` future, `Debug` — change nothing and wake nobody, and `Debug` shows the buffer and
the open flag as they are.  (`Sink::poll_close` does **not** close the channel: the code that exists.) -/
theorem quiet_ops_change_nothing (c c' : Chan) (k : Quiet) (o : Obs) (hs : step c (.quiet k) = some (c', o)) :
    c' = c ∧ o.woke = none ∧
    ((k = .debugReceiver ∨ ∃ i, k = .debugSender i) → o = .debug c.buffer c.hasReceiver) ∧
    ((∃ i, k = .sinkReady i ∨ k = .sinkFlush i ∨ k = .sinkClose i) → o = .readyOk) := by
  obtain ⟨h1, h2, h3⟩ := quiet_step c c' k o hs
  refine ⟨h1, h3, ?_, ?_⟩
  · rintro (h | ⟨i, h⟩) <;> subst h <;> simpa [Quiet.obs] using h2
  · rintro ⟨i, h | h | h⟩ <;> subst h <;> simpa [Quiet.obs] using h2

example : (run init [.send .send 0 4, .quiet (.sinkClose 0), .quiet (.sinkReady 0), .quiet .debugReceiver, .send .sink 0 5,
      .quiet (.debugSender 0), .close 0, .quiet .debugReceiver]).map (·.2) =
    some [.sent true none, .readyOk, .readyOk, .debug [4] true, .sent true none, .debug [4, 5] true, .closed none,
      .debug [4, 5] false] := by decide

/-- **A receiver parked on a channel whose last sender is overwritten by `clone_from` is woken** (the
old value of the handle is dropped), whichever channel the source belongs to, and the overwritten
channel's stream then ends. -/
theorem parked_woken_by_clone_from (p p' : Pair) (si sj : Side) (i j : Nat) (w : WakerId) (os : List Obs)
    (hr : Reach (p.get si)) (hp : (p.get si).parked = some w) (ha : (p.get si).recvAlive = true)
    (hlast : (p.get si).senders.length = 1)
    (hs : Pair.step p (.cloneFrom si i sj j) = some (p', os)) :
    si ≠ sj ∧ os.head? = some (.senderDropped (some w)) ∧ (p'.get si).parked = none ∧ (p'.get si).senders = [] := by
  simp only [Pair.step] at hs
  split at hs
  · simp at hs
  · rename_i hne
    split at hs
    · simp at hs
    · rename_i c1 o1 hd
      split at hs
      · simp at hs
      · rename_i c2 o2 hc
        simp only [Option.some.injEq, Prod.mk.injEq] at hs; obtain ⟨hp', ho⟩ := hs; subst hp'; subst ho
        obtain ⟨ho1, hpk⟩ := parked_woken_by_last_sender_drop (p.get si) c1 w i o1 hr hp ha hlast hd
        obtain ⟨hi, herase⟩ := dropSender_senders hd
        have hc1 : c1.senders = [] := by
          rw [herase]
          match hsl : (p.get si).senders, hlast with
          | [x], _ => rw [hsl] at hi; simp at hi; subst hi; simp
        have hsij : si ≠ sj := by
          intro heq; subst heq
          rw [get_set_same] at hc
          simp only [step] at hc; split at hc
          · rename_i hj; rw [hc1] at hj; simp at hj
          · simp at hc
        refine ⟨hsij, by simp [ho1], ?_, ?_⟩
        · rw [get_set_other _ _ _ _ hsij, get_set_same]; exact hpk
        · rw [get_set_other _ _ _ _ hsij, get_set_same]; exact hc1

example : (Pair.step {} (.on .a (.poll .pollNext 2))).bind (fun q => Pair.step q.1 (.cloneFrom .a 0 .b 0)) =
    some ({ a := { init with senders := [] }, b := { init with senders := [1, 0], nextSender := 2 } },
      [.senderDropped (some 2), .sender 1]) := by decide
/-- within one channel the overwritten handle is never the last sender: nobody is woken -/
example : ((Pair.step {} (.on .a (.clone 0))).bind (fun q => Pair.step q.1 (.on .a (.poll .recv 1)))).bind
      (fun q => Pair.step q.1 (.cloneFrom .a 0 .a 1)) =
    some ({ a := { init with senders := [2, 1], nextSender := 3, blocked := { waker := some 1 } } },
      [.senderDropped none, .sender 2]) := by decide
example : Pair.step {} (.cloneFrom .a 0 .a 0) = none := by decide

/-- In a pair of channels (with `clone_from` moving sender handles between them) each channel only ever
makes steps of the one-channel model: it stays reachable from `channel()`, so **every theorem above
holds of each of the two channels**, whatever is done with the other one. -/
theorem pair_channels_stay_reachable (p p' : Pair) (op : POp) (os : List Obs)
    (hs : Pair.step p op = some (p', os)) (h : ∀ s, Reach (p.get s)) : ∀ s, Reach (p'.get s) :=
  pair_step_reach p p' op os hs h

example : ∀ s, Reach ((({} : Pair)).get s) := by
  intro s; cases s <;> exact ⟨[], [], rfl⟩

end ActixNet.C16
