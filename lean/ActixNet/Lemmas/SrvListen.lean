import ActixNet.Lemmas.SrvSound
/-!
# Listener registration invariant of the accept loop (every history, no assumptions)

`LInv s`: a listener that has a back-off deadline is out of the poll set, and while the server is
paused **no** listener is in the poll set.  Preserved by every operation (`run_linv`).  The second
clause is the one that did not prove on the unchanged tree (defect F7, fixed in /repo).
-/
namespace ActixNet.Srv
open ActixNet

/-- what the listener-registration invariant talks about -/
structure LView where
  reg : Nat → Bool
  dl : Nat → Option Nat
  paused : Bool
  nLst : Nat

def lview (s : St) : LView := ⟨fun l => (s.lst l).registered, fun l => (s.lst l).deadline, s.paused, s.nLst⟩

/-- a listener that has a back-off deadline is not in the poll set; while paused no listener is -/
structure LInvV (v : LView) : Prop where
  dd : ∀ l d, v.dl l = some d → v.reg l = false
  pd : v.paused = true → ∀ l, l < v.nLst → v.reg l = false

def LInv (s : St) : Prop := LInvV (lview s)

theorem linv_of_eq {s s'} (h : lview s' = lview s) (g : LInv s) : LInv s' := by unfold LInv at *; rw [h]; exact g

macro "lview_same" l:term : tactic => `(tactic|
  (simp only [lview]
   congr 1 <;> (funext v; by_cases hv : v = $l <;> simp [upd, hv])))

theorem envStep_lview (cfg : Cfg) (s : St) (a : EnvAct) : lview (envStep cfg s a).1 = lview s := by
  cases a with
  | connect l =>
    simp only [envStep]; split
    · split
      · rfl
      · lview_same l
    · rfl
  | inject l e =>
    simp only [envStep]; split
    · lview_same l
    · rfl
  | cmd i => cases i <;> rfl
  | _ => simp only [envStep] <;> (repeat' split) <;> rfl

theorem runEnv_lview (cfg : Cfg) : ∀ (as : List EnvAct) (s : St), lview (runEnv cfg s as) = lview s := by
  intro as; induction as with
  | nil => intro s; rfl
  | cons a as ih => intro s; simp only [runEnv]; rw [ih]; exact envStep_lview cfg s a

theorem yieldPt_lview (cfg : Cfg) (s : St) : lview (yieldPt cfg s) = lview s := by
  unfold yieldPt; split
  · rfl
  · rw [runEnv_lview]; rfl

theorem setAvail_lview (s : St) (i : Nat) (v : Bool) : lview (setAvail s i v) = lview s := by
  unfold setAvail; split <;> rfl
theorem setNext_lview (s : St) : lview (setNext s) = lview s := by unfold setNext; split <;> rfl
theorem incPrim_lview (cfg : Cfg) (s : St) (w i : Nat) : lview (incPrim cfg s w i) = lview s := by
  unfold incPrim; simp only; split
  · rfl
  · rw [setAvail_lview]; rfl
theorem sendFail_lview (s : St) (w : Nat) (c : Conn) : lview (sendFail s w c).1 = lview s := by
  have h : lview (removeNext s w) = lview s := by unfold removeNext; simp only; rw [setAvail_lview]; rfl
  unfold sendFail; simp only
  split
  · exact h
  · split <;> exact h

theorem sendConnection_lview (cfg : Cfg) (s : St) (c : Conn) : lview (sendConnection cfg s c).1 = lview s := by
  unfold sendConnection
  split
  · rfl
  · split
    · rfl
    · split
      · rw [setNext_lview, incPrim_lview, yieldPt_lview]; rfl
      · exact sendFail_lview s _ c

theorem forcedSend_lview (cfg : Cfg) : ∀ (fuel : Nat) (s : St) (c : Conn), lview (forcedSend cfg fuel s c) = lview s := by
  intro fuel; induction fuel with
  | zero => intro s c; rfl
  | succ f ih =>
    intro s c
    simp only [forcedSend]
    have h1 := sendConnection_lview cfg s c
    generalize sendConnection cfg s c = r at h1
    obtain ⟨s1, b⟩ := r
    cases b with
    | true => exact h1
    | false => simp only [Bool.false_eq_true, ↓reduceIte]; rw [ih]; exact h1

theorem acceptOne_lview (cfg : Cfg) : ∀ (fuel : Nat) (s : St) (c : Conn), lview (acceptOne cfg fuel s c) = lview s := by
  intro fuel; induction fuel with
  | zero => intro s c; rfl
  | succ f ih =>
    intro s c
    simp only [acceptOne]
    split
    · rfl
    · split
      · rfl
      · split
        · have h1 := sendConnection_lview cfg s c
          generalize sendConnection cfg s c = r at h1
          obtain ⟨s1, b⟩ := r
          cases b with
          | true => exact h1
          | false => simp only [Bool.false_eq_true, ↓reduceIte]; rw [ih]; exact h1
        · rename_i w _ _
          have h1 : lview (setNext (setAvail s (s.wk w).idx false)) = lview s := by
            rw [setNext_lview, setAvail_lview]
          split
          · rw [forcedSend_lview]; exact h1
          · rw [ih]; exact h1


theorem acceptSys_lview (s : St) (l : Nat) : lview (acceptSys s l).1 = lview s := by
  simp only [acceptSys]
  split
  · split
    · split
      · lview_same l
      · split <;> lview_same l
    · lview_same l
  · split
    · rfl
    · lview_same l

theorem wakePrim_lview (s : St) (i : Nat) : lview (wakePrim s i) = lview s := by
  unfold wakePrim; split
  · exact setAvail_lview s i true
  · rfl
theorem addWorker_lview (s : St) (w : Nat) : lview (addWorker s w) = lview s := by
  unfold addWorker; simp only
  have := setAvail_lview s (s.wk w).idx true
  simp only [lview] at this ⊢
  exact this

/-- the back-off arm of `accept`: the listener leaves the poll set and gets a deadline -/
theorem backoff_linv (s : St) (l : Nat) (d t : Nat) (h : LInv s) :
    LInv (setTimeout { (deregister s l) with lst := upd (deregister s l).lst l { (deregister s l).lst l with deadline := some d } } t) := by
  have hv : lview (setTimeout { (deregister s l) with lst := upd (deregister s l).lst l { (deregister s l).lst l with deadline := some d } } t) =
      ⟨upd (lview s).reg l false, upd (lview s).dl l (some d), (lview s).paused, (lview s).nLst⟩ := by
    have : ∀ (x : St) (t : Nat), lview (setTimeout x t) = lview x := by
      intro x t; unfold setTimeout; split
      · split <;> rfl
      · rfl
    rw [this]
    simp only [lview, deregister]
    congr 1 <;> (funext v; by_cases hv : v = l <;> simp [upd, hv])
  unfold LInv; rw [hv]
  refine ⟨?_, ?_⟩
  · intro l' d' hd
    by_cases hl : l' = l
    · subst hl; simp [upd]
    · simp only [upd, hl, ↓reduceIte] at hd ⊢; exact h.dd l' d' hd
  · intro hp l' hl'
    by_cases hl : l' = l
    · subst hl; simp [upd]
    · simp only [upd, hl, ↓reduceIte]; exact h.pd hp l' hl'

theorem accept_linv (cfg : Cfg) : ∀ (fuel : Nat) (s : St) (l : Nat), LInv s → LInv (accept cfg fuel s l) := by
  intro fuel; induction fuel with
  | zero => intro s l h; exact linv_of_eq rfl h
  | succ f ih =>
    intro s l h
    simp only [accept]
    split
    · exact h
    · split
      · exact h
      · have h0 : LInv (yieldPt cfg s) := linv_of_eq (yieldPt_lview cfg s) h
        have h1 : LInv (acceptSys (yieldPt cfg s) l).1 := linv_of_eq (acceptSys_lview _ l) h0
        generalize acceptSys (yieldPt cfg s) l = r at h1
        obtain ⟨s1, res⟩ := r
        cases res with
        | conn c => exact ih _ l (linv_of_eq (acceptOne_lview cfg _ s1 c) h1)
        | wouldBlock => exact h1
        | connErr => exact ih _ l h1
        | otherErr => exact backoff_linv s1 l _ _ h1

theorem acceptAllFrom_linv (cfg : Cfg) : ∀ (ls : List Nat) (s : St), LInv s → LInv (acceptAllFrom cfg s ls) := by
  intro ls; induction ls with
  | nil => intro s h; exact h
  | cons l ls ih => intro s h; simp only [acceptAllFrom]; exact ih _ (accept_linv cfg _ s l h)

theorem acceptAll_linv (cfg : Cfg) {s : St} (h : LInv s) : LInv (acceptAll cfg s) := acceptAllFrom_linv cfg _ s h

/-- `deregister_all` on the view: every listed listener ends deregistered and without deadline,
provided a listener with a deadline was already deregistered -/
theorem deregisterAllFrom_lview : ∀ (ls : List Nat) (s : St), (∀ l d, (s.lst l).deadline = some d → (s.lst l).registered = false) →
    (∀ l, l ∈ ls → ((deregisterAllFrom s ls).lst l).registered = false ∧ ((deregisterAllFrom s ls).lst l).deadline = none) ∧
    (∀ l, l ∉ ls → ((deregisterAllFrom s ls).lst l).registered = (s.lst l).registered ∧
                   ((deregisterAllFrom s ls).lst l).deadline = (s.lst l).deadline) ∧
    (deregisterAllFrom s ls).paused = s.paused ∧ (deregisterAllFrom s ls).nLst = s.nLst := by
  intro ls; induction ls with
  | nil => intro s _; exact ⟨fun l h => (by cases h), fun l _ => ⟨rfl, rfl⟩, rfl, rfl⟩
  | cons a as ih =>
    intro s hdd
    simp only [deregisterAllFrom]
    -- the state after treating `a`
    have key : ∀ (t : St), t = (if (s.lst a).deadline.isNone = true
          then deregister { s with lst := upd s.lst a { s.lst a with deadline := none } } a
          else { s with lst := upd s.lst a { s.lst a with deadline := none } }) →
        (t.lst a).registered = false ∧ (t.lst a).deadline = none ∧
        (∀ l, l ≠ a → t.lst l = s.lst l) ∧ t.paused = s.paused ∧ t.nLst = s.nLst := by
      intro t ht
      subst ht
      split
      · refine ⟨by simp [deregister, upd], by simp [deregister, upd], ?_, rfl, rfl⟩
        intro l hl; simp [deregister, upd, hl]
      · rename_i hn
        have : ∃ d, (s.lst a).deadline = some d := by
          cases hd : (s.lst a).deadline with
          | none => simp [hd] at hn
          | some d => exact ⟨d, rfl⟩
        obtain ⟨d, hd⟩ := this
        refine ⟨by simpa [upd] using hdd a d hd, by simp [upd], ?_, rfl, rfl⟩
        intro l hl; simp [upd, hl]
    obtain ⟨k1, k2, k3, k4, k5⟩ := key _ rfl
    generalize (if (s.lst a).deadline.isNone = true
          then deregister { s with lst := upd s.lst a { s.lst a with deadline := none } } a
          else { s with lst := upd s.lst a { s.lst a with deadline := none } }) = t at k1 k2 k3 k4 k5 ⊢
    have hdd' : ∀ l d, (t.lst l).deadline = some d → (t.lst l).registered = false := by
      intro l d hd
      by_cases hl : l = a
      · subst hl; rw [k2] at hd; cases hd
      · rw [k3 l hl] at hd ⊢; exact hdd l d hd
    obtain ⟨i1, i2, i3, i4⟩ := ih t hdd'
    refine ⟨?_, ?_, by rw [i3, k4], by rw [i4, k5]⟩
    · intro l hl
      by_cases hm : l ∈ as
      · exact i1 l hm
      · have hla : l = a := by rcases List.mem_cons.mp hl with h | h; exact h; exact absurd h hm
        subst hla
        obtain ⟨j1, j2⟩ := i2 l hm
        exact ⟨by rw [j1, k1], by rw [j2, k2]⟩
    · intro l hl
      have hla : l ≠ a := fun h => hl (h ▸ List.mem_cons_self)
      have hm : l ∉ as := fun h => hl (List.mem_cons_of_mem _ h)
      obtain ⟨j1, j2⟩ := i2 l hm
      rw [j1, j2, k3 l hla]; exact ⟨rfl, rfl⟩


theorem registerAllFrom_lview : ∀ (ls : List Nat) (s : St),
    (∀ l, l ∈ ls → ((registerAllFrom s ls).lst l).deadline = none) ∧
    (∀ l, l ∉ ls → ((registerAllFrom s ls).lst l).registered = (s.lst l).registered ∧
                   ((registerAllFrom s ls).lst l).deadline = (s.lst l).deadline) ∧
    (registerAllFrom s ls).paused = s.paused ∧ (registerAllFrom s ls).nLst = s.nLst := by
  intro ls; induction ls with
  | nil => intro s; exact ⟨fun l h => (by cases h), fun l _ => ⟨rfl, rfl⟩, rfl, rfl⟩
  | cons a as ih =>
    intro s
    simp only [registerAllFrom]
    have key : ∀ (t : St), t = register { s with lst := upd s.lst a { s.lst a with deadline := none } } a →
        (t.lst a).deadline = none ∧ (∀ l, l ≠ a → t.lst l = s.lst l) ∧ t.paused = s.paused ∧ t.nLst = s.nLst := by
      intro t ht; subst ht
      simp only [register]; split
      · exact ⟨by simp [upd], fun l hl => by simp [upd, hl], rfl, rfl⟩
      · exact ⟨by simp [upd], fun l hl => by simp [upd, hl], rfl, rfl⟩
    obtain ⟨k1, k2, k3, k4⟩ := key _ rfl
    generalize register { s with lst := upd s.lst a { s.lst a with deadline := none } } a = t at k1 k2 k3 k4 ⊢
    obtain ⟨i1, i2, i3, i4⟩ := ih t
    refine ⟨?_, ?_, by rw [i3, k3], by rw [i4, k4]⟩
    · intro l hl
      by_cases hm : l ∈ as
      · exact i1 l hm
      · have hla : l = a := by rcases List.mem_cons.mp hl with h | h; exact h; exact absurd h hm
        subst hla
        rw [(i2 l hm).2, k1]
    · intro l hl
      have hla : l ≠ a := fun h => hl (h ▸ List.mem_cons_self)
      have hm : l ∉ as := fun h => hl (List.mem_cons_of_mem _ h)
      obtain ⟨j1, j2⟩ := i2 l hm
      rw [j1, j2, k2 l hla]; exact ⟨rfl, rfl⟩

theorem pause_linv (s : St) (h : LInv s) : LInv (deregisterAll { s with paused := true }) := by
  have hdd : ∀ l d, (({ s with paused := true } : St).lst l).deadline = some d → (({ s with paused := true } : St).lst l).registered = false :=
    fun l d hd => h.dd l d hd
  obtain ⟨i1, i2, i3, i4⟩ := deregisterAllFrom_lview (List.range s.nLst) { s with paused := true } hdd
  refine ⟨?_, ?_⟩
  · intro l d hd
    simp only [lview, deregisterAll] at hd ⊢
    by_cases hl : l ∈ List.range s.nLst
    · rw [(i1 l hl).2] at hd; cases hd
    · rw [(i2 l hl).2] at hd; rw [(i2 l hl).1]; exact h.dd l d hd
  · intro _ l hl
    simp only [lview, deregisterAll] at hl ⊢
    rw [i4] at hl
    exact (i1 l (List.mem_range.mpr hl)).1

theorem stop_linv (s : St) (h : LInv s) : LInv (deregisterAll s) := by
  obtain ⟨i1, i2, i3, i4⟩ := deregisterAllFrom_lview (List.range s.nLst) s (fun l d hd => h.dd l d hd)
  refine ⟨?_, ?_⟩
  · intro l d hd
    simp only [lview, deregisterAll] at hd ⊢
    by_cases hl : l ∈ List.range s.nLst
    · rw [(i1 l hl).2] at hd; cases hd
    · rw [(i2 l hl).2] at hd; rw [(i2 l hl).1]; exact h.dd l d hd
  · intro _ l hl
    simp only [lview, deregisterAll] at hl ⊢
    rw [i4] at hl
    exact (i1 l (List.mem_range.mpr hl)).1

theorem resume_linv (s : St) (h : LInv s) : LInv (registerAllFrom { s with paused := false } (List.range s.nLst)) := by
  obtain ⟨i1, i2, i3, i4⟩ := registerAllFrom_lview (List.range s.nLst) { s with paused := false }
  refine ⟨?_, ?_⟩
  · intro l d hd
    simp only [lview] at hd ⊢
    by_cases hl : l ∈ List.range s.nLst
    · rw [i1 l hl] at hd; cases hd
    · rw [(i2 l hl).2] at hd; rw [(i2 l hl).1]; exact h.dd l d hd
  · intro hp
    simp only [lview] at hp
    rw [i3] at hp; cases hp

theorem processTimeoutFrom_linv (now : Nat) : ∀ (ls : List Nat) (s : St), LInv s → LInv (processTimeoutFrom s now ls) := by
  intro ls; induction ls with
  | nil => intro s h; exact h
  | cons l ls ih =>
    intro s h
    simp only [processTimeoutFrom]
    split
    · exact ih _ h
    · rename_i inst hdl
      apply ih
      have hreg : (s.lst l).registered = false := h.dd l inst hdl
      have setT : ∀ (x : St) (t : Nat), lview (setTimeout x t) = lview x := by
        intro x t; unfold setTimeout; split
        · split <;> rfl
        · rfl
      split
      · -- still backing off: the deadline is put back
        apply linv_of_eq (s := s) _ h
        rw [setT]
        simp only [lview]
        congr 1 <;> (funext v; by_cases hv : v = l <;> simp [upd, hv, hdl])
      · split
        · -- expired and not paused: register, deadline cleared
          rename_i hnp
          have hp : s.paused = false := by simpa using hnp
          refine ⟨?_, ?_⟩
          · intro l' d' hd
            simp only [lview, register] at hd ⊢
            split at hd <;> split
            all_goals (by_cases hl : l' = l)
            all_goals (first | (subst hl; simp [upd] at hd) | (simp only [upd, hl, ↓reduceIte] at hd ⊢; exact h.dd l' d' hd))
          · intro hpp
            simp only [lview, register] at hpp
            split at hpp <;> (simp only at hpp; rw [hp] at hpp; cases hpp)
        · -- expired while paused: the deadline is dropped, the listener stays out
          refine ⟨?_, ?_⟩
          · intro l' d' hd
            simp only [lview] at hd ⊢
            by_cases hl : l' = l
            · subst hl; simp [upd] at hd
            · simp only [upd, hl, ↓reduceIte] at hd ⊢; exact h.dd l' d' hd
          · intro hpp l' hl'
            simp only [lview] at hpp hl' ⊢
            by_cases hl : l' = l
            · subst hl; simpa [upd] using hreg
            · simp only [upd, hl, ↓reduceIte]; exact h.pd hpp l' hl'

theorem processTimeout_linv (s : St) (h : LInv s) : LInv (processTimeout s) := by
  unfold processTimeout; split
  · exact h
  · exact processTimeoutFrom_linv _ _ _ (linv_of_eq rfl h)


theorem cleanupAll_lview (s : St) : lview (cleanupAll s) = lview s := by
  simp only [lview, cleanupAll]
  congr 1 <;> (funext l; split <;> rfl)

theorem handleWaker_linv (cfg : Cfg) : ∀ (fuel : Nat) (s : St), LInv s → LInv (handleWaker cfg fuel s).1 := by
  intro fuel; induction fuel with
  | zero => intro s h; exact linv_of_eq rfl h
  | succ f ih =>
    intro s h
    simp only [handleWaker]
    split
    · exact h
    · have h0 : LInv (yieldPt cfg s) := linv_of_eq (yieldPt_lview cfg s) h
      generalize yieldPt cfg s = s0 at h0 ⊢
      cases hwq : s0.wq with
      | nil => exact h0
      | cons i q =>
        simp only
        have h1 : LInv { s0 with wq := q } := linv_of_eq (s := s0) rfl h0
        cases i with
        | workerAvail idx =>
          have h2 : LInv (wakePrim { s0 with wq := q } idx) := linv_of_eq (wakePrim_lview _ idx) h1
          simp only
          split
          · exact ih _ (acceptAll_linv cfg h2)
          · exact ih _ h2
        | worker w =>
          have h2 : LInv (addWorker { s0 with wq := q } w) := linv_of_eq (addWorker_lview _ w) h1
          simp only
          split
          · exact ih _ (acceptAll_linv cfg h2)
          · exact ih _ h2
        | pause =>
          simp only
          split
          · exact ih _ (pause_linv _ h1)
          · exact ih _ h1
        | resume =>
          simp only
          split
          · exact ih _ (acceptAll_linv cfg (resume_linv _ h1))
          · exact ih _ h1
        | stop =>
          simp only
          split
          · exact linv_of_eq (cleanupAll_lview _) (stop_linv _ h1)
          · exact linv_of_eq (cleanupAll_lview _) h1

theorem pollEvents_linv (cfg : Cfg) : ∀ (order : List Ev) (s : St), LInv s → LInv (pollEvents cfg s order).1 := by
  intro order; induction order with
  | nil => intro s h; exact h
  | cons e es ih =>
    intro s h
    simp only [pollEvents]
    cases e with
    | waker =>
      simp only
      have hw := handleWaker_linv cfg (wakerFuel s) s h
      generalize handleWaker cfg (wakerFuel s) s = r at hw
      obtain ⟨s1, ex⟩ := r
      simp only at hw ⊢
      split
      · exact hw
      · exact ih _ hw
    | listener l => exact ih _ (accept_linv cfg _ s l h)

theorem poll_linv (cfg : Cfg) {s : St} (h : LInv s) (order : List Ev) (sched : List (List EnvAct)) :
    LInv (poll cfg s order sched) := by
  unfold poll
  split
  · exact h
  · have h0 : LInv (clearEdges { s with sched := sched, yields := 0 }) := by
      apply linv_of_eq (s := s) _ h
      simp only [lview, clearEdges]
      congr 1 <;> (funext l; split <;> rfl)
    have h1 := pollEvents_linv cfg order _ h0
    generalize (pollEvents cfg (clearEdges { s with sched := sched, yields := 0 }) order) = r at h1
    unfold pollFinish
    split
    · exact linv_of_eq (s := r.1) rfl h1
    · exact linv_of_eq (s := processTimeout r.1) rfl (processTimeout_linv _ h1)

theorem step_linv (cfg : Cfg) {s : St} (h : LInv s) (op : Op) : LInv (step cfg s op) := by
  cases op with
  | env a => exact linv_of_eq (runEnv_lview cfg [a] s) h
  | poll order sched => exact poll_linv cfg h order sched
  | finishW2 w c order =>
    simp only [step]
    have h1 : LInv { (envStep cfg s (.finish w c)).1 with acts := (envStep cfg s (.finish w c)).1.acts ++ [(envStep cfg s (.finish w c)).2] } :=
      linv_of_eq (s := (envStep cfg s (.finish w c)).1) rfl (linv_of_eq (envStep_lview cfg s _) h)
    split
    · exact linv_of_eq (runEnv_lview cfg _ _) (poll_linv cfg h1 order [])
    · exact h1

theorem run_linv (cfg : Cfg) : ∀ (ops : List Op) (s : St), LInv s → LInv (run cfg s ops) := by
  intro ops; induction ops with
  | nil => intro s h; exact h
  | cons op ops ih => intro s h; simp only [run]; exact ih _ (step_linv cfg h op)

theorem init_linv (cfg : Cfg) (kinds : List Kind) : LInv (init cfg kinds) := by
  refine ⟨?_, ?_⟩
  · intro l d hd; simp [lview, init] at hd
  · intro hp; simp [lview, init] at hp


/-- no `Resume` is waiting in the waker queue or scheduled -/
def NoResume (s : St) : Prop :=
  (∀ i ∈ s.wq, i ≠ Interest.resume) ∧ (∀ ch ∈ s.sched, ∀ a ∈ ch, a ≠ EnvAct.cmd .resume)

theorem envStep_noresume (cfg : Cfg) (s : St) (a : EnvAct) (ha : a ≠ .cmd .resume) (h : ∀ i ∈ s.wq, i ≠ Interest.resume) :
    ∀ i ∈ (envStep cfg s a).1.wq, i ≠ Interest.resume := by
  have app : ∀ (j : Interest), j ≠ .resume → ∀ i ∈ s.wq ++ [j], i ≠ Interest.resume := by
    intro j hj i hi
    rcases List.mem_append.mp hi with hi | hi
    · exact h i hi
    · simp at hi; subst hi; exact hj
  cases a with
  | cmd i =>
    cases i with
    | resume => exact absurd rfl ha
    | pause => exact app _ (by intro h; cases h)
    | stop => exact app _ (by intro h; cases h)
    | workerAvail k => exact h
    | worker k => exact h
  | push w =>
    simp only [envStep]; split
    · split
      · exact app _ (by intro h; cases h)
      · exact h
    · exact h
  | finishNow w c =>
    simp only [envStep]; split
    · split
      · exact h
      · split
        · exact app _ (by intro h; cases h)
        · exact h
    · exact h
  | restart idx =>
    simp only [envStep]; split
    · exact app _ (by intro h; cases h)
    · exact h
  | connect l => simp only [envStep]; (repeat' split) <;> exact h
  | recv w => simp only [envStep]; (repeat' split) <;> exact h
  | finish w c => simp only [envStep]; (repeat' split) <;> exact h
  | die w => simp only [envStep]; (repeat' split) <;> exact h
  | advance ms => exact h
  | inject l e => simp only [envStep]; (repeat' split) <;> exact h

theorem envStep_paused (cfg : Cfg) (s : St) (a : EnvAct) : (envStep cfg s a).1.paused = s.paused := by
  cases a <;> simp only [envStep] <;> (repeat' split) <;> first | rfl | (simp [pushWq])

theorem runEnv_quiet (cfg : Cfg) : ∀ (as : List EnvAct) (s : St), (∀ a ∈ as, a ≠ EnvAct.cmd .resume) →
    (∀ i ∈ s.wq, i ≠ Interest.resume) →
    (∀ i ∈ (runEnv cfg s as).wq, i ≠ Interest.resume) ∧ (runEnv cfg s as).paused = s.paused ∧
    (runEnv cfg s as).dispatched = s.dispatched ∧ (runEnv cfg s as).sched = s.sched := by
  intro as; induction as with
  | nil => intro s _ h; exact ⟨h, rfl, rfl, rfl⟩
  | cons a as ih =>
    intro s has h
    simp only [runEnv]
    have h1 := envStep_noresume cfg s a (has a List.mem_cons_self) h
    obtain ⟨i1, i2, i3, i4⟩ := ih { (envStep cfg s a).1 with acts := (envStep cfg s a).1.acts ++ [(envStep cfg s a).2] }
      (fun b hb => has b (List.mem_cons_of_mem _ hb)) h1
    exact ⟨i1, by rw [i2]; exact envStep_paused cfg s a, by rw [i3]; exact envStep_dispatched cfg s a,
      by rw [i4]; exact envStep_sched cfg s a⟩

theorem yieldPt_quiet (cfg : Cfg) (s : St) (h : NoResume s) :
    NoResume (yieldPt cfg s) ∧ (yieldPt cfg s).paused = s.paused ∧ (yieldPt cfg s).dispatched = s.dispatched := by
  unfold yieldPt
  split
  · rename_i he
    exact ⟨⟨h.1, by intro ch hch; simp [he] at hch⟩, rfl, rfl⟩
  · rename_i ch rest he
    obtain ⟨i1, i2, i3, i4⟩ := runEnv_quiet cfg ch { s with sched := rest, yields := s.yields + 1 }
      (h.2 ch (by rw [he]; exact List.mem_cons_self)) h.1
    refine ⟨⟨i1, ?_⟩, i2, i3⟩
    intro c hc
    rw [i4] at hc
    exact h.2 c (by rw [he]; exact List.mem_cons_of_mem _ hc)

/-- **while paused and with no `Resume` pending, processing the waker queue dispatches nothing** and
leaves the server paused — whatever else is queued (worker wake-ups, replacement handles, repeated
pauses, stop) and whatever the other threads do meanwhile -/
theorem handleWaker_paused (cfg : Cfg) : ∀ (fuel : Nat) (s : St), s.paused = true → NoResume s →
    (handleWaker cfg fuel s).1.dispatched = s.dispatched ∧ (handleWaker cfg fuel s).1.paused = true := by
  intro fuel; induction fuel with
  | zero => intro s hp _; exact ⟨rfl, hp⟩
  | succ f ih =>
    intro s hp hn
    simp only [handleWaker]
    split
    · exact ⟨rfl, hp⟩
    · obtain ⟨hn0, hp0, hd0⟩ := yieldPt_quiet cfg s hn
      rw [hp] at hp0
      generalize yieldPt cfg s = s0 at hn0 hp0 hd0 ⊢
      cases hwq : s0.wq with
      | nil => exact ⟨hd0, hp0⟩
      | cons i q =>
        simp only
        have hnq : NoResume { s0 with wq := q } :=
          ⟨fun j hj => hn0.1 j (by rw [hwq]; exact List.mem_cons_of_mem _ hj), hn0.2⟩
        cases i with
        | workerAvail idx =>
          have hw : (wakePrim { s0 with wq := q } idx).paused = true ∧ (wakePrim { s0 with wq := q } idx).dispatched = s0.dispatched ∧
              NoResume (wakePrim { s0 with wq := q } idx) := by
            unfold wakePrim; split
            · unfold setAvail; split <;> exact ⟨hp0, rfl, hnq⟩
            · exact ⟨hp0, rfl, hnq⟩
          simp only [hw.1, Bool.not_true, Bool.false_eq_true, ↓reduceIte]
          obtain ⟨r1, r2⟩ := ih _ hw.1 hw.2.2
          exact ⟨by rw [r1, hw.2.1, hd0], r2⟩
        | worker w =>
          have hw : (addWorker { s0 with wq := q } w).paused = true ∧ (addWorker { s0 with wq := q } w).dispatched = s0.dispatched ∧
              NoResume (addWorker { s0 with wq := q } w) := by
            unfold addWorker setAvail; simp only; split <;> exact ⟨hp0, rfl, hnq⟩
          simp only [hw.1, Bool.not_true, Bool.false_eq_true, ↓reduceIte]
          obtain ⟨r1, r2⟩ := ih _ hw.1 hw.2.2
          exact ⟨by rw [r1, hw.2.1, hd0], r2⟩
        | pause =>
          simp only
          split
          · rename_i hc; simp [hp0] at hc
          · obtain ⟨r1, r2⟩ := ih { s0 with wq := q } hp0 hnq
            exact ⟨by rw [r1]; exact hd0, r2⟩
        | resume => exact absurd rfl (hn0.1 .resume (by rw [hwq]; exact List.mem_cons_self))
        | stop =>
          simp only
          split
          · rename_i hc; simp [hp0] at hc
          · exact ⟨hd0, hp0⟩


theorem register_dp (s : St) (l : Nat) : (register s l).dispatched = s.dispatched ∧ (register s l).paused = s.paused := by
  simp only [register]; split <;> exact ⟨rfl, rfl⟩
theorem setTimeout_dp (s : St) (d : Nat) : (setTimeout s d).dispatched = s.dispatched ∧ (setTimeout s d).paused = s.paused := by
  unfold setTimeout; split
  · split <;> exact ⟨rfl, rfl⟩
  · exact ⟨rfl, rfl⟩
theorem processTimeoutFrom_dp (now : Nat) : ∀ (ls : List Nat) (s : St),
    (processTimeoutFrom s now ls).dispatched = s.dispatched ∧ (processTimeoutFrom s now ls).paused = s.paused := by
  intro ls; induction ls with
  | nil => intro s; exact ⟨rfl, rfl⟩
  | cons l ls ih =>
    intro s; simp only [processTimeoutFrom]
    split
    · exact ih _
    · rename_i inst _
      have step : ∀ t : St, t.dispatched = s.dispatched → t.paused = s.paused →
          (processTimeoutFrom t now ls).dispatched = s.dispatched ∧ (processTimeoutFrom t now ls).paused = s.paused := by
        intro t h1 h2; obtain ⟨i1, i2⟩ := ih t; rw [i1, i2]; exact ⟨h1, h2⟩
      split
      · obtain ⟨a, b⟩ := setTimeout_dp { s with lst := upd (upd s.lst l { s.lst l with deadline := none }) l { (upd s.lst l { s.lst l with deadline := none }) l with deadline := some inst } } (inst - now)
        exact step _ (by rw [a]) (by rw [b])
      · split
        · obtain ⟨a, b⟩ := register_dp { s with lst := upd s.lst l { s.lst l with deadline := none } } l
          exact step _ (by rw [a]) (by rw [b])
        · exact step _ rfl rfl
theorem processTimeout_dp (s : St) : (processTimeout s).dispatched = s.dispatched ∧ (processTimeout s).paused = s.paused := by
  unfold processTimeout; split
  · exact ⟨rfl, rfl⟩
  · obtain ⟨a, b⟩ := processTimeoutFrom_dp s.now (List.range s.nLst) { s with timeout := none }
    rw [a, b]; exact ⟨rfl, rfl⟩

/-- while paused no listener is in the poll set, so mio reports no listener event -/
theorem paused_no_listener_events (s : St) (h : LInv s) (hp : s.paused = true) : readyListeners s = [] := by
  unfold readyListeners
  rw [List.filter_eq_nil_iff]
  intro l hl
  have : (s.lst l).registered = false := h.pd hp l (List.mem_range.mp hl)
  simp [this]

/-- **once a pause has taken effect no connection is dispatched until resume**: an iteration that
starts paused, sees the waker event only (the only event possible, `paused_no_listener_events`) and
has no `Resume` queued or scheduled dispatches nothing and ends paused — whatever else happens
(worker wake-ups, replacement handles, more pauses, back-off expiry, client connects, stop). -/
theorem paused_poll_no_dispatch (cfg : Cfg) (s : St) (sched : List (List EnvAct)) (hp : s.paused = true)
    (hwq : ∀ i ∈ s.wq, i ≠ Interest.resume) (hs : ∀ ch ∈ sched, ∀ a ∈ ch, a ≠ EnvAct.cmd .resume) :
    (poll cfg s [.waker] sched).dispatched = s.dispatched ∧ (poll cfg s [.waker] sched).paused = true := by
  unfold poll
  split
  · exact ⟨rfl, hp⟩
  · have hn : NoResume (clearEdges { s with sched := sched, yields := 0 }) := ⟨hwq, hs⟩
    have hp0 : (clearEdges { s with sched := sched, yields := 0 }).paused = true := hp
    obtain ⟨r1, r2⟩ := handleWaker_paused cfg (wakerFuel (clearEdges { s with sched := sched, yields := 0 })) _ hp0 hn
    simp only [pollEvents]
    generalize handleWaker cfg (wakerFuel (clearEdges { s with sched := sched, yields := 0 })) (clearEdges { s with sched := sched, yields := 0 }) = r at r1 r2
    obtain ⟨s1, ex⟩ := r
    simp only at r1 r2 ⊢
    have hd0 : (clearEdges { s with sched := sched, yields := 0 }).dispatched = s.dispatched := rfl
    cases ex with
    | true =>
      simp only [↓reduceIte, pollFinish]
      exact ⟨by rw [r1, hd0], r2⟩
    | false =>
      simp only [Bool.false_eq_true, ↓reduceIte, pollFinish, pollEvents]
      obtain ⟨a, b⟩ := processTimeout_dp s1
      refine ⟨?_, ?_⟩
      · show (processTimeout s1).dispatched = _; rw [a, r1, hd0]
      · show (processTimeout s1).paused = _; rw [b, r2]


end ActixNet.Srv
