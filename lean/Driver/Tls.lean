import Driver.Util
/-! Engine `tls`: line protocol (stub — filled in by the owner of this engine). -/
namespace Driver.Tls
open Driver

structure State where
  dummy : Nat := 0

def init : State := {}

def step (st : State) (line : String) : State × String :=
  match words line with
  | "case" :: _ => (init, "ok")
  | _ => (st, "bad-op")

end Driver.Tls
