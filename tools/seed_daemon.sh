#!/bin/sh
# tools/seed_daemon.sh: process .build/seedq.txt (lines "<Cxx> <crate> [prop]") one at a time, forever; stop with .build/seedq.stop
cd /verif; touch .build/seedq.txt; N=0
while [ ! -f .build/seedq.stop ]; do
  T=$(wc -l < .build/seedq.txt)
  if [ "$N" -lt "$T" ]; then
    N=$((N+1)); L=$(sed -n "${N}p" .build/seedq.txt)
    [ -n "$L" ] && tools/seed_queue.sh $L
    echo "$N $L done $(date -u +%H:%M:%S)" >> .build/seedq.done
  else sleep 15; fi
done
