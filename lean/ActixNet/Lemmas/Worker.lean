import ActixNet.Model.Worker
/-!
# Lemmas about the `ServerWorker::poll` model (`Model/Worker.lean`)

Shape lemmas (what each piece of `poll` appends to the log and how it changes the state) and the
invariants the property theorems of C07 / C06 are corollaries of.
-/
namespace ActixNet.Worker


@[simp] theorem emit_log (s : St) (es : List Ev) : (emit s es).log = s.log ++ es := rfl
@[simp] theorem emit_n (s : St) (es : List Ev) : (emit s es).n = s.n := rfl
@[simp] theorem emit_svc (s : St) (es : List Ev) : (emit s es).svc = s.svc := rfl
@[simp] theorem emit_queue (s : St) (es : List Ev) : (emit s es).queue = s.queue := rfl
@[simp] theorem emit_state (s : St) (es : List Ev) : (emit s es).state = s.state := rfl

def Ev.isCall : Ev → Bool | .call .. => true | _ => false

/-- every `call` in `l` is immediately preceded by `pollReady 0 _ ready … pollReady (n-1) _ ready` -/
def Guarded (n : Nat) (l : List Ev) : Prop :=
  ∀ k tok inc c, l[k]? = some (.call tok inc c) →
    n ≤ k ∧ ∀ i, i < n → ∃ inc', l[k - n + i]? = some (.pollReady i inc' .ready)

theorem Guarded.append_nocall {n : Nat} {l m : List Ev} (h : Guarded n l) (hm : ∀ e ∈ m, e.isCall = false) :
    Guarded n (l ++ m) := by
  intro k tok inc c hk
  by_cases hlt : k < l.length
  · rw [List.getElem?_append_left hlt] at hk
    obtain ⟨h1, h2⟩ := h k tok inc c hk
    refine ⟨h1, fun i hi => ?_⟩
    obtain ⟨inc', h3⟩ := h2 i hi
    exact ⟨inc', by rw [List.getElem?_append_left (by omega)]; exact h3⟩
  · rw [List.getElem?_append_right (by omega)] at hk
    have := hm _ (List.mem_of_getElem? hk)
    simp [Ev.isCall] at this

/-- `m` is a complete all-ready sweep of `n` services -/
def ReadySweep (n : Nat) (m : List Ev) : Prop :=
  m.length = n ∧ ∀ i, i < n → ∃ inc, m[i]? = some (.pollReady i inc .ready)

theorem Guarded.append_sweep_call {n : Nat} {l m : List Ev} (h : Guarded n l) (hm : ReadySweep n m)
    (tok inc : Nat) (c : Conn) : Guarded n (l ++ m ++ [.call tok inc c]) := by
  have hnc : ∀ e ∈ m, e.isCall = false := by
    intro e he
    obtain ⟨i, hi, rfl⟩ := List.getElem_of_mem he
    obtain ⟨inc', h3⟩ := hm.2 i (by rw [← hm.1]; exact hi)
    rw [List.getElem?_eq_getElem hi] at h3
    simp at h3; rw [h3]; rfl
  have h1 := h.append_nocall hnc
  intro k tok' inc' c' hk
  have hlen : (l ++ m).length = l.length + n := by simp [hm.1]
  by_cases hlt : k < (l ++ m).length
  · rw [List.getElem?_append_left hlt] at hk
    obtain ⟨g1, g2⟩ := h1 k tok' inc' c' hk
    refine ⟨g1, fun i hi => ?_⟩
    obtain ⟨j, h3⟩ := g2 i hi
    have hm1 := hm.1
    exact ⟨j, by rw [List.getElem?_append_left (by omega)]; exact h3⟩
  · have hkeq : k = (l ++ m).length := by
      by_cases hgt : k = (l ++ m).length
      · exact hgt
      · rw [List.getElem?_append_right (by omega)] at hk
        rw [List.getElem?_eq_none (by simp only [List.length_singleton]; omega)] at hk; simp at hk
    subst hkeq
    rw [hlen]
    refine ⟨by omega, fun i hi => ?_⟩
    obtain ⟨j, h3⟩ := hm.2 i hi
    refine ⟨j, ?_⟩
    rw [List.getElem?_append_left (by omega)]
    rw [List.getElem?_append_right (by omega)]
    have : l.length + n - n + i - l.length = i := by omega
    rw [this]; exact h3



def core (s : St) := (s.n, s.timeout, s.state, s.queue, s.chanOpen, s.stopQ, s.raw, s.now, s.inflight, s.sent, s.nextConn, s.nextStop, s.finished, s.stopWaker, s.connWaker, s.fault)

def Ev.isPR : Ev → Bool | .pollReady .. => true | _ => false
def Ev.isErr : Ev → Bool | .pollReady _ _ .err => true | _ => false

@[simp] theorem readyStep_core (s : St) (i : Nat) : core (readyStep s i) = core s := rfl
@[simp] theorem readyStep_log (s : St) (i : Nat) :
    (readyStep s i).log = s.log ++ [.pollReady i (s.svc i).inc (rdOf s i)] := rfl
theorem readyStep_svc (s : St) (i j : Nat) :
    (readyStep s i).svc j = if j = i then { (s.svc i) with script := (nextRd (s.svc i).script).2, status := statusOf (rdOf s i) } else s.svc j := rfl

theorem sweepFrom_skip {s : St} {i : Nat} (r : Bool) (k : Nat) (h : (s.svc i).status.polled = false) :
    sweepFrom s i r (k + 1) = sweepFrom s (i + 1) r k := by simp [sweepFrom, h]
theorem sweepFrom_ready {s : St} {i : Nat} (r : Bool) (k : Nat) (h : (s.svc i).status.polled = true) (hr : rdOf s i = .ready) :
    sweepFrom s i r (k + 1) = sweepFrom (readyStep s i) (i + 1) r k := by simp [sweepFrom, h, hr]
theorem sweepFrom_pending {s : St} {i : Nat} (r : Bool) (k : Nat) (h : (s.svc i).status.polled = true) (hr : rdOf s i = .pending) :
    sweepFrom s i r (k + 1) = sweepFrom (readyStep s i) (i + 1) false k := by simp [sweepFrom, h, hr]
theorem sweepFrom_err {s : St} {i : Nat} (r : Bool) (k : Nat) (h : (s.svc i).status.polled = true) (hr : rdOf s i = .err) :
    sweepFrom s i r (k + 1) = (readyStep s i, .err i) := by simp [sweepFrom, h, hr]

/-- case analysis of one step of the sweep -/
theorem sweepFrom_cases (s : St) (i : Nat) (r : Bool) (k : Nat) :
    ((s.svc i).status.polled = false ∧ sweepFrom s i r (k + 1) = sweepFrom s (i + 1) r k) ∨
    ((s.svc i).status.polled = true ∧ rdOf s i = .ready ∧ sweepFrom s i r (k + 1) = sweepFrom (readyStep s i) (i + 1) r k) ∨
    ((s.svc i).status.polled = true ∧ rdOf s i = .pending ∧ sweepFrom s i r (k + 1) = sweepFrom (readyStep s i) (i + 1) false k) ∨
    ((s.svc i).status.polled = true ∧ rdOf s i = .err ∧ sweepFrom s i r (k + 1) = (readyStep s i, .err i)) := by
  cases hp : (s.svc i).status.polled
  · exact Or.inl ⟨rfl, sweepFrom_skip r k hp⟩
  · cases hr : rdOf s i
    · exact Or.inr (Or.inr (Or.inl ⟨rfl, rfl, sweepFrom_pending r k hp hr⟩))
    · exact Or.inr (Or.inl ⟨rfl, rfl, sweepFrom_ready r k hp hr⟩)
    · exact Or.inr (Or.inr (Or.inr ⟨rfl, rfl, sweepFrom_err r k hp hr⟩))

theorem sweepFrom_core (k : Nat) : ∀ (s : St) (i : Nat) (ready : Bool), core (sweepFrom s i ready k).1 = core s := by
  induction k with
  | zero => intro s i r; rfl
  | succ k ih =>
    intro s i r
    rcases sweepFrom_cases s i r k with ⟨_, h⟩ | ⟨_, _, h⟩ | ⟨_, _, h⟩ | ⟨_, _, h⟩ <;> rw [h]
    · exact ih _ _ _
    · rw [ih]; rfl
    · rw [ih]; rfl
    · rfl

/-- the events of a sweep that did not fail -/
theorem sweepFrom_ok (k : Nat) : ∀ (s : St) (i : Nat) (ready b : Bool), (sweepFrom s i ready k).2 = .ok b →
    ∃ evs, (sweepFrom s i ready k).1.log = s.log ++ evs ∧ (∀ e ∈ evs, e.isPR = true ∧ e.isErr = false) := by
  induction k with
  | zero => intro s i r b _; exact ⟨[], by simp [sweepFrom]⟩
  | succ k ih =>
    intro s i r b
    rcases sweepFrom_cases s i r k with ⟨_, h⟩ | ⟨_, hr, h⟩ | ⟨_, hr, h⟩ | ⟨_, hr, h⟩ <;> rw [h] <;> intro hb
    · exact ih _ _ _ _ hb
    · obtain ⟨evs, h1, h2⟩ := ih _ _ _ _ hb
      refine ⟨.pollReady i (s.svc i).inc (rdOf s i) :: evs, by rw [h1]; simp, ?_⟩
      intro e he; simp at he; rcases he with rfl | he
      · rw [hr]; exact ⟨rfl, rfl⟩
      · exact h2 e he
    · obtain ⟨evs, h1, h2⟩ := ih _ _ _ _ hb
      refine ⟨.pollReady i (s.svc i).inc (rdOf s i) :: evs, by rw [h1]; simp, ?_⟩
      intro e he; simp at he; rcases he with rfl | he
      · rw [hr]; exact ⟨rfl, rfl⟩
      · exact h2 e he
    · simp at hb

/-- a sweep over services that are all polled and all answer ready: exactly one ready event each, in order -/
theorem sweepFrom_ready_evs (k : Nat) : ∀ (s : St) (i : Nat) (ready : Bool), (sweepFrom s i ready k).2 = .ok true →
    (∀ j, i ≤ j → j < i + k → (s.svc j).status.polled = true) →
    ∃ evs, (sweepFrom s i ready k).1.log = s.log ++ evs ∧ evs.length = k ∧
      ∀ j, j < k → ∃ inc, evs[j]? = some (.pollReady (i + j) inc .ready) := by
  induction k with
  | zero => intro s i r _ _; exact ⟨[], by simp [sweepFrom]⟩
  | succ k ih =>
    intro s i r
    rcases sweepFrom_cases s i r k with ⟨hp, h⟩ | ⟨_, hr, h⟩ | ⟨_, hr, h⟩ | ⟨_, hr, h⟩ <;> rw [h] <;> intro hb hall
    · have := hall i (Nat.le_refl _) (by omega); rw [hp] at this; simp at this
    · have hall' : ∀ j, i + 1 ≤ j → j < i + 1 + k → ((readyStep s i).svc j).status.polled = true := by
        intro j h1 h2
        rw [readyStep_svc, if_neg (by omega)]; exact hall j (by omega) (by omega)
      obtain ⟨evs, h1, h2, h3⟩ := ih _ _ _ hb hall'
      refine ⟨.pollReady i (s.svc i).inc (rdOf s i) :: evs, by rw [h1]; simp, by simp [h2], ?_⟩
      intro j hj
      cases j with
      | zero => exact ⟨(s.svc i).inc, by simp [hr]⟩
      | succ j =>
        obtain ⟨inc, h4⟩ := h3 j (by omega)
        exact ⟨inc, by simp only [List.getElem?_cons_succ]; rw [h4]; congr 2; omega⟩
    · exfalso
      have hf : ∀ (k : Nat) (s : St) (i : Nat), (sweepFrom s i false k).2 ≠ .ok true := by
        intro k; induction k with
        | zero => intro s i; simp [sweepFrom]
        | succ k ih2 =>
          intro s i
          rcases sweepFrom_cases s i false k with ⟨_, h⟩ | ⟨_, _, h⟩ | ⟨_, _, h⟩ | ⟨_, _, h⟩ <;> rw [h]
          · exact ih2 _ _
          · exact ih2 _ _
          · exact ih2 _ _
          · simp
      exact hf _ _ _ hb
    · simp at hb



theorem readyStep_inc (s : St) (i j : Nat) : ((readyStep s i).svc j).inc = (s.svc j).inc := by
  rw [readyStep_svc]; split
  · rename_i h; subst h; rfl
  · rfl
theorem readyStep_future (s : St) (i j : Nat) : ((readyStep s i).svc j).future = (s.svc j).future := by
  rw [readyStep_svc]; split
  · rename_i h; subst h; rfl
  · rfl
theorem readyStep_polled (s : St) (i j : Nat) (hp : (s.svc i).status.polled = true) (hr : rdOf s i ≠ .err) :
    ((readyStep s i).svc j).status.polled = (s.svc j).status.polled := by
  rw [readyStep_svc]; split
  · rename_i h; subst h; rw [hp]
    cases h2 : rdOf s j <;> simp_all [statusOf, Status.polled]
  · rfl

theorem sweepFrom_svc (k : Nat) : ∀ (s : St) (i : Nat) (r : Bool) (j : Nat),
    ((sweepFrom s i r k).1.svc j).inc = (s.svc j).inc ∧ ((sweepFrom s i r k).1.svc j).future = (s.svc j).future ∧
    ((sweepFrom s i r k).2 ≠ .err j → ((sweepFrom s i r k).1.svc j).status.polled = (s.svc j).status.polled) := by
  induction k with
  | zero => intro s i r j; simp [sweepFrom]
  | succ k ih =>
    intro s i r j
    rcases sweepFrom_cases s i r k with ⟨_, h⟩ | ⟨hp, hr, h⟩ | ⟨hp, hr, h⟩ | ⟨hp, hr, h⟩ <;> rw [h]
    · exact ih _ _ _ _
    · obtain ⟨a, b, c⟩ := ih (readyStep s i) (i + 1) r j
      exact ⟨by rw [a, readyStep_inc], by rw [b, readyStep_future], fun hne => by rw [c hne, readyStep_polled s i j hp (by simp [hr])]⟩
    · obtain ⟨a, b, c⟩ := ih (readyStep s i) (i + 1) false j
      exact ⟨by rw [a, readyStep_inc], by rw [b, readyStep_future], fun hne => by rw [c hne, readyStep_polled s i j hp (by simp [hr])]⟩
    · refine ⟨readyStep_inc _ _ _, readyStep_future _ _ _, fun hne => ?_⟩
      rw [readyStep_svc, if_neg (by intro hji; subst hji; simp at hne)]

theorem sweepFrom_err_spec (k : Nat) : ∀ (s : St) (i : Nat) (r : Bool) (j : Nat), (sweepFrom s i r k).2 = .err j →
    i ≤ j ∧ j < i + k ∧ (s.svc j).status.polled = true ∧ ((sweepFrom s i r k).1.svc j).status = .failed ∧
    ∃ evs inc, (sweepFrom s i r k).1.log = s.log ++ evs ++ [.pollReady j inc .err] ∧ ∀ e ∈ evs, e.isPR = true ∧ e.isErr = false := by
  induction k with
  | zero => intro s i r j h; simp [sweepFrom] at h
  | succ k ih =>
    intro s i r j
    rcases sweepFrom_cases s i r k with ⟨_, h⟩ | ⟨hp, hr, h⟩ | ⟨hp, hr, h⟩ | ⟨hp, hr, h⟩ <;> rw [h] <;> intro he
    · obtain ⟨a, b, c, d, e⟩ := ih _ _ _ _ he
      exact ⟨by omega, by omega, c, d, e⟩
    · obtain ⟨a, b, c, d, evs, inc, e1, e2⟩ := ih _ _ _ _ he
      refine ⟨by omega, by omega, ?_, d, .pollReady i (s.svc i).inc (rdOf s i) :: evs, inc, by rw [e1]; simp, ?_⟩
      · rw [readyStep_svc, if_neg (by omega)] at c; exact c
      · intro e hm; simp at hm; rcases hm with rfl | hm
        · rw [hr]; exact ⟨rfl, rfl⟩
        · exact e2 e hm
    · obtain ⟨a, b, c, d, evs, inc, e1, e2⟩ := ih _ _ _ _ he
      refine ⟨by omega, by omega, ?_, d, .pollReady i (s.svc i).inc (rdOf s i) :: evs, inc, by rw [e1]; simp, ?_⟩
      · rw [readyStep_svc, if_neg (by omega)] at c; exact c
      · intro e hm; simp at hm; rcases hm with rfl | hm
        · rw [hr]; exact ⟨rfl, rfl⟩
        · exact e2 e hm
    · simp only [Sweep.err.injEq] at he; subst he
      refine ⟨Nat.le_refl _, by omega, hp, ?_, [], (s.svc i).inc, by simp [hr], by simp⟩
      rw [readyStep_svc, if_pos rfl, hr]; rfl




def AllPolled (s : St) : Prop := ∀ j, j < s.n → (s.svc j).status.polled = true

/-- incarnation numbers and the factories' remaining output are the same -/
def SameInc (s s' : St) : Prop := ∀ j, (s'.svc j).inc = (s.svc j).inc ∧ (s'.svc j).future = (s.svc j).future

theorem SameInc.refl (s : St) : SameInc s s := fun _ => ⟨rfl, rfl⟩
theorem SameInc.trans {a b c : St} (h1 : SameInc a b) (h2 : SameInc b c) : SameInc a c :=
  fun j => ⟨(h2 j).1.trans (h1 j).1, (h2 j).2.trans (h1 j).2⟩

def PRNoErr (evs : List Ev) : Prop := ∀ e ∈ evs, e.isPR = true ∧ e.isErr = false

theorem sweep_n {s s1 : St} {r : Sweep} (h : sweep s = (s1, r)) : core s1 = core s := by
  have := sweepFrom_core s.n s 0 true
  unfold sweep at h; rw [h] at this; exact this

theorem sweep_sameInc {s s1 : St} {r : Sweep} (h : sweep s = (s1, r)) : SameInc s s1 := by
  intro j
  have := sweepFrom_svc s.n s 0 true j
  unfold sweep at h; rw [h] at this; exact ⟨this.1, this.2.1⟩

theorem sweep_ok_spec {s s1 : St} {b : Bool} (h : sweep s = (s1, .ok b)) (hp : AllPolled s) :
    AllPolled s1 ∧ ∃ evs, s1.log = s.log ++ evs ∧ PRNoErr evs ∧ (b = true → ReadySweep s.n evs) := by
  have hc := sweep_n h
  have hn : s1.n = s.n := congrArg (·.1) hc
  refine ⟨?_, ?_⟩
  · intro j hj
    have := (sweepFrom_svc s.n s 0 true j).2.2
    unfold sweep at h; rw [h] at this
    rw [this (by simp)]; exact hp j (hn ▸ hj)
  · cases b with
    | false =>
      have := sweepFrom_ok s.n s 0 true false
      unfold sweep at h; rw [h] at this
      obtain ⟨evs, h1, h2⟩ := this rfl
      exact ⟨evs, h1, h2, by simp⟩
    | true =>
      have h1 := sweepFrom_ok s.n s 0 true true
      have h2 := sweepFrom_ready_evs s.n s 0 true
      unfold sweep at h; rw [h] at h1 h2
      obtain ⟨evs, e1, e2⟩ := h1 rfl
      obtain ⟨evs', e3, e4, e5⟩ := h2 rfl (fun j _ hj => hp j (by omega))
      have : evs = evs' := List.append_cancel_left (e1.symm.trans e3)
      subst this
      refine ⟨evs, e1, e2, fun _ => ⟨e4, fun i hi => ?_⟩⟩
      obtain ⟨inc, h⟩ := e5 i hi
      exact ⟨inc, by simpa using h⟩

theorem sweep_err_spec {s s1 : St} {i : Nat} (h : sweep s = (s1, .err i)) (hp : AllPolled s) :
    i < s.n ∧ (s1.svc i).status = .failed ∧ (∀ j, j < s.n → j ≠ i → (s1.svc j).status.polled = true) ∧
    ∃ evs inc, s1.log = s.log ++ evs ++ [.pollReady i inc .err] ∧ PRNoErr evs := by
  have h1 := sweepFrom_err_spec s.n s 0 true i
  unfold sweep at h; rw [h] at h1
  obtain ⟨_, a, _, b, c⟩ := h1 rfl
  refine ⟨by omega, b, ?_, c⟩
  intro j hj hne
  have := (sweepFrom_svc s.n s 0 true j).2.2
  rw [h] at this
  rw [this (by simp; exact fun h => hne h.symm)]; exact hp j hj




/-- the events of the `Available` loop while it serves: `(all-ready sweep, call c)` per connection -/
inductive LoopTrace (n : Nat) : List Ev → List Conn → Prop
  | nil : LoopTrace n [] []
  | cons {sw rest : List Ev} {cs : List Conn} (c : Conn) (inc : Nat) :
      ReadySweep n sw → c.2 < n → LoopTrace n rest cs → LoopTrace n (sw ++ .call c.2 inc c :: rest) (c :: cs)

/-- what the `Available` loop leaves untouched -/
def core2 (s : St) := (s.n, s.timeout, s.state, s.chanOpen, s.stopQ, s.raw, s.now, s.sent, s.nextConn, s.nextStop, s.finished, s.stopWaker)

theorem core_core2 {s s' : St} (h : core s' = core s) : core2 s' = core2 s := by
  simp only [core, Prod.mk.injEq] at h
  simp only [core2, Prod.mk.injEq]
  obtain ⟨a1, a2, a3, a4, a5, a6, a7, a8, a9, a10, a11, a12, a13, a14, a15, a16⟩ := h
  exact ⟨a1, a2, a3, a5, a6, a7, a8, a10, a11, a12, a13, a14⟩

structure LoopSpec (s : St) (q : List Conn) (s' : St) (r : LoopRes) : Prop where
  core : core2 s' = core2 s
  inc : SameInc s s'
  shape : ∃ tr cs last, s'.log = s.log ++ tr ++ last ∧ LoopTrace s.n tr cs ∧ q = cs ++ s'.queue ∧
    s'.inflight = s.inflight ++ cs ∧
    (∀ i, r = .restart i → ∃ evs inc, last = evs ++ [.pollReady i inc .err] ∧ PRNoErr evs) ∧
    ((∀ i, r ≠ .restart i) → PRNoErr last) ∧
    (r = .pending ∨ r = .closed → ReadySweep s.n last ∧ s'.queue = [])
  restart : ∀ i, r = .restart i → i < s.n ∧ (s'.svc i).status = .failed ∧ ∀ j, j < s.n → j ≠ i → (s'.svc j).status.polled = true
  polled : (∀ i, r ≠ .restart i) → AllPolled s'
  fault : r ≠ .fault → s'.fault = s.fault
  closed : r = .closed → s'.chanOpen = false

theorem availLoop_nil_err {s s1 : St} {i : Nat} (h : sweep s = (s1, .err i)) :
    availLoop s [] = ({ s1 with queue := [] }, .restart i) := by simp only [availLoop, h]
theorem availLoop_nil_false {s s1 : St} (h : sweep s = (s1, .ok false)) :
    availLoop s [] = ({ s1 with queue := [] }, .toUnavailable) := by simp only [availLoop, h]
theorem availLoop_nil_open {s s1 : St} (h : sweep s = (s1, .ok true)) (ho : s1.chanOpen = true) :
    availLoop s [] = ({ s1 with queue := [], connWaker := true }, .pending) := by simp only [availLoop, h, ho, if_true]
theorem availLoop_nil_closed {s s1 : St} (h : sweep s = (s1, .ok true)) (ho : s1.chanOpen = false) :
    availLoop s [] = ({ s1 with queue := [] }, .closed) := by simp [availLoop, h, ho]
theorem availLoop_cons_err {s s1 : St} {i : Nat} (c : Conn) (q : List Conn) (h : sweep s = (s1, .err i)) :
    availLoop s (c :: q) = ({ s1 with queue := c :: q }, .restart i) := by simp only [availLoop, h]
theorem availLoop_cons_false {s s1 : St} (c : Conn) (q : List Conn) (h : sweep s = (s1, .ok false)) :
    availLoop s (c :: q) = ({ s1 with queue := c :: q }, .toUnavailable) := by simp only [availLoop, h]
theorem availLoop_cons_call {s s1 : St} (c : Conn) (q : List Conn) (h : sweep s = (s1, .ok true)) (ht : c.2 < s1.n) :
    availLoop s (c :: q) = availLoop { (emit s1 [.call c.2 (s1.svc c.2).inc c]) with inflight := s1.inflight ++ [c], queue := q } q := by
  simp only [availLoop, h, ht, if_true]
theorem availLoop_cons_bad {s s1 : St} (c : Conn) (q : List Conn) (h : sweep s = (s1, .ok true)) (ht : ¬ c.2 < s1.n) :
    availLoop s (c :: q) = (setFault { s1 with queue := c :: q } .badToken, .fault) := by
  simp only [availLoop, h, ht, if_false]

theorem availLoop_spec (q : List Conn) : ∀ (s : St), AllPolled s → LoopSpec s q (availLoop s q).1 (availLoop s q).2 := by
  induction q with
  | nil =>
    intro s hp
    rcases hsw : sweep s with ⟨s1, r⟩
    have hc := sweep_n hsw
    have hc2 := core_core2 hc
    have hinf : s1.inflight = s.inflight := by simp only [core, Prod.mk.injEq] at hc; exact hc.2.2.2.2.2.2.2.2.1
    have hfl : s1.fault = s.fault := by simp only [core, Prod.mk.injEq] at hc; exact hc.2.2.2.2.2.2.2.2.2.2.2.2.2.2.2
    have hsi : SameInc s s1 := sweep_sameInc hsw
    cases r with
    | err i =>
      obtain ⟨a, b, c, evs, inc, d, e⟩ := sweep_err_spec hsw hp
      rw [availLoop_nil_err hsw]
      exact { core := hc2, inc := hsi,
              shape := ⟨[], [], evs ++ [.pollReady i inc .err], by simp [d], .nil, rfl, by simp [hinf],
                fun i' h => by simp at h; subst h; exact ⟨evs, inc, rfl, e⟩, fun h => absurd rfl (h i), by simp⟩,
              restart := fun i' h => by simp at h; subst h; exact ⟨a, b, c⟩,
              polled := fun h => absurd rfl (h i), fault := fun _ => hfl, closed := by simp }
    | ok b =>
      obtain ⟨a, evs, d, e, f⟩ := sweep_ok_spec hsw hp
      cases b with
      | false =>
        rw [availLoop_nil_false hsw]
        exact { core := hc2, inc := hsi,
                shape := ⟨[], [], evs, by simp [d], .nil, rfl, by simp [hinf], by simp, fun _ => e, by simp⟩,
                restart := by simp, polled := fun _ => a, fault := fun _ => hfl, closed := by simp }
      | true =>
        cases hco : s1.chanOpen with
        | true =>
          rw [availLoop_nil_open hsw hco]
          exact { core := hc2, inc := hsi,
                  shape := ⟨[], [], evs, by simp [d], .nil, rfl, by simp [hinf], by simp, fun _ => e, fun _ => ⟨f rfl, rfl⟩⟩,
                  restart := by simp, polled := fun _ => a, fault := fun _ => hfl, closed := by simp }
        | false =>
          rw [availLoop_nil_closed hsw hco]
          exact { core := hc2, inc := hsi,
                  shape := ⟨[], [], evs, by simp [d], .nil, rfl, by simp [hinf], by simp, fun _ => e, fun _ => ⟨f rfl, rfl⟩⟩,
                  restart := by simp, polled := fun _ => a, fault := fun _ => hfl, closed := fun _ => hco }
  | cons c q ih =>
    intro s hp
    rcases hsw : sweep s with ⟨s1, r⟩
    have hc := sweep_n hsw
    have hc2 := core_core2 hc
    have hn : s1.n = s.n := congrArg (·.1) hc
    have hinf : s1.inflight = s.inflight := by simp only [core, Prod.mk.injEq] at hc; exact hc.2.2.2.2.2.2.2.2.1
    have hfl : s1.fault = s.fault := by simp only [core, Prod.mk.injEq] at hc; exact hc.2.2.2.2.2.2.2.2.2.2.2.2.2.2.2
    have hsi : SameInc s s1 := sweep_sameInc hsw
    cases r with
    | err i =>
      obtain ⟨a, b, c', evs, inc, d, e⟩ := sweep_err_spec hsw hp
      rw [availLoop_cons_err c q hsw]
      exact { core := hc2, inc := hsi,
              shape := ⟨[], [], evs ++ [.pollReady i inc .err], by simp [d], .nil, rfl, by simp [hinf],
                fun i' h => by simp at h; subst h; exact ⟨evs, inc, rfl, e⟩, fun h => absurd rfl (h i), by simp⟩,
              restart := fun i' h => by simp at h; subst h; exact ⟨a, b, c'⟩,
              polled := fun h => absurd rfl (h i), fault := fun _ => hfl, closed := by simp }
    | ok b =>
      obtain ⟨a, evs, d, e, f⟩ := sweep_ok_spec hsw hp
      cases b with
      | false =>
        rw [availLoop_cons_false c q hsw]
        exact { core := hc2, inc := hsi,
                shape := ⟨[], [], evs, by simp [d], .nil, rfl, by simp [hinf], by simp, fun _ => e, by simp⟩,
                restart := by simp, polled := fun _ => a, fault := fun _ => hfl, closed := by simp }
      | true =>
        by_cases htok : c.2 < s1.n
        · rw [availLoop_cons_call c q hsw htok]
          have hp2 : AllPolled { (emit s1 [.call c.2 (s1.svc c.2).inc c]) with inflight := s1.inflight ++ [c], queue := q } := a
          obtain ⟨k1, k2, ⟨tr, cs, last, g1, g2, g3, g4, g5, g6, g7⟩, k4, k5, k6, k7⟩ := ih _ hp2
          refine { core := k1.trans hc2, inc := hsi.trans k2, shape := ?_, restart := ?_, polled := k5, fault := fun h => (k6 h).trans hfl, closed := k7 }
          · refine ⟨evs ++ .call c.2 (s1.svc c.2).inc c :: tr, c :: cs, last, ?_, ?_, ?_, ?_, g5, g6, ?_⟩
            · rw [g1]; simp [d]
            · exact .cons c _ (f rfl) (hn ▸ htok) (hn ▸ g2)
            · simp at g3 ⊢; exact g3
            · rw [g4]; simp [hinf]
            · intro h; have := g7 h; simpa [hn] using this
          · intro i h; have := k4 i h; simpa [hn] using this
        · rw [availLoop_cons_bad c q hsw htok]
          exact { core := hc2, inc := hsi,
                  shape := ⟨[], [], evs, by simp [d, setFault], .nil, rfl, by simp [hinf, setFault], by simp, fun _ => e, by simp⟩,
                  restart := by simp, polled := fun _ => a, fault := by simp, closed := by simp }




def Ev.conn? : Ev → Option Conn
  | .call _ _ c => some c | .released c => some c | .dropped c => some c | _ => none

/-- the connections the worker has taken out of its channel (served, released or dropped), in order -/
def handled (l : List Ev) : List Conn := l.filterMap Ev.conn?

@[simp] theorem handled_append (l m : List Ev) : handled (l ++ m) = handled l ++ handled m := by
  simp [handled]
@[simp] theorem handled_nil : handled [] = [] := rfl

def Ev.isCreate : Ev → Bool | .createService _ => true | _ => false

/-- an event that is neither a readiness answer, a call, a `create` nor takes a connection -/
def Ev.plain (e : Ev) : Prop := e.isCall = false ∧ e.isErr = false ∧ e.isCreate = false ∧ e.conn? = none

/-- a failed readiness check is immediately followed by `create` of that service, and every `create`
is immediately preceded by the failed readiness check of that service -/
def ErrCreate (l : List Ev) : Prop :=
  (∀ k i inc, l[k]? = some (.pollReady i inc .err) → l[k + 1]? = some (.createService i)) ∧
  (∀ k i, l[k]? = some (.createService i) → 1 ≤ k ∧ ∃ inc, l[k - 1]? = some (.pollReady i inc .err))

theorem ErrCreate.append {l m : List Ev} (h : ErrCreate l) (hm : ∀ e ∈ m, e.isErr = false ∧ e.isCreate = false) :
    ErrCreate (l ++ m) := by
  refine ⟨fun k i inc hk => ?_, fun k i hk => ?_⟩
  · by_cases hlt : k < l.length
    · rw [List.getElem?_append_left hlt] at hk
      have h1 := h.1 k i inc hk
      have : k + 1 < l.length := by
        rcases Nat.lt_or_ge (k + 1) l.length with hc | hc
        · exact hc
        · rw [List.getElem?_eq_none hc] at h1; simp at h1
      rw [List.getElem?_append_left this]; exact h1
    · rw [List.getElem?_append_right (by omega)] at hk
      have := (hm _ (List.mem_of_getElem? hk)).1; simp [Ev.isErr] at this
  · by_cases hlt : k < l.length
    · rw [List.getElem?_append_left hlt] at hk
      obtain ⟨h1, inc, h2⟩ := h.2 k i hk
      exact ⟨h1, inc, by rw [List.getElem?_append_left (by omega)]; exact h2⟩
    · rw [List.getElem?_append_right (by omega)] at hk
      have := (hm _ (List.mem_of_getElem? hk)).2; simp [Ev.isCreate] at this

theorem ErrCreate.append_restart {l : List Ev} (h : ErrCreate l) (i inc : Nat) :
    ErrCreate (l ++ [.pollReady i inc .err, .createService i]) := by
  refine ⟨fun k j inc' hk => ?_, fun k j hk => ?_⟩
  · by_cases hlt : k < l.length
    · rw [List.getElem?_append_left hlt] at hk
      have h1 := h.1 k j inc' hk
      have : k + 1 < l.length := by
        rcases Nat.lt_or_ge (k + 1) l.length with hc | hc
        · exact hc
        · rw [List.getElem?_eq_none hc] at h1; simp at h1
      rw [List.getElem?_append_left this]; exact h1
    · rw [List.getElem?_append_right (by omega)] at hk
      have hk0 : k - l.length = 0 := by
        match hm : k - l.length with
        | 0 => rfl
        | 1 => rw [hm] at hk; simp at hk
        | m + 2 => rw [hm] at hk; simp at hk
      rw [hk0] at hk; simp at hk
      obtain ⟨rfl, rfl⟩ := hk
      rw [List.getElem?_append_right (by omega)]
      have : k + 1 - l.length = 1 := by omega
      rw [this]; rfl
  · by_cases hlt : k < l.length
    · rw [List.getElem?_append_left hlt] at hk
      obtain ⟨h1, inc', h2⟩ := h.2 k j hk
      exact ⟨h1, inc', by rw [List.getElem?_append_left (by omega)]; exact h2⟩
    · rw [List.getElem?_append_right (by omega)] at hk
      have hk1 : k - l.length = 1 := by
        match hm : k - l.length with
        | 0 => rw [hm] at hk; simp at hk
        | 1 => rfl
        | m + 2 => rw [hm] at hk; simp at hk
      rw [hk1] at hk; simp at hk; subst hk
      refine ⟨by omega, inc, ?_⟩
      rw [List.getElem?_append_right (by omega)]
      have : k - 1 - l.length = 0 := by omega
      rw [this]; rfl

theorem goneEvs_plain (q : List (Nat × Bool)) : ∀ e ∈ goneEvs q, e.plain := by
  induction q with
  | nil => simp [goneEvs]
  | cons a t ih =>
    obtain ⟨k, g⟩ := a
    intro e he; simp [goneEvs] at he
    rcases he with rfl | he
    · exact ⟨rfl, rfl, rfl, rfl⟩
    · exact ih e he

theorem stateTx_plain (w : WState) : ∀ e ∈ stateTx w, e.plain := by
  cases w <;> simp [stateTx]
  exact ⟨rfl, rfl, rfl, rfl⟩

theorem handled_plain {m : List Ev} (h : ∀ e ∈ m, e.plain) : handled m = [] := by
  simp only [handled, List.filterMap_eq_nil_iff]
  intro e he; exact (h e he).2.2.2

theorem handled_dropped (q : List Conn) : handled (q.map .dropped) = q := by
  induction q with
  | nil => rfl
  | cons c q ih => simp [handled, Ev.conn?] at ih ⊢; exact ih

theorem handled_released (q : List Conn) : handled (q.map .released) = q := by
  induction q with
  | nil => rfl
  | cons c q ih => simp [handled, Ev.conn?] at ih ⊢; exact ih

theorem handled_PR {m : List Ev} (h : ∀ e ∈ m, e.isPR = true) : handled m = [] := by
  simp only [handled, List.filterMap_eq_nil_iff]
  intro e he; have := h e he
  cases e <;> simp_all [Ev.isPR, Ev.conn?]

theorem LoopTrace.handled {n : Nat} {tr : List Ev} {cs : List Conn} (h : LoopTrace n tr cs) : handled tr = cs := by
  induction h with
  | nil => rfl
  | cons c inc hsw _ _ ih =>
    have : ActixNet.Worker.handled _ = [] := handled_PR (m := _) (fun e he => by
      obtain ⟨i, hi, rfl⟩ := List.getElem_of_mem he
      obtain ⟨inc', h3⟩ := hsw.2 i (by rw [← hsw.1]; exact hi)
      rw [List.getElem?_eq_getElem hi] at h3
      simp at h3; rw [h3]; rfl)
    rw [handled_append, this]
    simp [ActixNet.Worker.handled, Ev.conn?] at ih ⊢; exact ih

theorem ReadySweep.noErrCreate {n : Nat} {sw : List Ev} (h : ReadySweep n sw) : ∀ e ∈ sw, e.isErr = false ∧ e.isCreate = false := by
  intro e he
  obtain ⟨i, hi, rfl⟩ := List.getElem_of_mem he
  obtain ⟨inc', h3⟩ := h.2 i (by rw [← h.1]; exact hi)
  rw [List.getElem?_eq_getElem hi] at h3
  simp at h3; rw [h3]; exact ⟨rfl, rfl⟩

theorem LoopTrace.noErrCreate {n : Nat} {tr : List Ev} {cs : List Conn} (h : LoopTrace n tr cs) :
    ∀ e ∈ tr, e.isErr = false ∧ e.isCreate = false := by
  induction h with
  | nil => simp
  | cons c inc hsw _ _ ih =>
    intro e he; simp at he
    rcases he with he | rfl | he
    · exact hsw.noErrCreate e he
    · exact ⟨rfl, rfl⟩
    · exact ih e he

theorem LoopTrace.guarded {n : Nat} {tr : List Ev} {cs : List Conn} (h : LoopTrace n tr cs) :
    ∀ l, Guarded n l → Guarded n (l ++ tr) := by
  induction h with
  | nil => intro l hl; simpa using hl
  | cons c inc hsw _ _ ih =>
    intro l hl
    have := ih _ (hl.append_sweep_call hsw c.2 inc c)
    simpa using this




def SvcOK (s : St) : Prop :=
  s.finished = true ∨
  match s.state with
  | .available => AllPolled s
  | .unavailable => AllPolled s
  | .restarting tok _ _ _ => tok < s.n ∧ ∀ j, j < s.n → j ≠ tok → (s.svc j).status.polled = true
  | .shutdown _ _ _ => True

/-- the log part of the invariant behind C07 -/
structure GoodLog (s : St) : Prop where
  guarded : Guarded s.n s.log
  fifo : handled s.log ++ s.queue = s.sent
  pairs : ErrCreate s.log

/-- the invariant behind C07 -/
structure Good (s : St) : Prop where
  svc : SvcOK s
  lg : GoodLog s

theorem GoodLog.plain {s s' : St} (h : GoodLog s) (es : List Ev) (hpl : ∀ e ∈ es, e.plain) (hlog : s'.log = s.log ++ es)
    (hn : s'.n = s.n) (hq : s'.queue = s.queue) (hs : s'.sent = s.sent) : GoodLog s' where
  guarded := by rw [hn, hlog]; exact h.guarded.append_nocall (fun e he => (hpl e he).1)
  fifo := by rw [hlog, hq, hs, handled_append, handled_plain hpl]; simpa using h.fifo
  pairs := by rw [hlog]; exact h.pairs.append (fun e he => ⟨(hpl e he).2.1, (hpl e he).2.2.1⟩)

theorem GoodLog.same {s s' : St} (h : GoodLog s) (hlog : s'.log = s.log)
    (hn : s'.n = s.n) (hq : s'.queue = s.queue) (hs : s'.sent = s.sent) : GoodLog s' :=
  h.plain [] (by simp) (by simp [hlog]) hn hq hs

theorem dropped_nocall (q : List Conn) : ∀ e ∈ q.map Ev.dropped, e.isCall = false ∧ e.isErr = false ∧ e.isCreate = false := by
  intro e he; simp at he; obtain ⟨a, b, _, rfl⟩ := he; exact ⟨rfl, rfl, rfl⟩

theorem GoodLog.finish {s : St} (h : GoodLog s) (b : Bool) : Good (finish s b) := by
  have hpl : ∀ e ∈ [Ev.done] ++ ((if b then [] else stateTx s.state) ++ goneEvs s.stopQ), e.plain := by
    intro e he
    simp only [List.mem_append, List.mem_singleton] at he
    rcases he with rfl | he | he
    · exact ⟨rfl, rfl, rfl, rfl⟩
    · split at he
      · simp at he
      · exact stateTx_plain _ e he
    · exact goneEvs_plain _ e he
  have hlog : (ActixNet.Worker.finish s b).log = s.log ++ ([Ev.done] ++ ((if b then [] else stateTx s.state) ++ goneEvs s.stopQ)) ++ s.queue.map .dropped := by
    simp [ActixNet.Worker.finish, emit]
  refine ⟨Or.inl rfl, ?_, ?_, ?_⟩
  · show Guarded s.n (ActixNet.Worker.finish s b).log
    rw [hlog]
    exact (h.guarded.append_nocall (fun e he => (hpl e he).1)).append_nocall (fun e he => (dropped_nocall _ e he).1)
  · show handled (ActixNet.Worker.finish s b).log ++ [] = s.sent
    rw [hlog]; simp only [handled_append, handled_plain hpl, handled_dropped]; simpa using h.fifo
  · rw [hlog]
    exact (h.pairs.append (fun e he => ⟨(hpl e he).2.1, (hpl e he).2.2.1⟩)).append (fun e he => (dropped_nocall _ e he).2)

theorem Good.setFault {s : St} (h : Good s) (f : Fault) : Good (setFault s f) := ⟨h.svc, h.lg.guarded, h.lg.fifo, h.lg.pairs⟩

theorem plain_reply (k : Nat) (b : Bool) : ∀ e ∈ [Ev.reply k b], e.plain := by
  intro e he; simp at he; subst he; exact ⟨rfl, rfl, rfl, rfl⟩

theorem stopPhase_nil {s : St} (h : s.stopQ = []) : stopPhase s = ({ s with stopWaker := true }, false) := by
  simp only [stopPhase, h]
theorem stopPhase_underflow {s : St} {k : Nat} {g : Bool} {rest : List (Nat × Bool)} (h : s.stopQ = (k, g) :: rest)
    (h0 : s.raw = 0) : stopPhase s = (setFault (emit { s with stopQ := rest } [.replyGone k]) .underflow, true) := by
  simp only [stopPhase, h, h0, if_true]
theorem stopPhase_idle {s : St} {k : Nat} {g : Bool} {rest : List (Nat × Bool)} (h : s.stopQ = (k, g) :: rest)
    (h0 : s.raw ≠ 0) (h1 : Src.wcTotal s.raw = 0) :
    stopPhase s = (finish (emit { s with stopQ := rest } [.reply k true]) false, true) := by
  simp only [stopPhase, h, h0, h1, if_true, if_false]
theorem stopPhase_graceful {s : St} {k : Nat} {rest : List (Nat × Bool)} (h : s.stopQ = (k, true) :: rest)
    (h0 : s.raw ≠ 0) (h1 : Src.wcTotal s.raw ≠ 0) :
    stopPhase s = ({ (emit (shutdownSvcs { s with stopQ := rest } false) (stateTx s.state ++ [.armTimer (s.now + Src.wkTickFirstMs)])) with
      state := .shutdown (s.now + Src.wkTickFirstMs) s.now k }, false) := by
  simp only [stopPhase, h, h0, h1, if_true, if_false]; rfl
theorem stopPhase_forced {s : St} {k : Nat} {rest : List (Nat × Bool)} (h : s.stopQ = (k, false) :: rest)
    (h0 : s.raw ≠ 0) (h1 : Src.wcTotal s.raw ≠ 0) :
    stopPhase s = (finish (emit (shutdownSvcs { s with stopQ := rest } true) [.reply k false]) false, true) := by
  simp [stopPhase, h, h0, h1]

theorem Good.stopPhase {s : St} (h : Good s) : Good (stopPhase s).1 := by
  cases hq : s.stopQ with
  | nil => rw [stopPhase_nil hq]; exact ⟨h.svc, h.lg.guarded, h.lg.fifo, h.lg.pairs⟩
  | cons a rest =>
    obtain ⟨k, g⟩ := a
    by_cases h0 : s.raw = 0
    · rw [stopPhase_underflow hq h0]
      refine Good.setFault (s := emit { s with stopQ := rest } [.replyGone k]) ⟨h.svc, h.lg.plain (s' := emit { s with stopQ := rest } [.replyGone k]) [.replyGone k] ?_ rfl rfl rfl rfl⟩ _
      intro e he; simp at he; subst he; exact ⟨rfl, rfl, rfl, rfl⟩
    · by_cases h1 : Src.wcTotal s.raw = 0
      · rw [stopPhase_idle hq h0 h1]
        apply GoodLog.finish
        exact h.lg.plain [.reply k true] (plain_reply _ _) rfl rfl rfl rfl
      · cases g with
        | true =>
          rw [stopPhase_graceful hq h0 h1]
          refine ⟨Or.inr trivial, h.lg.plain (stateTx s.state ++ [.armTimer (s.now + Src.wkTickFirstMs)]) ?_ rfl rfl rfl rfl⟩
          intro e he; simp only [List.mem_append, List.mem_singleton] at he
          rcases he with he | rfl
          · exact stateTx_plain _ e he
          · exact ⟨rfl, rfl, rfl, rfl⟩
        | false =>
          rw [stopPhase_forced hq h0 h1]
          apply GoodLog.finish
          exact h.lg.plain [.reply k false] (plain_reply _ _) rfl rfl rfl rfl

/-- `stopPhase` either ends the poll or leaves `finished` alone -/
theorem stopPhase_finished (s : St) (h : (stopPhase s).2 = false) : (stopPhase s).1.finished = s.finished := by
  cases hq : s.stopQ with
  | nil => rw [stopPhase_nil hq]
  | cons a rest =>
    obtain ⟨k, g⟩ := a
    by_cases h0 : s.raw = 0
    · rw [stopPhase_underflow hq h0] at h; simp at h
    · by_cases h1 : Src.wcTotal s.raw = 0
      · rw [stopPhase_idle hq h0 h1] at h; simp at h
      · cases g with
        | true => rw [stopPhase_graceful hq h0 h1]; rfl
        | false => rw [stopPhase_forced hq h0 h1] at h; simp at h




/-- what `release` leaves untouched -/
def core3 (s : St) := (s.n, s.svc, s.timeout, s.state, s.chanOpen, s.stopQ, s.now, s.inflight, s.sent, s.nextConn, s.nextStop, s.finished, s.stopWaker, s.connWaker)

theorem release_spec (q : List Conn) : ∀ (s : St), core3 (release s q) = core3 s ∧
    ∃ cs, (release s q).log = s.log ++ cs.map .released ∧ q = cs ++ (release s q).queue ∧
      (release s q).raw + cs.length = s.raw ∧
      (((release s q).fault = s.fault ∧ (release s q).queue = []) ∨ ((release s q).fault = some .underflow ∧ (release s q).raw = 0)) := by
  induction q with
  | nil => intro s; exact ⟨rfl, [], by simp [release]⟩
  | cons c q ih =>
    intro s
    simp only [release]
    split
    · rename_i h0
      exact ⟨rfl, [], by simp [setFault, h0]⟩
    · rename_i h0
      obtain ⟨h1, cs, h2, h3, h4, h5⟩ := ih { (emit s [.released c]) with raw := s.raw - 1 }
      refine ⟨h1, c :: cs, by rw [h2]; simp, by simp; exact h3, ?_, h5⟩
      simp at h4 ⊢; omega

theorem released_nocall (q : List Conn) : ∀ e ∈ q.map Ev.released, e.isCall = false ∧ e.isErr = false ∧ e.isCreate = false := by
  intro e he; simp at he; obtain ⟨a, b, _, rfl⟩ := he; exact ⟨rfl, rfl, rfl⟩

theorem GoodLog.release {s : St} (h : GoodLog s) : GoodLog (release s s.queue) := by
  obtain ⟨hc, cs, h2, h3, _, _⟩ := release_spec s.queue s
  simp only [core3, Prod.mk.injEq] at hc
  refine ⟨?_, ?_, ?_⟩
  · rw [hc.1, h2]; exact h.guarded.append_nocall (fun e he => (released_nocall _ e he).1)
  · rw [h2, handled_append, handled_released, hc.2.2.2.2.2.2.2.2.1, ← h.fifo, List.append_assoc, ← h3]
  · rw [h2]; exact h.pairs.append (fun e he => (released_nocall _ e he).2)

theorem release_svcOK {s : St} (q : List Conn) (h : SvcOK s) : SvcOK (release s q) := by
  obtain ⟨hc, _⟩ := release_spec q s
  simp only [core3, Prod.mk.injEq] at hc
  unfold SvcOK AllPolled at h ⊢
  rw [hc.1, hc.2.1, hc.2.2.2.1, hc.2.2.2.2.2.2.2.2.2.2.2.1]; exact h

theorem Good.shutdownArm {s : St} (h : Good s) (t sf tx : Nat) :
    Good (shutdownArm s t sf tx) := by
  have hr : Good (release s s.queue) := ⟨release_svcOK _ h.svc, h.lg.release⟩
  have hg2 : Good (drained s) := by
    unfold drained; split
    · exact ⟨hr.svc, hr.lg.guarded, hr.lg.fifo, hr.lg.pairs⟩
    · exact hr
  simp only [ActixNet.Worker.shutdownArm]
  split
  · exact hr
  · split
    · exact hg2
    · split
      · exact hg2.setFault _
      · split
        · exact (hg2.lg.plain (s' := emit (drained s) [.reply tx true]) [.reply tx true] (plain_reply _ _) rfl rfl rfl rfl).finish _
        · split
          · exact (hg2.lg.plain (s' := emit (drained s) [.reply tx false]) [.reply tx false] (plain_reply _ _) rfl rfl rfl rfl).finish _
          · refine ⟨Or.inr trivial, hg2.lg.plain [.armTimer ((drained s).now + Src.wkTickNextMs)] ?_ rfl rfl rfl rfl⟩
            intro e he; simp at he; subst he; exact ⟨rfl, rfl, rfl, rfl⟩

theorem arm_unavail_true {s s1 : St} (hst : s.state = .unavailable) (h : sweep s = (s1, .ok true)) :
    arm s = ({ s1 with state := .available }, true) := by simp only [arm, hst, h]
theorem arm_unavail_false {s s1 : St} (hst : s.state = .unavailable) (h : sweep s = (s1, .ok false)) :
    arm s = (s1, false) := by simp only [arm, hst, h]
theorem arm_unavail_err {s s1 : St} {i : Nat} (hst : s.state = .unavailable) (h : sweep s = (s1, .err i)) :
    arm s = (restartService s1 i, true) := by simp only [arm, hst, h]
theorem arm_restarting_pending {s : St} {tok k : Nat} {fok : Bool} {sc : List Rd} (hst : s.state = .restarting tok (k + 1) fok sc) :
    arm s = ({ (emit s [.facPoll tok .pending]) with state := .restarting tok k fok sc }, false) := by simp only [arm, hst]
theorem arm_restarting_ok {s : St} {tok : Nat} {sc : List Rd} (hst : s.state = .restarting tok 0 true sc) :
    arm s = (created (emit s [.facPoll tok .ok]) tok sc, true) := by simp [arm, hst]
theorem arm_restarting_err {s : St} {tok : Nat} {sc : List Rd} (hst : s.state = .restarting tok 0 false sc) :
    arm s = (setFault (emit s [.facPoll tok .err]) .factoryErr, false) := by simp [arm, hst]
theorem arm_shutdown {s : St} {t sf tx : Nat} (hst : s.state = .shutdown t sf tx) :
    arm s = (shutdownArm s t sf tx, false) := by simp only [arm, hst]
theorem arm_avail_pending {s s1 : St} (hst : s.state = .available) (h : availLoop s s.queue = (s1, .pending)) :
    arm s = (s1, false) := by simp only [arm, hst, h]
theorem arm_avail_closed {s s1 : St} (hst : s.state = .available) (h : availLoop s s.queue = (s1, .closed)) :
    arm s = closedArm s1 := by simp only [arm, hst, h]

theorem closedArm_nil_open {s : St} (hq : s.stopQ = []) (ho : s.stopOpen = true) :
    closedArm s = ({ s with stopWaker := true }, false) := by simp [closedArm, hq, ho]
theorem closedArm_nil_closed {s : St} (hq : s.stopQ = []) (ho : s.stopOpen = false) :
    closedArm s = (finish s false, false) := by simp [closedArm, hq, ho]
theorem closedArm_cons {s : St} {a : Nat × Bool} {rest : List (Nat × Bool)} (hq : s.stopQ = a :: rest) :
    closedArm s = ((stopPhase s).1, !(stopPhase s).2) := by simp only [closedArm, hq]

/-- case analysis of the `None` arm -/
theorem closedArm_cases (s : St) :
    (s.stopQ = [] ∧ s.stopOpen = true ∧ closedArm s = ({ s with stopWaker := true }, false)) ∨
    (s.stopQ = [] ∧ s.stopOpen = false ∧ closedArm s = (finish s false, false)) ∨
    (s.stopQ ≠ [] ∧ closedArm s = ((stopPhase s).1, !(stopPhase s).2)) := by
  by_cases hq : s.stopQ = []
  · by_cases ho : s.stopOpen = true
    · exact Or.inl ⟨hq, ho, closedArm_nil_open hq ho⟩
    · have ho' : s.stopOpen = false := by simpa using ho
      exact Or.inr (Or.inl ⟨hq, ho', closedArm_nil_closed hq ho'⟩)
  · obtain ⟨a, rest, h⟩ := List.exists_cons_of_ne_nil hq
    exact Or.inr (Or.inr ⟨hq, closedArm_cons h⟩)

theorem arm_avail_unavail {s s1 : St} (hst : s.state = .available) (h : availLoop s s.queue = (s1, .toUnavailable)) :
    arm s = ({ s1 with state := .unavailable }, true) := by simp only [arm, hst, h]
theorem arm_avail_restart {s s1 : St} {i : Nat} (hst : s.state = .available) (h : availLoop s s.queue = (s1, .restart i)) :
    arm s = (restartService s1 i, true) := by simp only [arm, hst, h]
theorem arm_avail_fault {s s1 : St} (hst : s.state = .available) (h : availLoop s s.queue = (s1, .fault)) :
    arm s = (s1, false) := by simp only [arm, hst, h]

theorem plain_fac (i : Nat) (r : FacRes) : ∀ e ∈ [Ev.facPoll i r], e.plain := by
  intro e he; simp at he; subst he; exact ⟨rfl, rfl, rfl, rfl⟩

theorem PRNoErr.nocall {evs : List Ev} (h : PRNoErr evs) : ∀ e ∈ evs, e.isCall = false := by
  intro e he; have := (h e he).1; cases e <;> simp_all [Ev.isPR, Ev.isCall]
theorem PRNoErr.noErrCreate {evs : List Ev} (h : PRNoErr evs) : ∀ e ∈ evs, e.isErr = false ∧ e.isCreate = false := by
  intro e he; have := h e he; cases e <;> simp_all [Ev.isPR, Ev.isCreate]
theorem PRNoErr.isPR {evs : List Ev} (h : PRNoErr evs) : ∀ e ∈ evs, e.isPR = true := fun e he => (h e he).1

/-- a sweep (or the tail of the `Available` loop) that did not fail -/
theorem GoodLog.sweepOk {s s' : St} (h : GoodLog s) {evs : List Ev} (he : PRNoErr evs) (hlog : s'.log = s.log ++ evs)
    (hn : s'.n = s.n) (hq : s'.queue = s.queue) (hs : s'.sent = s.sent) : GoodLog s' where
  guarded := by rw [hn, hlog]; exact h.guarded.append_nocall he.nocall
  fifo := by rw [hlog, hq, hs, handled_append, handled_PR he.isPR]; simpa using h.fifo
  pairs := by rw [hlog]; exact h.pairs.append he.noErrCreate

/-- a sweep that failed at service `i`, followed by `restart_service` -/
theorem GoodLog.sweepErr {s s' : St} (h : GoodLog s) {evs : List Ev} {i inc : Nat} (he : PRNoErr evs)
    (hlog : s'.log = s.log ++ evs ++ [.pollReady i inc .err] ++ [.createService i])
    (hn : s'.n = s.n) (hq : s'.queue = s.queue) (hs : s'.sent = s.sent) : GoodLog s' where
  guarded := by
    rw [hn, hlog]
    refine ((h.guarded.append_nocall he.nocall).append_nocall ?_).append_nocall ?_ <;>
      (intro e hm; simp at hm; subst hm; rfl)
  fifo := by
    have a1 : handled [Ev.pollReady i inc .err] = [] := rfl
    have a2 : handled [Ev.createService i] = [] := rfl
    rw [hlog, hq, hs]; simp only [handled_append, handled_PR he.isPR, a1, a2, List.append_nil]; exact h.fifo
  pairs := by
    rw [hlog, List.append_assoc (s.log ++ evs)]
    exact (h.pairs.append he.noErrCreate).append_restart i inc

theorem restartService_frame (s : St) (i : Nat) :
    (restartService s i).log = s.log ++ [.createService i] ∧ (restartService s i).n = s.n ∧
    (restartService s i).queue = s.queue ∧ (restartService s i).sent = s.sent ∧ (restartService s i).finished = s.finished ∧
    (∀ j, j ≠ i → (restartService s i).svc j = s.svc j) ∧
    ∃ a b c, (restartService s i).state = .restarting i a b c := by
  refine ⟨rfl, rfl, rfl, rfl, rfl, ?_, _, _, _, rfl⟩
  intro j hj; simp [restartService, upd, hj, emit]

theorem restartService_svcOK {s : St} {i : Nat} (hi : i < s.n) (hp : ∀ j, j < s.n → j ≠ i → (s.svc j).status.polled = true) :
    SvcOK (restartService s i) := by
  obtain ⟨_, hn, _, _, _, hsv, a, b, c, hst⟩ := restartService_frame s i
  refine Or.inr ?_
  rw [hst]
  refine ⟨hn ▸ hi, fun j hj hne => ?_⟩
  rw [hsv j hne]; exact hp j (hn ▸ hj) hne

theorem Good.arm {s : St} (h : Good s) (hf : s.finished = false) :
    Good (arm s).1 ∧ ((arm s).2 = true → (arm s).1.finished = false) := by
  have hsv := h.svc
  unfold SvcOK at hsv
  rw [hf] at hsv; simp only [Bool.false_eq_true, false_or] at hsv
  cases hst : s.state with
  | unavailable =>
    rw [hst] at hsv
    rcases hsw : sweep s with ⟨s1, r⟩
    have hc := sweep_n hsw
    simp only [core, Prod.mk.injEq] at hc
    obtain ⟨c1, c2, c3, c4, c5, c6, c7, c8, c9, c10, c11, c12, c13, c14, c15, c16⟩ := hc
    cases r with
    | ok b =>
      obtain ⟨a, evs, d, e, _⟩ := sweep_ok_spec hsw hsv
      cases b with
      | true =>
        rw [arm_unavail_true hst hsw]
        exact ⟨⟨Or.inr a, h.lg.sweepOk e d c1 c4 c10⟩, fun _ => c13.trans hf⟩
      | false =>
        rw [arm_unavail_false hst hsw]
        refine ⟨⟨Or.inr ?_, h.lg.sweepOk e d c1 c4 c10⟩, by simp⟩
        rw [c3, hst]; exact a
    | err i =>
      obtain ⟨a, b, c, evs, inc, d, e⟩ := sweep_err_spec hsw hsv
      rw [arm_unavail_err hst hsw]
      obtain ⟨f1, f2, f3, f4, f5, _⟩ := restartService_frame s1 i
      refine ⟨⟨restartService_svcOK (c1 ▸ a) (c1 ▸ c), h.lg.sweepErr e (by rw [f1, d]) (f2.trans c1) (f3.trans c4) (f4.trans c10)⟩, fun _ => f5.trans (c13.trans hf)⟩
  | restarting tok fp fok sc =>
    rw [hst] at hsv
    cases fp with
    | succ k =>
      rw [arm_restarting_pending hst]
      exact ⟨⟨Or.inr hsv, h.lg.plain _ (plain_fac _ _) rfl rfl rfl rfl⟩, by simp⟩
    | zero =>
      cases fok with
      | true =>
        rw [arm_restarting_ok hst]
        refine ⟨⟨Or.inr ?_, h.lg.plain _ (plain_fac tok .ok) rfl rfl rfl rfl⟩, fun _ => hf⟩
        show AllPolled (created (emit s [.facPoll tok .ok]) tok sc)
        intro j hj
        by_cases hjt : j = tok
        · subst hjt; simp [created, upd, Status.polled]
        · have : (created (emit s [.facPoll tok .ok]) tok sc).svc j = s.svc j := by simp [created, upd, hjt, emit]
          rw [this]; exact hsv.2 j hj hjt
      | false =>
        rw [arm_restarting_err hst]
        exact ⟨Good.setFault (s := emit s [.facPoll tok .err]) ⟨h.svc, h.lg.plain (s' := emit s [.facPoll tok .err]) _ (plain_fac tok .err) rfl rfl rfl rfl⟩ _, by simp⟩
  | shutdown t sf tx =>
    rw [arm_shutdown hst]
    exact ⟨h.shutdownArm t sf tx, by simp⟩
  | available =>
    rw [hst] at hsv
    have hsp := availLoop_spec s.queue s hsv
    rcases hal : availLoop s s.queue with ⟨s1, r⟩
    rw [hal] at hsp
    obtain ⟨k1, k2, ⟨tr, cs, last, g1, g2, g3, g4, g5, g6, g7⟩, k4, k5, k6, k7⟩ := hsp
    simp only [core2, Prod.mk.injEq] at k1
    obtain ⟨c1, c2, c3, c4, c5, c6, c7, c8, c9, c10, c11, c12⟩ := k1
    -- the log after the served connections
    have hmid : GoodLog { s with log := s.log ++ tr, queue := s1.queue } := by
      refine ⟨g2.guarded _ h.lg.guarded, ?_, h.lg.pairs.append g2.noErrCreate⟩
      show handled (s.log ++ tr) ++ s1.queue = s.sent
      rw [handled_append, g2.handled, List.append_assoc, ← g3]; exact h.lg.fifo
    cases r with
    | pending =>
      rw [arm_avail_pending hst hal]
      refine ⟨⟨Or.inr ?_, hmid.sweepOk (g6 (by simp)) g1 c1 rfl c8⟩, by simp⟩
      rw [c3, hst]; exact k5 (by simp)
    | closed =>
      rw [arm_avail_closed hst hal]
      have hl1 : GoodLog s1 := hmid.sweepOk (s' := s1) (g6 (by simp)) g1 c1 rfl c8
      have hg1 : Good s1 := ⟨Or.inr (by rw [c3, hst]; exact k5 (by simp)), hl1⟩
      rcases closedArm_cases s1 with ⟨_, _, e⟩ | ⟨_, _, e⟩ | ⟨_, e⟩ <;> rw [e]
      · exact ⟨⟨hg1.svc, hl1.guarded, hl1.fifo, hl1.pairs⟩, by simp⟩
      · exact ⟨hl1.finish _, by simp⟩
      · refine ⟨hg1.stopPhase, fun h => ?_⟩
        simp only [Bool.not_eq_eq_eq_not, Bool.not_true] at h
        exact (stopPhase_finished s1 h).trans (c11.trans hf)
    | toUnavailable =>
      rw [arm_avail_unavail hst hal]
      exact ⟨⟨Or.inr (k5 (by simp)), hmid.sweepOk (g6 (by simp)) g1 c1 rfl c8⟩, fun _ => c11.trans hf⟩
    | restart i =>
      rw [arm_avail_restart hst hal]
      obtain ⟨evs, inc, e1, e2⟩ := g5 i rfl
      obtain ⟨a, b, c⟩ := k4 i rfl
      obtain ⟨f1, f2, f3, f4, f5, _⟩ := restartService_frame s1 i
      refine ⟨⟨restartService_svcOK (c1 ▸ a) (c1 ▸ c), hmid.sweepErr (i := i) (inc := inc) e2 (by show _ = s.log ++ tr ++ evs ++ [_] ++ [_]; rw [f1, g1, e1]; simp only [List.append_assoc]) (f2.trans c1) f3 (f4.trans c8)⟩, fun _ => f5.trans (c11.trans hf)⟩
    | fault =>
      rw [arm_avail_fault hst hal]
      refine ⟨⟨Or.inr ?_, hmid.sweepOk (g6 (by simp)) g1 c1 rfl c8⟩, by simp⟩
      rw [c3, hst]; exact k5 (by simp)




theorem Good.body {s : St} (h : Good s) (hf : s.finished = false) :
    Good (body s).1 ∧ ((body s).2 = true → (body s).1.finished = false) := by
  unfold ActixNet.Worker.body
  split
  · exact ⟨h.stopPhase, by simp⟩
  · rename_i hc
    simp only [Bool.or_eq_true, not_or, Bool.not_eq_true] at hc
    exact h.stopPhase.arm ((stopPhase_finished s hc.1).trans hf)

theorem Good.pollW (f : Nat) : ∀ (s : St), Good s → s.finished = false → Good (pollW f s) := by
  induction f with
  | zero => intro s h _; exact h.setFault _
  | succ f ih =>
    intro s h hf
    simp only [ActixNet.Worker.pollW]
    obtain ⟨h1, h2⟩ := h.body hf
    split
    · rename_i hb; exact ih _ h1 (h2 hb)
    · exact h1

theorem Good.step {s : St} (h : Good s) (op : Op) : Good (step s op).1 := by
  cases op with
  | conn tok =>
    simp only [ActixNet.Worker.step]
    split
    · exact h
    · split
      · exact h
      · refine ⟨h.svc, h.lg.guarded, ?_, h.lg.pairs⟩
        show handled s.log ++ (s.queue ++ [(s.nextConn, tok)]) = s.sent ++ [(s.nextConn, tok)]
        rw [← List.append_assoc, h.lg.fifo]
  | send tok =>
    simp only [ActixNet.Worker.step]
    split
    · exact h
    · split
      · exact h
      · refine ⟨h.svc, h.lg.guarded, ?_, h.lg.pairs⟩
        show handled s.log ++ (s.queue ++ [(s.nextConn, tok)]) = s.sent ++ [(s.nextConn, tok)]
        rw [← List.append_assoc, h.lg.fifo]
  | inc =>
    simp only [ActixNet.Worker.step]
    split
    · exact h
    · exact ⟨h.svc, h.lg.guarded, h.lg.fifo, h.lg.pairs⟩
  | closeChan =>
    simp only [ActixNet.Worker.step]
    split
    · exact h
    · exact ⟨h.svc, h.lg.guarded, h.lg.fifo, h.lg.pairs⟩
  | closeStop =>
    simp only [ActixNet.Worker.step]
    split
    · exact h
    · exact ⟨h.svc, h.lg.guarded, h.lg.fifo, h.lg.pairs⟩
  | pollY fuel acts => exact h
  | stop g =>
    simp only [ActixNet.Worker.step]
    split
    · exact h
    · split
      · refine ⟨h.svc, h.lg.plain (s' := emit { s with nextStop := s.nextStop + 1 } [.replyGone s.nextStop]) [.replyGone s.nextStop] ?_ rfl rfl rfl rfl⟩
        intro e he; simp at he; subst he; exact ⟨rfl, rfl, rfl, rfl⟩
      · exact ⟨h.svc, h.lg.guarded, h.lg.fifo, h.lg.pairs⟩
  | finish id =>
    simp only [ActixNet.Worker.step]
    split
    · exact h
    · split
      · exact ⟨h.svc, h.lg.guarded, h.lg.fifo, h.lg.pairs⟩
      · exact h
  | advance ms =>
    simp only [ActixNet.Worker.step]
    split
    · exact h
    · exact ⟨h.svc, h.lg.guarded, h.lg.fifo, h.lg.pairs⟩
  | poll fuel =>
    simp only [ActixNet.Worker.step]
    split
    · exact h
    · rename_i hc
      simp only [Bool.or_eq_true, not_or, Bool.not_eq_true] at hc
      refine Good.pollW fuel _ ⟨h.svc, h.lg.plain (s' := emit s [.enter]) [.enter] ?_ rfl rfl rfl rfl⟩ hc.2
      intro e he; simp at he; subst he; exact ⟨rfl, rfl, rfl, rfl⟩

theorem EnvOp.step_finished (s : St) (a : EnvOp) : (step s a.toOp).1.finished = s.finished := by
  cases a <;> simp only [EnvOp.toOp, ActixNet.Worker.step] <;> (try split) <;> (try split) <;> rfl

theorem Good.runEnv (acts : List EnvOp) : ∀ (s : St), Good s → Good (ActixNet.Worker.runEnv s acts).1 := by
  induction acts with
  | nil => intro s h; exact h
  | cons a as ih => intro s h; exact ih _ (h.step a.toOp)

theorem runEnv_finished (acts : List EnvOp) : ∀ (s : St), (runEnv s acts).1.finished = s.finished := by
  induction acts with
  | nil => intro s; rfl
  | cons a as ih => intro s; simp only [ActixNet.Worker.runEnv]; rw [ih, EnvOp.step_finished]

theorem Good.pollY {s : St} (h : Good s) (hf : s.finished = false) (fuel : Nat) (acts : List EnvOp) :
    Good (ActixNet.Worker.pollY fuel acts s).1 := by
  unfold ActixNet.Worker.pollY
  split
  · exact h.stopPhase
  · rename_i hc
    simp only [Bool.or_eq_true, not_or, Bool.not_eq_true] at hc
    have hf1 : (ActixNet.Worker.runEnv (ActixNet.Worker.stopPhase s).1 acts).1.finished = false := by
      rw [runEnv_finished, stopPhase_finished s hc.1]; exact hf
    obtain ⟨h1, h2⟩ := (Good.runEnv acts _ h.stopPhase).arm hf1
    split
    · rename_i hb; exact Good.pollW fuel _ h1 (h2 hb)
    · exact h1

theorem Good.stepY {s : St} (h : Good s) (op : Op) : Good (ActixNet.Worker.stepY s op).1 := by
  cases op with
  | pollY fuel acts =>
    simp only [ActixNet.Worker.stepY]
    split
    · exact h
    · rename_i hc
      simp only [Bool.or_eq_true, not_or, Bool.not_eq_true] at hc
      have hg' : Good (emit s [.enter]) := ⟨h.svc, h.lg.plain (s' := emit s [.enter]) [.enter] (by intro e he; simp at he; subst he; exact ⟨rfl, rfl, rfl, rfl⟩) rfl rfl rfl rfl⟩
      exact Good.pollY hg' hc.2 fuel acts
  | _ => exact h.step _

theorem Good.init (cfg : Cfg) : Good (init cfg) := by
  refine ⟨Or.inr ?_, ?_, rfl, ?_⟩
  · show AllPolled (ActixNet.Worker.init cfg)
    intro j _; rfl
  · intro k tok inc c hk; simp [ActixNet.Worker.init] at hk
  · exact ⟨fun k i inc hk => by simp [ActixNet.Worker.init] at hk, fun k i hk => by simp [ActixNet.Worker.init] at hk⟩

theorem Good.run (ops : List Op) : ∀ (s : St), Good s → Good (run s ops) := by
  induction ops with
  | nil => intro s h; exact h
  | cons o os ih => intro s h; exact ih _ (h.stepY o)




theorem shutdownArm_n (s : St) (t sf tx : Nat) : (shutdownArm s t sf tx).n = s.n := by
  have hr : (release s s.queue).n = s.n := by
    obtain ⟨hc, _⟩ := release_spec s.queue s
    simp only [core3, Prod.mk.injEq] at hc; exact hc.1
  have hd : (drained s).n = s.n := by unfold drained; split <;> exact hr
  simp only [shutdownArm]
  split
  · exact hr
  · split
    · exact hd
    · split
      · exact hd
      · split
        · exact hd
        · split <;> exact hd

theorem stopPhase_n (s : St) : (stopPhase s).1.n = s.n := by
  cases hq : s.stopQ with
  | nil => rw [stopPhase_nil hq]
  | cons a rest =>
    obtain ⟨k, g⟩ := a
    by_cases h0 : s.raw = 0
    · rw [stopPhase_underflow hq h0]; rfl
    · by_cases h1 : Src.wcTotal s.raw = 0
      · rw [stopPhase_idle hq h0 h1]; rfl
      · cases g with
        | true => rw [stopPhase_graceful hq h0 h1]; rfl
        | false => rw [stopPhase_forced hq h0 h1]; rfl

theorem availLoop_core2 (q : List Conn) : ∀ (s : St), core2 (availLoop s q).1 = core2 s := by
  induction q with
  | nil =>
    intro s
    rcases hsw : sweep s with ⟨s1, r⟩
    have hc2 := core_core2 (sweep_n hsw)
    cases r with
    | err i => rw [availLoop_nil_err hsw]; exact hc2
    | ok b => cases b with
      | false => rw [availLoop_nil_false hsw]; exact hc2
      | true => cases hco : s1.chanOpen with
        | true => rw [availLoop_nil_open hsw hco]; exact hc2
        | false => rw [availLoop_nil_closed hsw hco]; exact hc2
  | cons c q ih =>
    intro s
    rcases hsw : sweep s with ⟨s1, r⟩
    have hc2 := core_core2 (sweep_n hsw)
    cases r with
    | err i => rw [availLoop_cons_err c q hsw]; exact hc2
    | ok b => cases b with
      | false => rw [availLoop_cons_false c q hsw]; exact hc2
      | true =>
        by_cases htok : c.2 < s1.n
        · rw [availLoop_cons_call c q hsw htok, ih]; exact hc2
        · rw [availLoop_cons_bad c q hsw htok]; exact hc2

theorem arm_n (s : St) : (arm s).1.n = s.n := by
  cases hst : s.state with
  | unavailable =>
    rcases hsw : sweep s with ⟨s1, r⟩
    have hn : s1.n = s.n := congrArg (·.1) (sweep_n hsw)
    cases r with
    | ok b => cases b with
      | true => rw [arm_unavail_true hst hsw]; exact hn
      | false => rw [arm_unavail_false hst hsw]; exact hn
    | err i => rw [arm_unavail_err hst hsw]; exact hn
  | restarting tok fp fok sc =>
    cases fp with
    | succ k => rw [arm_restarting_pending hst]; rfl
    | zero => cases fok with
      | true => rw [arm_restarting_ok hst]; rfl
      | false => rw [arm_restarting_err hst]; rfl
  | shutdown t sf tx => rw [arm_shutdown hst]; exact shutdownArm_n _ _ _ _
  | available =>
    rcases hal : availLoop s s.queue with ⟨s1, r⟩
    have hn : s1.n = s.n := by
      have := availLoop_core2 s.queue s; rw [hal] at this; exact congrArg (·.1) this
    cases r with
    | pending => rw [arm_avail_pending hst hal]; exact hn
    | closed =>
      rw [arm_avail_closed hst hal]
      rcases closedArm_cases s1 with ⟨_, _, e⟩ | ⟨_, _, e⟩ | ⟨_, e⟩ <;> rw [e]
      · exact hn
      · exact hn
      · exact (stopPhase_n s1).trans hn
    | toUnavailable => rw [arm_avail_unavail hst hal]; exact hn
    | restart i => rw [arm_avail_restart hst hal]; exact hn
    | fault => rw [arm_avail_fault hst hal]; exact hn

theorem body_n (s : St) : (body s).1.n = s.n := by
  unfold body; split
  · exact stopPhase_n s
  · rw [arm_n, stopPhase_n]

theorem pollW_n (f : Nat) : ∀ (s : St), (pollW f s).n = s.n := by
  induction f with
  | zero => intro s; rfl
  | succ f ih =>
    intro s; simp only [pollW]; split
    · rw [ih, body_n]
    · exact body_n s

theorem step_n (s : St) (op : Op) : (step s op).1.n = s.n := by
  cases op <;> simp only [step] <;> (try split) <;> (try split) <;> (try rfl)
  exact pollW_n _ _

theorem runEnv_n (acts : List EnvOp) : ∀ (s : St), (runEnv s acts).1.n = s.n := by
  induction acts with
  | nil => intro s; rfl
  | cons a as ih => intro s; simp only [runEnv]; rw [ih, step_n]

theorem pollY_n (fuel : Nat) (acts : List EnvOp) (s : St) : (pollY fuel acts s).1.n = s.n := by
  unfold pollY
  split
  · exact stopPhase_n s
  · split
    · rw [pollW_n, arm_n, runEnv_n, stopPhase_n]
    · rw [arm_n, runEnv_n, stopPhase_n]

theorem stepY_n (s : St) (op : Op) : (stepY s op).1.n = s.n := by
  cases op with
  | pollY fuel acts =>
    simp only [stepY]; split
    · rfl
    · exact pollY_n _ _ _
  | _ => exact step_n _ _

theorem run_n (ops : List Op) : ∀ (s : St), (run s ops).n = s.n := by
  induction ops with
  | nil => intro s; rfl
  | cons o os ih => intro s; simp only [run]; rw [ih, stepY_n]




/-- every service will answer `Ready` from now on -/
def Calm (s : St) : Prop := ∀ i, ∀ r ∈ (s.svc i).script, r = Rd.ready

theorem rdOf_calm {s : St} (h : Calm s) (i : Nat) : rdOf s i = .ready := by
  unfold rdOf nextRd
  cases hsc : (s.svc i).script with
  | nil => rfl
  | cons r t => exact h i r (by rw [hsc]; simp)

theorem readyStep_calm {s : St} (h : Calm s) (i : Nat) : Calm (readyStep s i) := by
  intro j r hr
  rw [readyStep_svc] at hr
  split at hr
  · rename_i hji; subst hji
    apply h j r
    simp only [nextRd] at hr
    cases hsc : (s.svc j).script with
    | nil => rw [hsc] at hr; simp at hr
    | cons a t => rw [hsc] at hr; simp at hr; simp [hr]
  · exact h j r hr

theorem sweepFrom_calm (k : Nat) : ∀ (s : St) (i : Nat) (r : Bool), Calm s →
    (sweepFrom s i r k).2 = .ok r ∧ Calm (sweepFrom s i r k).1 := by
  induction k with
  | zero => intro s i r h; exact ⟨rfl, h⟩
  | succ k ih =>
    intro s i r h
    rcases sweepFrom_cases s i r k with ⟨_, e⟩ | ⟨_, _, e⟩ | ⟨_, hr, e⟩ | ⟨_, hr, e⟩
    · rw [e]; exact ih _ _ _ h
    · rw [e]; exact ih _ _ _ (readyStep_calm h i)
    · rw [rdOf_calm h] at hr; cases hr
    · rw [rdOf_calm h] at hr; cases hr

theorem sweep_calm {s : St} (h : Calm s) : ∃ s1, sweep s = (s1, .ok true) ∧ Calm s1 := by
  obtain ⟨a, b⟩ := sweepFrom_calm s.n s 0 true h
  exact ⟨(sweep s).1, Prod.ext rfl a, b⟩

theorem availLoop_calm (q : List Conn) : ∀ (s : St), Calm s → s.chanOpen = true → (∀ c ∈ q, c.2 < s.n) →
    (availLoop s q).2 = .pending := by
  induction q with
  | nil =>
    intro s h ho _
    obtain ⟨s1, hsw, _⟩ := sweep_calm h
    have hc := sweep_n hsw
    simp only [core, Prod.mk.injEq] at hc
    rw [availLoop_nil_open hsw (hc.2.2.2.2.1.trans ho)]
  | cons c q ih =>
    intro s h ho htok
    obtain ⟨s1, hsw, hcalm⟩ := sweep_calm h
    have hc := sweep_n hsw
    simp only [core, Prod.mk.injEq] at hc
    have ht : c.2 < s1.n := by rw [hc.1]; exact htok c (by simp)
    rw [availLoop_cons_call c q hsw ht]
    exact ih _ hcalm (hc.2.2.2.2.1.trans ho) (fun c' hc' => by show c'.2 < s1.n; rw [hc.1]; exact htok c' (by simp [hc']))

/-- the calls the `Available` loop makes: one per connection, in queue order -/
def callsOf (l : List Ev) : List Conn := l.filterMap fun e => match e with | .call _ _ c => some c | _ => none

theorem callsOf_PR {m : List Ev} (h : ∀ e ∈ m, e.isPR = true) : callsOf m = [] := by
  simp only [callsOf, List.filterMap_eq_nil_iff]
  intro e he; have := h e he
  cases e <;> simp_all [Ev.isPR]

theorem LoopTrace.callsOf {n : Nat} {tr : List Ev} {cs : List Conn} (h : LoopTrace n tr cs) : callsOf tr = cs := by
  induction h with
  | nil => rfl
  | cons c inc hsw _ _ ih =>
    have h0 : ActixNet.Worker.callsOf _ = [] := callsOf_PR (m := _) (fun e he => by
      obtain ⟨i, hi, rfl⟩ := List.getElem_of_mem he
      obtain ⟨inc', h3⟩ := hsw.2 i (by rw [← hsw.1]; exact hi)
      rw [List.getElem?_eq_getElem hi] at h3
      simp at h3; rw [h3]; rfl)
    unfold ActixNet.Worker.callsOf at h0 ih ⊢
    rw [List.filterMap_append, h0]
    simp [ih]

/-- **serving resumes**: once every service answers `Ready`, one pass of the `Available` arm hands
every queued connection to its service, in order, and leaves the queue empty -/
theorem arm_available_calm {s : St} (hst : s.state = .available) (hp : AllPolled s) (hc : Calm s)
    (ho : s.chanOpen = true) (htok : ∀ c ∈ s.queue, c.2 < s.n) :
    (arm s).2 = false ∧ (arm s).1.queue = [] ∧ (arm s).1.inflight = s.inflight ++ s.queue ∧
    (arm s).1.fault = s.fault ∧ (arm s).1.finished = s.finished ∧
    ∃ evs, (arm s).1.log = s.log ++ evs ∧ callsOf evs = s.queue := by
  have hr := availLoop_calm s.queue s hc ho htok
  have hsp := availLoop_spec s.queue s hp
  rcases hal : availLoop s s.queue with ⟨s1, r⟩
  rw [hal] at hsp hr
  simp only at hr; subst hr
  rw [arm_avail_pending hst hal]
  obtain ⟨k1, _, ⟨tr, cs, last, g1, g2, g3, g4, _, g6, g7⟩, _, _, k6, _⟩ := hsp
  obtain ⟨g8, g9⟩ := g7 (Or.inl rfl)
  simp only at g9 g3 g4 g1
  rw [g9, List.append_nil] at g3
  simp only [core2, Prod.mk.injEq] at k1
  refine ⟨rfl, g9, by rw [g4, g3], k6 (by simp), k1.2.2.2.2.2.2.2.2.2.2.1, tr ++ last, by rw [g1, List.append_assoc], ?_⟩
  unfold callsOf
  rw [List.filterMap_append]
  have h1 := g2.callsOf
  have h2 := callsOf_PR (g6 (by simp)).isPR
  unfold callsOf at h1 h2
  rw [h1, h2, List.append_nil, g3]




theorem body_nostop {s : St} (hq : s.stopQ = []) (hfl : s.fault = none) : body s = arm { s with stopWaker := true } := by
  unfold body
  rw [stopPhase_nil hq]
  simp [hfl]

theorem callsOf_append (l m : List Ev) : callsOf (l ++ m) = callsOf l ++ callsOf m := by
  simp [callsOf]

theorem pollW_unavailable_calm {s : St} (hst : s.state = .unavailable) (hp : AllPolled s) (hc : Calm s)
    (ho : s.chanOpen = true) (htok : ∀ c ∈ s.queue, c.2 < s.n) (hq : s.stopQ = []) (hfl : s.fault = none)
    (hfin : s.finished = false) (f : Nat) :
    (pollW (f + 2) s).queue = [] ∧ (pollW (f + 2) s).inflight = s.inflight ++ s.queue ∧
    (pollW (f + 2) s).fault = none ∧ (pollW (f + 2) s).finished = false ∧
    ∃ evs, (pollW (f + 2) s).log = s.log ++ evs ∧ callsOf evs = s.queue := by
  -- first pass: the sweep finds every service ready
  obtain ⟨s1, hsw, hc1⟩ := sweep_calm (s := { s with stopWaker := true }) hc
  have hcore := sweep_n hsw
  simp only [core, Prod.mk.injEq] at hcore
  obtain ⟨c1, c2, c3, c4, c5, c6, c7, c8, c9, c10, c11, c12, c13, c14, c15, c16⟩ := hcore
  obtain ⟨hp1, evs1, hl1, he1, _⟩ := sweep_ok_spec hsw (s := { s with stopWaker := true }) hp
  have hb1 : body s = ({ s1 with state := .available }, true) := by
    rw [body_nostop hq hfl, arm_unavail_true (s := { s with stopWaker := true }) hst hsw]
  -- second pass: the `Available` loop serves the whole queue
  have hb2 : body { s1 with state := .available } = arm { s1 with state := .available, stopWaker := true } :=
    body_nostop (s := { s1 with state := .available }) (c6.trans hq) (c16.trans hfl)
  obtain ⟨a1, a2, a3, a4, a5, evs2, a6, a7⟩ := arm_available_calm (s := { s1 with state := .available, stopWaker := true })
    rfl hp1 hc1 (c5.trans ho) (fun c hc' => by show c.2 < s1.n; rw [c1]; exact htok c (by rw [← c4]; exact hc'))
  have hpw : pollW (f + 2) s = (arm { s1 with state := .available, stopWaker := true }).1 := by
    show (if (body s).2 then pollW (f + 1) (body s).1 else (body s).1) = _
    rw [hb1]; simp only [if_true]
    show (if (body { s1 with state := .available }).2 then _ else _) = _
    rw [hb2, a1]; simp
  rw [hpw]
  refine ⟨a2, by rw [a3]; show s1.inflight ++ s1.queue = _; rw [c9, c4], a4.trans (c16.trans hfl), a5.trans (c13.trans hfin), evs1 ++ evs2, ?_, ?_⟩
  · rw [a6]; show s1.log ++ evs2 = _; rw [hl1]; simp
  · rw [callsOf_append, callsOf_PR he1.isPR, a7]; show s1.queue = _; exact c4




/-! ### C06, worker half: the `Stop` handler and the `Shutdown` arm, exactly -/

theorem pollW_of_stop {s : St} (h : (stopPhase s).2 = true) (f : Nat) : pollW (f + 1) s = (stopPhase s).1 := by
  simp [pollW, body, h]

theorem pollW_stop_idle {s : St} {k : Nat} {g : Bool} {rest : List (Nat × Bool)} (hq : s.stopQ = (k, g) :: rest)
    (h0 : s.raw ≠ 0) (h1 : Src.wcTotal s.raw = 0) (f : Nat) :
    pollW (f + 1) s = finish (emit { s with stopQ := rest } [.reply k true]) false := by
  rw [pollW_of_stop (by rw [stopPhase_idle hq h0 h1]), stopPhase_idle hq h0 h1]

theorem pollW_stop_forced {s : St} {k : Nat} {rest : List (Nat × Bool)} (hq : s.stopQ = (k, false) :: rest)
    (h0 : s.raw ≠ 0) (h1 : Src.wcTotal s.raw ≠ 0) (f : Nat) :
    pollW (f + 1) s = finish (emit (shutdownSvcs { s with stopQ := rest } true) [.reply k false]) false := by
  rw [pollW_of_stop (by rw [stopPhase_forced hq h0 h1]), stopPhase_forced hq h0 h1]

theorem pollW_stop_graceful {s : St} {k : Nat} {rest : List (Nat × Bool)} (hq : s.stopQ = (k, true) :: rest)
    (h0 : s.raw ≠ 0) (h1 : Src.wcTotal s.raw ≠ 0) (hfl : s.fault = none) (f : Nat) :
    pollW (f + 1) s = shutdownArm ({ (emit (shutdownSvcs { s with stopQ := rest } false) (stateTx s.state ++ [.armTimer (s.now + Src.wkTickFirstMs)])) with
      state := .shutdown (s.now + Src.wkTickFirstMs) s.now k }) (s.now + Src.wkTickFirstMs) s.now k := by
  have hb : body s = arm ({ (emit (shutdownSvcs { s with stopQ := rest } false) (stateTx s.state ++ [.armTimer (s.now + Src.wkTickFirstMs)])) with
      state := .shutdown (s.now + Src.wkTickFirstMs) s.now k }) := by
    unfold body
    rw [stopPhase_graceful hq h0 h1]
    have : (emit (shutdownSvcs { s with stopQ := rest } false) (stateTx s.state ++ [.armTimer (s.now + Src.wkTickFirstMs)])).fault = none := hfl
    simp [this]
  simp only [pollW]
  rw [hb, arm_shutdown rfl]
  simp

theorem pollW_shutdown_nostop {s : St} {t sf tx : Nat} (hst : s.state = .shutdown t sf tx) (hq : s.stopQ = [])
    (hfl : s.fault = none) (f : Nat) : pollW (f + 1) s = shutdownArm { s with stopWaker := true } t sf tx := by
  simp only [pollW]
  rw [body_nostop hq hfl, arm_shutdown (s := { s with stopWaker := true }) hst]
  simp

/-- releasing a queue the counter covers: every connection is released, the counter goes down by one each -/
theorem release_ok (q : List Conn) : ∀ (s : St), q.length ≤ s.raw →
    release s q = { s with queue := [], raw := s.raw - q.length, log := s.log ++ q.map .released } := by
  induction q with
  | nil => intro s _; simp [release]
  | cons c q ih =>
    intro s h
    simp only [List.length_cons] at h
    simp only [release]
    rw [if_neg (by omega), ih _ (by simp [emit]; omega)]
    simp [emit, Nat.sub_sub, Nat.add_comm]




theorem callsOf_nil : callsOf [] = [] := rfl

theorem callsOf_plain {m : List Ev} (h : ∀ e ∈ m, e.isCall = false) : callsOf m = [] := by
  simp only [callsOf, List.filterMap_eq_nil_iff]
  intro e he; have := h e he
  cases e <;> simp_all [Ev.isCall]

/-- what the shutdown path leaves untouched -/
def core4 (s : St) := (s.n, s.timeout, s.chanOpen, s.now, s.inflight, s.sent, s.nextConn, s.nextStop)

theorem release_core4 (s : St) (q : List Conn) : core4 (release s q) = core4 s := by
  obtain ⟨hc, _⟩ := release_spec q s
  simp only [core3, Prod.mk.injEq] at hc
  simp only [core4, Prod.mk.injEq]
  exact ⟨hc.1, hc.2.2.1, hc.2.2.2.2.1, hc.2.2.2.2.2.2.1, hc.2.2.2.2.2.2.2.1, hc.2.2.2.2.2.2.2.2.1, hc.2.2.2.2.2.2.2.2.2.1, hc.2.2.2.2.2.2.2.2.2.2.1⟩

theorem release_quiet (s : St) (q : List Conn) : ∃ evs, (release s q).log = s.log ++ evs ∧ callsOf evs = [] := by
  obtain ⟨_, cs, h2, _⟩ := release_spec q s
  exact ⟨_, h2, callsOf_plain (fun e he => (released_nocall _ e he).1)⟩

theorem drained_core4 (s : St) : core4 (drained s) = core4 s := by
  unfold drained; split
  · exact release_core4 s s.queue
  · exact release_core4 s s.queue

theorem drained_quiet (s : St) : ∃ evs, (drained s).log = s.log ++ evs ∧ callsOf evs = [] := by
  unfold drained; split
  · exact release_quiet s s.queue
  · exact release_quiet s s.queue

theorem finish_core4 (s : St) (b : Bool) : core4 (finish s b) = core4 s := rfl

theorem finish_quiet (s : St) (b : Bool) : ∃ evs, (finish s b).log = s.log ++ evs ∧ callsOf evs = [] := by
  refine ⟨[.done] ++ ((if b then [] else stateTx s.state) ++ goneEvs s.stopQ) ++ s.queue.map .dropped, by simp [finish, emit], ?_⟩
  apply callsOf_plain
  intro e he
  simp only [List.mem_append, List.mem_singleton] at he
  rcases he with (rfl | he | he) | he
  · rfl
  · split at he
    · simp at he
    · exact (stateTx_plain _ e he).1
  · exact (goneEvs_plain _ e he).1
  · exact (dropped_nocall _ e he).1

theorem shutdownArm_fault {s : St} (t sf tx : Nat) (h : (release s s.queue).fault.isSome = true) :
    shutdownArm s t sf tx = release s s.queue := by simp only [shutdownArm, h, if_true]
theorem shutdownArm_pending {s : St} {t : Nat} (sf tx : Nat) (h : (release s s.queue).fault.isSome = false) (h1 : (drained s).now < t) :
    shutdownArm s t sf tx = drained s := by simp [shutdownArm, h, h1]
theorem shutdownArm_underflow {s : St} {t : Nat} (sf tx : Nat) (h : (release s s.queue).fault.isSome = false) (h1 : ¬ (drained s).now < t)
    (h2 : (drained s).raw = 0) : shutdownArm s t sf tx = setFault (drained s) .underflow := by simp [shutdownArm, h, h1, h2]
theorem shutdownArm_true {s : St} {t : Nat} (sf tx : Nat) (h : (release s s.queue).fault.isSome = false) (h1 : ¬ (drained s).now < t)
    (h2 : (drained s).raw ≠ 0) (h3 : Src.wcTotal (drained s).raw = 0) :
    shutdownArm s t sf tx = finish (emit (drained s) [.reply tx true]) true := by simp [shutdownArm, h, h1, h2, h3]
theorem shutdownArm_false {s : St} {t sf : Nat} (tx : Nat) (h : (release s s.queue).fault.isSome = false) (h1 : ¬ (drained s).now < t)
    (h2 : (drained s).raw ≠ 0) (h3 : Src.wcTotal (drained s).raw ≠ 0) (h4 : Src.wkTimedOut ((drained s).now - sf) (drained s).timeout = true) :
    shutdownArm s t sf tx = finish (emit (drained s) [.reply tx false]) true := by simp [shutdownArm, h, h1, h2, h3, h4]
theorem shutdownArm_rearm {s : St} {t sf : Nat} (tx : Nat) (h : (release s s.queue).fault.isSome = false) (h1 : ¬ (drained s).now < t)
    (h2 : (drained s).raw ≠ 0) (h3 : Src.wcTotal (drained s).raw ≠ 0) (h4 : Src.wkTimedOut ((drained s).now - sf) (drained s).timeout = false) :
    shutdownArm s t sf tx = { (emit (drained s) [.armTimer ((drained s).now + Src.wkTickNextMs)]) with state := .shutdown ((drained s).now + Src.wkTickNextMs) sf tx } := by
  simp [shutdownArm, h, h1, h2, h3, h4]

/-- the `Shutdown` arm hands no connection to a service and does not touch the connections in progress -/
theorem shutdownArm_quiet (s : St) (t sf tx : Nat) :
    core4 (shutdownArm s t sf tx) = core4 s ∧ ∃ evs, (shutdownArm s t sf tx).log = s.log ++ evs ∧ callsOf evs = [] := by
  obtain ⟨e1, h1, h2⟩ := drained_quiet s
  have hd := drained_core4 s
  cases hf : (release s s.queue).fault.isSome with
  | true => rw [shutdownArm_fault t sf tx hf]; exact ⟨release_core4 _ _, release_quiet _ _⟩
  | false =>
    by_cases c1 : (drained s).now < t
    · rw [shutdownArm_pending sf tx hf c1]; exact ⟨hd, e1, h1, h2⟩
    · by_cases c2 : (drained s).raw = 0
      · rw [shutdownArm_underflow sf tx hf c1 c2]; exact ⟨hd, e1, h1, h2⟩
      · by_cases c3 : Src.wcTotal (drained s).raw = 0
        · rw [shutdownArm_true sf tx hf c1 c2 c3]
          obtain ⟨e2, h3, h4⟩ := finish_quiet (emit (drained s) [.reply tx true]) true
          exact ⟨(finish_core4 (emit (drained s) [.reply tx true]) true).trans hd, e1 ++ [.reply tx true] ++ e2, by rw [h3]; simp [h1], by rw [callsOf_append, callsOf_append, h2, h4]; rfl⟩
        · cases c4 : Src.wkTimedOut ((drained s).now - sf) (drained s).timeout with
          | true =>
            rw [shutdownArm_false tx hf c1 c2 c3 c4]
            obtain ⟨e2, h3, h4⟩ := finish_quiet (emit (drained s) [.reply tx false]) true
            exact ⟨(finish_core4 (emit (drained s) [.reply tx false]) true).trans hd, e1 ++ [.reply tx false] ++ e2, by rw [h3]; simp [h1], by rw [callsOf_append, callsOf_append, h2, h4]; rfl⟩
          | false =>
            rw [shutdownArm_rearm tx hf c1 c2 c3 c4]
            exact ⟨hd, e1 ++ [.armTimer ((drained s).now + Src.wkTickNextMs)], by simp [emit, h1], by rw [callsOf_append, h2]; rfl⟩

/-- **queued connections are released, never served, and connections in progress are left alone**
by every `poll` of a worker that is shutting down — also when further `Stop` messages arrive -/
theorem pollW_shutdown_quiet {s : St} {t sf tx : Nat} (hst : s.state = .shutdown t sf tx) (hfl : s.fault = none) (f : Nat) :
    core4 (pollW (f + 1) s) = core4 s ∧ ∃ evs, (pollW (f + 1) s).log = s.log ++ evs ∧ callsOf evs = [] := by
  cases hq : s.stopQ with
  | nil =>
    rw [pollW_shutdown_nostop hst hq hfl]
    exact shutdownArm_quiet { s with stopWaker := true } t sf tx
  | cons a rest =>
    obtain ⟨k, g⟩ := a
    by_cases h0 : s.raw = 0
    · rw [pollW_of_stop (by rw [stopPhase_underflow hq h0]), stopPhase_underflow hq h0]
      exact ⟨rfl, [.replyGone k], by simp [setFault, emit], rfl⟩
    · by_cases h1 : Src.wcTotal s.raw = 0
      · rw [pollW_stop_idle hq h0 h1]
        obtain ⟨e2, h3, h4⟩ := finish_quiet (emit { s with stopQ := rest } [.reply k true]) false
        exact ⟨rfl, [.reply k true] ++ e2, by rw [h3]; simp [emit], by rw [callsOf_append, h4]; rfl⟩
      · cases g with
        | false =>
          rw [pollW_stop_forced hq h0 h1]
          obtain ⟨e2, h3, h4⟩ := finish_quiet (emit (shutdownSvcs { s with stopQ := rest } true) [.reply k false]) false
          exact ⟨rfl, [.reply k false] ++ e2, by rw [h3]; simp [emit, shutdownSvcs], by rw [callsOf_append, h4]; rfl⟩
        | true =>
          rw [pollW_stop_graceful hq h0 h1 hfl]
          obtain ⟨c, e2, h3, h4⟩ := shutdownArm_quiet ({ (emit (shutdownSvcs { s with stopQ := rest } false) (stateTx s.state ++ [.armTimer (s.now + Src.wkTickFirstMs)])) with
            state := .shutdown (s.now + Src.wkTickFirstMs) s.now k }) (s.now + Src.wkTickFirstMs) s.now k
          refine ⟨c.trans ?_, (stateTx s.state ++ [.armTimer (s.now + Src.wkTickFirstMs)]) ++ e2, by rw [h3]; simp [emit, shutdownSvcs], ?_⟩
          · rfl
          · rw [callsOf_append, h4, List.append_nil]
            apply callsOf_plain
            intro e he; simp only [List.mem_append, List.mem_singleton] at he
            rcases he with he | rfl
            · exact (stateTx_plain _ e he).1
            · rfl




theorem tickTime_mono (t0 : Nat) {a b : Nat} (h : a ≤ b) : tickTime t0 a ≤ tickTime t0 b := by
  unfold tickTime
  have : (a - 1) * Src.wkTickNextMs ≤ (b - 1) * Src.wkTickNextMs := Nat.mul_le_mul_right _ (by omega)
  omega

theorem tickTime_succ (t0 : Nat) {k : Nat} (hk : 1 ≤ k) : tickTime t0 (k + 1) = tickTime t0 k + Src.wkTickNextMs := by
  unfold tickTime
  have : k + 1 - 1 = (k - 1) + 1 := by omega
  rw [this, Nat.add_mul]; omega

theorem tickLoop_ge (T t0 : Nat) (fin : List (Option Nat)) (f : Nat) : ∀ k, tickTime t0 k ≤ (tickLoop T t0 fin k f).1 := by
  induction f with
  | zero => intro k; exact Nat.le_refl _
  | succ f ih =>
    intro k; simp only [tickLoop]
    split
    · exact Nat.le_refl _
    · split
      · exact Nat.le_refl _
      · exact Nat.le_trans (tickTime_mono t0 (Nat.le_succ k)) (ih (k + 1))

/-- at tick `lastTick T` the timeout has elapsed, whatever `T` -/
theorem lastTick_timedOut (T t0 : Nat) : Src.wkTimedOut (tickTime t0 (lastTick T) - t0) T = true := by
  simp only [Src.wkTimedOut, tickTime, lastTick, Src.wkTickNextMs, Src.wkTickFirstMs]
  apply decide_eq_true
  omega

theorem lastTick_pos (T : Nat) : 1 ≤ lastTick T := Nat.le_add_left 1 _

/-- from tick `k ≤ lastTick T` with enough fuel the loop answers no later than tick `lastTick T` -/
theorem tickLoop_le (T t0 : Nat) (fin : List (Option Nat)) (f : Nat) : ∀ k, k ≤ lastTick T → lastTick T ≤ k + f →
    (tickLoop T t0 fin k (f + 1)).1 ≤ tickTime t0 (lastTick T) := by
  induction f with
  | zero =>
    intro k h1 h2
    have : k = lastTick T := by omega
    subst this
    simp only [tickLoop]
    split
    · exact Nat.le_refl _
    · rw [lastTick_timedOut]; simp
  | succ f ih =>
    intro k h1 h2
    rw [tickLoop]
    split
    · exact tickTime_mono t0 h1
    · split
      · exact tickTime_mono t0 h1
      · rename_i hto
        have hne : k ≠ lastTick T := by
          intro h; subst h; rw [lastTick_timedOut] at hto; simp at hto
        exact ih (k + 1) (by omega) (by omega)

/-- **stop always completes, with a bound**: for EVERY script — also one in which no connection ever
ends — the worker replies no later than `t0 + first tick + ⌈T / tick⌉ · tick` -/
theorem replyTime_bound (T t0 : Nat) (fin : List (Option Nat)) :
    (replyTime T t0 fin).1 ≤ t0 + Src.wkTickFirstMs + ((T + Src.wkTickNextMs - 1) / Src.wkTickNextMs) * Src.wkTickNextMs := by
  unfold replyTime
  split
  · simp only; omega
  · have h := tickLoop_le T t0 fin (lastTick T - 1) 1 (lastTick_pos T) (by have := lastTick_pos T; omega)
    have h2 : lastTick T - 1 + 1 = lastTick T := by have := lastTick_pos T; omega
    rw [h2] at h
    refine Nat.le_trans h ?_
    unfold tickTime lastTick; simp

theorem tickLoop_mono (T t0 : Nat) (fin fin' : List (Option Nat))
    (hle : ∀ t, unfinished fin' t = 0 → unfinished fin t = 0) (f : Nat) :
    ∀ k, (tickLoop T t0 fin k f).1 ≤ (tickLoop T t0 fin' k f).1 := by
  induction f with
  | zero => intro k; exact Nat.le_refl _
  | succ f ih =>
    intro k
    by_cases h' : unfinished fin' (tickTime t0 k) = 0
    · have h := hle _ h'
      simp [tickLoop, h, h']
    · by_cases h : unfinished fin (tickTime t0 k) = 0
      · have : (tickLoop T t0 fin k (f + 1)).1 = tickTime t0 k := by simp [tickLoop, h]
        rw [this]; exact tickLoop_ge T t0 fin' (f + 1) k
      · simp only [tickLoop, h, h', if_false]
        split
        · exact Nat.le_refl _
        · exact ih (k + 1)

/-- **monotone**: if every connection ends no earlier, the reply comes no earlier -/
theorem replyTime_mono (T t0 : Nat) (fin fin' : List (Option Nat))
    (hle : ∀ t, unfinished fin' t = 0 → unfinished fin t = 0) :
    (replyTime T t0 fin).1 ≤ (replyTime T t0 fin').1 := by
  unfold replyTime
  by_cases h' : unfinished fin' t0 = 0
  · simp [h', hle _ h']
  · by_cases h : unfinished fin t0 = 0
    · simp only [h, h', if_true, if_false]
      exact Nat.le_trans (by unfold tickTime; omega) (tickLoop_ge T t0 fin' (lastTick T) 1)
    · simp only [h, h', if_false]; exact tickLoop_mono T t0 fin fin' hle _ 1

/-- the reply value: `true` exactly when everything had ended at the reply time -/
theorem tickLoop_value (T t0 : Nat) (fin : List (Option Nat)) (f : Nat) : ∀ k, k ≤ lastTick T → lastTick T ≤ k + f →
    ((tickLoop T t0 fin k (f + 1)).2 = true ↔ unfinished fin (tickLoop T t0 fin k (f + 1)).1 = 0) ∧
    ((tickLoop T t0 fin k (f + 1)).2 = false → T ≤ (tickLoop T t0 fin k (f + 1)).1 - t0) := by
  induction f with
  | zero =>
    intro k h1 h2
    have : k = lastTick T := by omega
    subst this
    simp only [tickLoop]
    split
    · rename_i h; simp [h]
    · rename_i h
      have hto := lastTick_timedOut T t0
      rw [hto]; simp only [if_true]
      refine ⟨by simp [h], fun _ => ?_⟩
      simpa [Src.wkTimedOut] using hto
  | succ f ih =>
    intro k h1 h2
    rw [tickLoop]
    split
    · rename_i h; simp [h]
    · rename_i h
      split
      · rename_i hto
        refine ⟨by simp [h], fun _ => ?_⟩
        simpa [Src.wkTimedOut] using hto
      · rename_i hto
        have hne : k ≠ lastTick T := by
          intro h; subst h; rw [lastTick_timedOut] at hto; simp at hto
        exact ih (k + 1) (by omega) (by omega)




theorem drained_empty {s : St} (h : s.queue = []) :
    (drained s).raw = s.raw ∧ (drained s).state = s.state ∧ (drained s).stopQ = s.stopQ ∧ (drained s).fault = s.fault ∧
    (drained s).finished = s.finished ∧ (drained s).queue = [] ∧ (drained s).log = s.log ∧ (drained s).now = s.now ∧
    (drained s).timeout = s.timeout ∧ (release s s.queue).fault = s.fault := by
  unfold drained; rw [h]; simp only [release]
  by_cases hc : s.chanOpen = true <;> simp [hc]

/-- a worker in `Shutdown`, nothing else pending, whose tick timer fires at tick `k` -/
structure Ticking (s : St) (sf tx k : Nat) : Prop where
  st : s.state = .shutdown (tickTime sf k) sf tx
  q : s.stopQ = []
  queue : s.queue = []
  fl : s.fault = none
  fin : s.finished = false

theorem mem_log_finish {s : St} {e : Ev} (b : Bool) (h : e ∈ s.log) : e ∈ (finish s b).log := by
  simp [finish, emit, h]

/-- one tick of the real `poll`, against one step of the functional tick loop -/
theorem tick_step {s : St} {sf tx k : Nat} (h : Ticking s sf tx k) (hk : 1 ≤ k) (fin : List (Option Nat)) :
    (unfinished fin (tickTime sf k) = 0 →
      (pollW 1 (envTick s (tickTime sf k) fin)).finished = true ∧ (pollW 1 (envTick s (tickTime sf k) fin)).now = tickTime sf k ∧
      .reply tx true ∈ (pollW 1 (envTick s (tickTime sf k) fin)).log) ∧
    (unfinished fin (tickTime sf k) ≠ 0 → Src.wkTimedOut (tickTime sf k - sf) s.timeout = true →
      (pollW 1 (envTick s (tickTime sf k) fin)).finished = true ∧ (pollW 1 (envTick s (tickTime sf k) fin)).now = tickTime sf k ∧
      .reply tx false ∈ (pollW 1 (envTick s (tickTime sf k) fin)).log) ∧
    (unfinished fin (tickTime sf k) ≠ 0 → Src.wkTimedOut (tickTime sf k - sf) s.timeout = false →
      Ticking (pollW 1 (envTick s (tickTime sf k) fin)) sf tx (k + 1) ∧
      (pollW 1 (envTick s (tickTime sf k) fin)).timeout = s.timeout) := by
  generalize hu : unfinished fin (tickTime sf k) = u
  have hst : (envTick s (tickTime sf k) fin).state = .shutdown (tickTime sf k) sf tx := h.st
  rw [pollW_shutdown_nostop hst h.q h.fl 0]
  generalize he : ({ (envTick s (tickTime sf k) fin) with stopWaker := true } : St) = e
  have heq : e.queue = [] := by subst he; exact h.queue
  obtain ⟨d1, d2, d3, d4, d5, d6, d7, d8, d9, d10⟩ := drained_empty heq
  have hraw : e.raw = Src.wcInit + u := by subst he; simp [envTick, hu]
  have hnow : e.now = tickTime sf k := by subst he; rfl
  have hto : e.timeout = s.timeout := by subst he; rfl
  have hfl : e.fault = none := by subst he; exact h.fl
  have hf : (release e e.queue).fault.isSome = false := by rw [d10, hfl]; rfl
  have c1 : ¬ (drained e).now < tickTime sf k := by rw [d8, hnow]; omega
  have c2 : (drained e).raw ≠ 0 := by rw [d1, hraw]; simp [Src.wcInit]
  have htot : Src.wcTotal (drained e).raw = u := by rw [d1, hraw]; simp [Src.wcTotal, Src.wcInit]
  refine ⟨fun h0 => ?_, fun h0 h1 => ?_, fun h0 h1 => ?_⟩
  · rw [shutdownArm_true sf tx hf c1 c2 (by rw [htot]; exact h0)]
    exact ⟨rfl, by show (drained e).now = _; rw [d8, hnow], mem_log_finish _ (by simp [emit])⟩
  · rw [shutdownArm_false tx hf c1 c2 (by rw [htot]; exact h0) (by rw [d8, d9, hnow, hto]; exact h1)]
    exact ⟨rfl, by show (drained e).now = _; rw [d8, hnow], mem_log_finish _ (by simp [emit])⟩
  · rw [shutdownArm_rearm tx hf c1 c2 (by rw [htot]; exact h0) (by rw [d8, d9, hnow, hto]; exact h1)]
    refine ⟨⟨?_, d3.trans (by subst he; exact h.q), d6, d4.trans hfl, d5.trans (by subst he; exact h.fin)⟩, d9.trans hto⟩
    show WState.shutdown ((drained e).now + Src.wkTickNextMs) sf tx = _
    rw [d8, hnow, tickTime_succ sf hk]

/-- **the real `poll`, polled at every tick, replies exactly when and what the functional tick loop says** -/
theorem runTicks_refines (fin : List (Option Nat)) (sf tx : Nat) (f : Nat) : ∀ (k : Nat) (s : St), Ticking s sf tx k → 1 ≤ k →
    k ≤ lastTick s.timeout → lastTick s.timeout ≤ k + f →
    (runTicks fin sf s k (f + 1)).finished = true ∧
    (runTicks fin sf s k (f + 1)).now = (tickLoop s.timeout sf fin k (f + 1)).1 ∧
    .reply tx (tickLoop s.timeout sf fin k (f + 1)).2 ∈ (runTicks fin sf s k (f + 1)).log := by
  induction f with
  | zero =>
    intro k s h hk h1 h2
    have hkl : k = lastTick s.timeout := by omega
    obtain ⟨a, b, _⟩ := tick_step h hk fin
    simp only [runTicks, tickLoop]
    by_cases hu : unfinished fin (tickTime sf k) = 0
    · obtain ⟨a1, a2, a3⟩ := a hu
      simp [a1, hu, a2, a3]
    · have hto : Src.wkTimedOut (tickTime sf k - sf) s.timeout = true := by rw [hkl]; exact lastTick_timedOut _ _
      obtain ⟨b1, b2, b3⟩ := b hu hto
      simp [b1, hu, hto, b2, b3]
  | succ f ih =>
    intro k s h hk h1 h2
    obtain ⟨a, b, c⟩ := tick_step h hk fin
    rw [runTicks, tickLoop]
    by_cases hu : unfinished fin (tickTime sf k) = 0
    · obtain ⟨a1, a2, a3⟩ := a hu
      simp [a1, hu, a2, a3]
    · cases hto : Src.wkTimedOut (tickTime sf k - sf) s.timeout with
      | true =>
        obtain ⟨b1, b2, b3⟩ := b hu hto
        simp [b1, hu, b2, b3]
      | false =>
        obtain ⟨c1, c2⟩ := c hu hto
        have hne : k ≠ lastTick s.timeout := by
          intro h; rw [h, lastTick_timedOut] at hto; simp at hto
        have := ih (k + 1) _ c1 (by omega) (by rw [c2]; omega) (by rw [c2]; omega)
        rw [c2] at this
        simp only [c1.fin, hu, if_false, Bool.false_eq_true]
        exact this




def Ev.resolves (k : Nat) : Ev → Bool
  | .reply k' _ => k' == k
  | .replyGone k' => k' == k
  | _ => false

/-- the reply channel of stop number `k` has been answered or dropped -/
def Resolved (s : St) (k : Nat) : Prop := ∃ e ∈ s.log, e.resolves k = true

def holdsTx : WState → Nat → Prop
  | .shutdown _ _ tx, k => tx = k
  | _, _ => False

/-- every `Stop` ever sent is still in the channel, or its reply sender is held by the `Shutdown`
state of the running worker, or it has been answered / dropped -/
structure Acc (s : St) : Prop where
  fin : s.finished = true → s.stopQ = []
  all : ∀ k, k < s.nextStop → (∃ g, (k, g) ∈ s.stopQ) ∨ (s.finished = false ∧ holdsTx s.state k) ∨ Resolved s k

theorem Resolved.mono {s s' : St} {k : Nat} (h : Resolved s k) (hlog : ∃ evs, s'.log = s.log ++ evs) : Resolved s' k := by
  obtain ⟨e, he, hr⟩ := h
  obtain ⟨evs, hl⟩ := hlog
  exact ⟨e, by rw [hl]; simp [he], hr⟩

theorem Acc.frame {s s' : St} (h : Acc s) (hq : s'.stopQ = s.stopQ) (hn : s'.nextStop = s.nextStop) (hf : s'.finished = s.finished)
    (hst : ∀ k, holdsTx s.state k → holdsTx s'.state k) (hlog : ∃ evs, s'.log = s.log ++ evs) : Acc s' := by
  refine ⟨fun hfin => by rw [hq]; exact h.fin (hf ▸ hfin), fun k hk => ?_⟩
  rcases h.all k (hn ▸ hk) with h1 | ⟨h2, h3⟩ | h4
  · exact Or.inl (hq ▸ h1)
  · exact Or.inr (Or.inl ⟨hf ▸ h2, hst k h3⟩)
  · exact Or.inr (Or.inr (h4.mono hlog))

theorem goneEvs_mem {q : List (Nat × Bool)} {k : Nat} {g : Bool} (h : (k, g) ∈ q) : Ev.replyGone k ∈ goneEvs q := by
  induction q with
  | nil => simp at h
  | cons a t ih =>
    obtain ⟨k', g'⟩ := a
    simp only [List.mem_cons, Prod.mk.injEq] at h
    rcases h with ⟨rfl, _⟩ | h
    · simp [goneEvs]
    · simp [goneEvs, ih h]

theorem finish_log (s : St) (b : Bool) :
    (finish s b).log = s.log ++ ([Ev.done] ++ ((if b then [] else stateTx s.state) ++ goneEvs s.stopQ) ++ s.queue.map .dropped) := by
  simp [finish, emit]

/-- finishing accounts for everything: queued stops and (unless already answered) the held one are dropped -/
theorem Acc.finish {s : St} (h : Acc s) (b : Bool) (hb : b = true → ∀ k, holdsTx s.state k → Resolved s k) : Acc (finish s b) := by
  refine ⟨fun _ => rfl, fun k hk => Or.inr (Or.inr ?_)⟩
  have hmono : ∀ {k}, Resolved s k → Resolved (ActixNet.Worker.finish s b) k := fun h => h.mono ⟨_, finish_log s b⟩
  rcases h.all k hk with ⟨g, h1⟩ | ⟨_, h3⟩ | h4
  · exact ⟨.replyGone k, by rw [finish_log]; simp [goneEvs_mem h1], by simp [Ev.resolves]⟩
  · cases b with
    | true => exact hmono (hb rfl k h3)
    | false =>
      cases hst : s.state with
      | shutdown t sf tx =>
        rw [hst] at h3; simp only [holdsTx] at h3; subst h3
        exact ⟨.replyGone tx, by rw [finish_log, hst]; simp [stateTx], by simp [Ev.resolves]⟩
      | _ => rw [hst] at h3; simp [holdsTx] at h3
  · exact hmono h4

theorem Acc.setFault {s : St} (h : Acc s) (f : Fault) : Acc (setFault s f) := ⟨h.fin, h.all⟩

theorem resolved_of_mem {s : St} {k : Nat} {e : Ev} (he : e ∈ s.log) (hr : e.resolves k = true) : Resolved s k := ⟨e, he, hr⟩

theorem shutdownSvcs_acc {s : St} (h : Acc s) (f : Bool) : Acc (shutdownSvcs s f) := ⟨h.fin, h.all⟩

theorem Acc.stopPhase {s : St} (h : Acc s) (hf : s.finished = false) : Acc (stopPhase s).1 := by
  cases hq : s.stopQ with
  | nil => rw [stopPhase_nil hq]; exact h.frame rfl rfl rfl (fun _ x => x) ⟨[], by simp⟩
  | cons a rest =>
    obtain ⟨k0, g⟩ := a
    -- the state after the pop, with the popped stop answered or dropped at once (event `e0`)
    have hpop : ∀ (e0 : Ev), e0.resolves k0 = true → Acc (emit { s with stopQ := rest } [e0]) := by
      intro e0 he0
      refine ⟨fun hfin => (by rw [show (emit { s with stopQ := rest } [e0]).finished = s.finished from rfl, hf] at hfin; cases hfin), fun k hk => ?_⟩
      rcases h.all k hk with ⟨g', h1⟩ | h2 | h3
      · rw [hq] at h1; simp only [List.mem_cons, Prod.mk.injEq] at h1
        rcases h1 with ⟨rfl, _⟩ | h1
        · exact Or.inr (Or.inr ⟨e0, by simp [emit], he0⟩)
        · exact Or.inl ⟨g', h1⟩
      · exact Or.inr (Or.inl h2)
      · exact Or.inr (Or.inr (h3.mono ⟨[e0], rfl⟩))
    by_cases h0 : s.raw = 0
    · rw [stopPhase_underflow hq h0]
      exact (hpop (.replyGone k0) (by simp [Ev.resolves])).setFault _
    · by_cases h1 : Src.wcTotal s.raw = 0
      · rw [stopPhase_idle hq h0 h1]
        exact (hpop (.reply k0 true) (by simp [Ev.resolves])).finish false (by simp)
      · cases g with
        | false =>
          rw [stopPhase_forced hq h0 h1]
          have := hpop (.reply k0 false) (by simp [Ev.resolves])
          exact Acc.finish (s := emit (shutdownSvcs { s with stopQ := rest } true) [.reply k0 false]) ⟨this.fin, this.all⟩ false (by simp)
        | true =>
          rw [stopPhase_graceful hq h0 h1]
          refine ⟨fun hfin => (by have : s.finished = true := hfin; rw [hf] at this; cases this), fun k hk => ?_⟩
          have hlog : ∀ {k}, Resolved s k → Resolved ({ (emit (shutdownSvcs { s with stopQ := rest } false) (stateTx s.state ++ [.armTimer (s.now + Src.wkTickFirstMs)])) with
              state := .shutdown (s.now + Src.wkTickFirstMs) s.now k0 }) k := fun h => h.mono ⟨_, rfl⟩
          rcases h.all k hk with ⟨g', h1⟩ | ⟨_, h3⟩ | h4
          · rw [hq] at h1; simp only [List.mem_cons, Prod.mk.injEq] at h1
            rcases h1 with ⟨rfl, _⟩ | h1
            · exact Or.inr (Or.inl ⟨hf, rfl⟩)
            · exact Or.inl ⟨g', h1⟩
          · -- the sender held by the previous `Shutdown` state is dropped
            cases hst : s.state with
            | shutdown t sf tx =>
              rw [hst] at h3; simp only [holdsTx] at h3; subst h3
              exact Or.inr (Or.inr ⟨.replyGone tx, by simp [emit, shutdownSvcs, stateTx], by simp [Ev.resolves]⟩)
            | _ => rw [hst] at h3; simp [holdsTx] at h3
          · exact Or.inr (Or.inr (hlog h4))

theorem release_acc {s : St} (h : Acc s) (q : List Conn) : Acc (release s q) := by
  obtain ⟨hc, cs, h2, _⟩ := release_spec q s
  simp only [core3, Prod.mk.injEq] at hc
  exact h.frame hc.2.2.2.2.2.1 hc.2.2.2.2.2.2.2.2.2.2.1 hc.2.2.2.2.2.2.2.2.2.2.2.1 (by rw [hc.2.2.2.1]; exact fun _ x => x) ⟨_, h2⟩

theorem drained_acc {s : St} (h : Acc s) : Acc (drained s) := by
  unfold drained; split
  · have := release_acc h s.queue; exact ⟨this.fin, this.all⟩
  · exact release_acc h s.queue

theorem Acc.shutdownArm {s : St} (h : Acc s) (t sf tx : Nat) (hst : s.state = .shutdown t sf tx) : Acc (shutdownArm s t sf tx) := by
  have hd := drained_acc h
  have hdst : (drained s).state = .shutdown t sf tx := by
    have : (drained s).state = (release s s.queue).state := by unfold drained; split <;> rfl
    rw [this]
    obtain ⟨hc, _⟩ := release_spec s.queue s
    simp only [core3, Prod.mk.injEq] at hc; rw [hc.2.2.2.1]; exact hst
  have hreply : ∀ b, Acc (ActixNet.Worker.finish (emit (drained s) [.reply tx b]) true) := by
    intro b
    refine Acc.finish (s := emit (drained s) [.reply tx b]) (hd.frame rfl rfl rfl (fun _ x => x) ⟨_, rfl⟩) true ?_
    intro _ k hk
    rw [show (emit (drained s) [.reply tx b]).state = (drained s).state from rfl, hdst] at hk
    simp only [holdsTx] at hk; subst hk
    exact ⟨.reply tx b, by simp [emit], by simp [Ev.resolves]⟩
  cases hf : (release s s.queue).fault.isSome with
  | true => rw [shutdownArm_fault t sf tx hf]; exact release_acc h _
  | false =>
    by_cases c1 : (drained s).now < t
    · rw [shutdownArm_pending sf tx hf c1]; exact hd
    · by_cases c2 : (drained s).raw = 0
      · rw [shutdownArm_underflow sf tx hf c1 c2]; exact hd.setFault _
      · by_cases c3 : Src.wcTotal (drained s).raw = 0
        · rw [shutdownArm_true sf tx hf c1 c2 c3]; exact hreply true
        · cases c4 : Src.wkTimedOut ((drained s).now - sf) (drained s).timeout with
          | true => rw [shutdownArm_false tx hf c1 c2 c3 c4]; exact hreply false
          | false =>
            rw [shutdownArm_rearm tx hf c1 c2 c3 c4]
            refine hd.frame rfl rfl rfl ?_ ⟨_, rfl⟩
            intro k hk; rw [hdst] at hk; exact hk




theorem Acc.arm {s : St} (h : Acc s) (hg : Good s) (hf : s.finished = false) : Acc (arm s).1 := by
  have hsv := hg.svc
  unfold SvcOK at hsv
  rw [hf] at hsv; simp only [Bool.false_eq_true, false_or] at hsv
  cases hst : s.state with
  | unavailable =>
    rw [hst] at hsv
    have hno : ∀ k, holdsTx s.state k → False := by intro k hk; rw [hst] at hk; exact hk
    rcases hsw : sweep s with ⟨s1, r⟩
    have hc := sweep_n hsw
    simp only [core, Prod.mk.injEq] at hc
    obtain ⟨c1, c2, c3, c4, c5, c6, c7, c8, c9, c10, c11, c12, c13, c14, c15, c16⟩ := hc
    cases r with
    | ok b =>
      obtain ⟨_, evs, d, _, _⟩ := sweep_ok_spec hsw hsv
      cases b with
      | true => rw [arm_unavail_true hst hsw]; exact h.frame c6 c12 c13 (fun k hk => (hno k hk).elim) ⟨evs, d⟩
      | false => rw [arm_unavail_false hst hsw]; exact h.frame c6 c12 c13 (fun k hk => (hno k hk).elim) ⟨evs, d⟩
    | err i =>
      obtain ⟨_, _, _, evs, inc, d, _⟩ := sweep_err_spec hsw hsv
      rw [arm_unavail_err hst hsw]
      exact h.frame (s' := restartService s1 i) c6 c12 c13 (fun k hk => (hno k hk).elim)
        ⟨evs ++ [.pollReady i inc .err] ++ [.createService i], by rw [(restartService_frame s1 i).1, d]; simp⟩
  | restarting tok fp fok sc =>
    have hno : ∀ k, holdsTx s.state k → False := by intro k hk; rw [hst] at hk; exact hk
    cases fp with
    | succ k => rw [arm_restarting_pending hst]; exact h.frame rfl rfl rfl (fun k hk => (hno k hk).elim) ⟨_, rfl⟩
    | zero => cases fok with
      | true => rw [arm_restarting_ok hst]; exact h.frame rfl rfl rfl (fun k hk => (hno k hk).elim) ⟨[.facPoll tok .ok], rfl⟩
      | false => rw [arm_restarting_err hst]; exact h.frame rfl rfl rfl (fun k hk => (hno k hk).elim) ⟨[.facPoll tok .err], rfl⟩
  | shutdown t sf tx => rw [arm_shutdown hst]; exact h.shutdownArm t sf tx hst
  | available =>
    rw [hst] at hsv
    have hno : ∀ k, holdsTx s.state k → False := by intro k hk; rw [hst] at hk; exact hk
    have hsp := availLoop_spec s.queue s hsv
    rcases hal : availLoop s s.queue with ⟨s1, r⟩
    rw [hal] at hsp
    obtain ⟨k1, _, ⟨tr, cs, last, g1, _⟩, _⟩ := hsp
    simp only [core2, Prod.mk.injEq] at k1
    obtain ⟨c1, c2, c3, c4, c5, c6, c7, c8, c9, c10, c11, c12⟩ := k1
    have hs1 : Acc s1 := h.frame c5 c10 c11 (fun k hk => (hno k hk).elim) ⟨tr ++ last, by rw [g1]; simp⟩
    cases r with
    | pending => rw [arm_avail_pending hst hal]; exact hs1
    | closed =>
      rw [arm_avail_closed hst hal]
      rcases closedArm_cases s1 with ⟨_, _, e⟩ | ⟨_, _, e⟩ | ⟨_, e⟩ <;> rw [e]
      · exact hs1.frame rfl rfl rfl (fun _ x => x) ⟨[], by simp⟩
      · exact hs1.finish false (by simp)
      · exact hs1.stopPhase (c11.trans hf)
    | toUnavailable => rw [arm_avail_unavail hst hal]; exact hs1.frame rfl rfl rfl (by rw [c3]; exact fun k hk => (hno k hk).elim) ⟨[], by simp⟩
    | restart i =>
      rw [arm_avail_restart hst hal]
      exact hs1.frame (s' := restartService s1 i) rfl rfl rfl (by rw [c3]; exact fun k hk => (hno k hk).elim) ⟨_, (restartService_frame s1 i).1⟩
    | fault => rw [arm_avail_fault hst hal]; exact hs1

theorem Acc.body {s : St} (h : Acc s) (hg : Good s) (hf : s.finished = false) : Acc (body s).1 := by
  unfold ActixNet.Worker.body
  split
  · exact h.stopPhase hf
  · rename_i hc
    simp only [Bool.or_eq_true, not_or, Bool.not_eq_true] at hc
    exact (h.stopPhase hf).arm hg.stopPhase ((stopPhase_finished s hc.1).trans hf)

theorem Acc.pollW (f : Nat) : ∀ (s : St), Acc s → Good s → s.finished = false → Acc (pollW f s) := by
  induction f with
  | zero => intro s h _ _; exact h.setFault _
  | succ f ih =>
    intro s h hg hf
    simp only [ActixNet.Worker.pollW]
    obtain ⟨h1, h2⟩ := hg.body hf
    split
    · rename_i hb; exact ih _ (h.body hg hf) h1 (h2 hb)
    · exact h.body hg hf

theorem Acc.step {s : St} (h : Acc s) (hg : Good s) (op : Op) : Acc (step s op).1 := by
  cases op with
  | conn tok =>
    simp only [ActixNet.Worker.step]
    split
    · exact h
    · split
      · exact h
      · exact ⟨h.fin, h.all⟩
  | send tok =>
    simp only [ActixNet.Worker.step]
    split
    · exact h
    · split
      · exact h
      · exact ⟨h.fin, h.all⟩
  | inc =>
    simp only [ActixNet.Worker.step]
    split
    · exact h
    · exact ⟨h.fin, h.all⟩
  | closeChan =>
    simp only [ActixNet.Worker.step]
    split
    · exact h
    · exact ⟨h.fin, h.all⟩
  | finish id =>
    simp only [ActixNet.Worker.step]
    split
    · exact h
    · split
      · exact ⟨h.fin, h.all⟩
      · exact h
  | advance ms =>
    simp only [ActixNet.Worker.step]
    split
    · exact h
    · exact ⟨h.fin, h.all⟩
  | closeStop =>
    simp only [ActixNet.Worker.step]
    split
    · exact h
    · exact ⟨h.fin, h.all⟩
  | pollY fuel acts => exact h
  | stop g =>
    simp only [ActixNet.Worker.step]
    split
    · exact h
    · split
      · rename_i hfin
        refine ⟨fun _ => h.fin hfin, fun k hk => ?_⟩
        have hk' : k < s.nextStop + 1 := hk
        by_cases hkn : k = s.nextStop
        · subst hkn; exact Or.inr (Or.inr ⟨.replyGone s.nextStop, by simp [emit], by simp [Ev.resolves]⟩)
        · rcases h.all k (by omega) with h1 | h2 | h3
          · exact Or.inl h1
          · exact Or.inr (Or.inl h2)
          · exact Or.inr (Or.inr (h3.mono ⟨_, rfl⟩))
      · rename_i hfin
        refine ⟨fun hf => absurd hf hfin, fun k hk => ?_⟩
        have hk' : k < s.nextStop + 1 := hk
        by_cases hkn : k = s.nextStop
        · subst hkn; exact Or.inl ⟨g, by simp⟩
        · rcases h.all k (by omega) with ⟨g', h1⟩ | h2 | h3
          · exact Or.inl ⟨g', by simp [h1]⟩
          · exact Or.inr (Or.inl h2)
          · exact Or.inr (Or.inr h3)
  | poll fuel =>
    simp only [ActixNet.Worker.step]
    split
    · exact h
    · rename_i hc
      simp only [Bool.or_eq_true, not_or, Bool.not_eq_true] at hc
      have hg' : Good (emit s [.enter]) := ⟨hg.svc, hg.lg.plain (s' := emit s [.enter]) [.enter] (by intro e he; simp at he; subst he; exact ⟨rfl, rfl, rfl, rfl⟩) rfl rfl rfl rfl⟩
      exact Acc.pollW fuel _ (h.frame (s' := emit s [.enter]) rfl rfl rfl (fun _ x => x) ⟨_, rfl⟩) hg' hc.2

theorem Acc.runEnv (acts : List EnvOp) : ∀ (s : St), Acc s → Good s → Acc (ActixNet.Worker.runEnv s acts).1 := by
  induction acts with
  | nil => intro s h _; exact h
  | cons a as ih => intro s h hg; exact ih _ (h.step hg a.toOp) (hg.step a.toOp)

theorem Acc.pollY {s : St} (h : Acc s) (hg : Good s) (hf : s.finished = false) (fuel : Nat) (acts : List EnvOp) :
    Acc (ActixNet.Worker.pollY fuel acts s).1 := by
  unfold ActixNet.Worker.pollY
  split
  · exact h.stopPhase hf
  · rename_i hc
    simp only [Bool.or_eq_true, not_or, Bool.not_eq_true] at hc
    have hf0 : (ActixNet.Worker.stopPhase s).1.finished = false := (stopPhase_finished s hc.1).trans hf
    have hf1 : (ActixNet.Worker.runEnv (ActixNet.Worker.stopPhase s).1 acts).1.finished = false := by
      rw [runEnv_finished]; exact hf0
    have hg1 := Good.runEnv acts _ hg.stopPhase
    have ha1 := Acc.runEnv acts _ (h.stopPhase hf) hg.stopPhase
    obtain ⟨g1, g2⟩ := hg1.arm hf1
    split
    · rename_i hb; exact Acc.pollW fuel _ (ha1.arm hg1 hf1) g1 (g2 hb)
    · exact ha1.arm hg1 hf1

theorem Acc.stepY {s : St} (h : Acc s) (hg : Good s) (op : Op) : Acc (ActixNet.Worker.stepY s op).1 := by
  cases op with
  | pollY fuel acts =>
    simp only [ActixNet.Worker.stepY]
    split
    · exact h
    · rename_i hc
      simp only [Bool.or_eq_true, not_or, Bool.not_eq_true] at hc
      have hg' : Good (emit s [.enter]) := ⟨hg.svc, hg.lg.plain (s' := emit s [.enter]) [.enter] (by intro e he; simp at he; subst he; exact ⟨rfl, rfl, rfl, rfl⟩) rfl rfl rfl rfl⟩
      exact Acc.pollY (h.frame (s' := emit s [.enter]) rfl rfl rfl (fun _ x => x) ⟨_, rfl⟩) hg' hc.2 fuel acts
  | _ => exact h.step hg _

theorem Acc.init (cfg : Cfg) : Acc (init cfg) := ⟨fun _ => rfl, fun k hk => by simp [ActixNet.Worker.init] at hk⟩

theorem Acc.run (ops : List Op) : ∀ (s : St), Acc s → Good s → Acc (run s ops) := by
  induction ops with
  | nil => intro s h _; exact h
  | cons o os ih => intro s h hg; exact ih _ (h.stepY hg o) (hg.stepY o)




theorem timedOut_iff (e T : Nat) : Src.wkTimedOut e T = true ↔ T ≤ e := by simp [Src.wkTimedOut]

theorem drained_ok {s : St} (h : s.queue.length ≤ s.raw) :
    (release s s.queue).fault = s.fault ∧ (drained s).queue = [] ∧ (drained s).raw = s.raw - s.queue.length ∧
    (drained s).log = s.log ++ s.queue.map .released ∧ (drained s).state = s.state ∧ (drained s).finished = s.finished ∧
    (drained s).stopQ = s.stopQ ∧ (drained s).now = s.now ∧ (drained s).inflight = s.inflight ∧ (drained s).fault = s.fault := by
  unfold drained; rw [release_ok _ _ h]
  by_cases hc : s.chanOpen = true <;> simp [hc]

/-- **graceful stop, connections in progress**: the poll that takes the `Stop` puts the worker into
`Shutdown` (tick timer at `now + first tick`, start = `now`), releases every queued connection
without serving it, leaves the connections in progress alone, does not reply and does not finish -/
theorem graceful_enters_shutdown_lemma {s : St} {k : Nat} {rest : List (Nat × Bool)} (hq : s.stopQ = (k, true) :: rest)
    (h1 : Src.wcTotal s.raw ≠ 0) (hfl : s.fault = none) (hcov : s.queue.length ≤ s.raw) (f : Nat) :
    (pollW (f + 1) s).state = .shutdown (s.now + Src.wkTickFirstMs) s.now k ∧ (pollW (f + 1) s).finished = s.finished ∧
    (pollW (f + 1) s).queue = [] ∧ (pollW (f + 1) s).inflight = s.inflight ∧ (pollW (f + 1) s).stopQ = rest ∧
    (pollW (f + 1) s).raw = s.raw - s.queue.length ∧ (pollW (f + 1) s).fault = none ∧
    (pollW (f + 1) s).log = s.log ++ (stateTx s.state ++ [.armTimer (s.now + Src.wkTickFirstMs)]) ++ s.queue.map .released := by
  have h0 : s.raw ≠ 0 := by intro h; rw [h] at h1; simp [Src.wcTotal] at h1
  rw [pollW_stop_graceful hq h0 h1 hfl]
  generalize hS : ({ (emit (shutdownSvcs { s with stopQ := rest } false) (stateTx s.state ++ [.armTimer (s.now + Src.wkTickFirstMs)])) with
      state := .shutdown (s.now + Src.wkTickFirstMs) s.now k } : St) = S
  have e1 : S.queue = s.queue := by subst hS; rfl
  have e2 : S.raw = s.raw := by subst hS; rfl
  have e3 : S.now = s.now := by subst hS; rfl
  have e4 : S.fault = s.fault := by subst hS; rfl
  obtain ⟨d1, d2, d3, d4, d5, d6, d7, d8, d9, d10⟩ := drained_ok (s := S) (by rw [e1, e2]; exact hcov)
  have hf : (release S S.queue).fault.isSome = false := by rw [d1, e4, hfl]; rfl
  have hlt : (drained S).now < s.now + Src.wkTickFirstMs := by rw [d8, e3]; simp [Src.wkTickFirstMs]
  rw [shutdownArm_pending s.now k hf hlt]
  subst hS
  exact ⟨d5, d6, d2, d9, d7, d3, d10.trans hfl, by rw [d4]; simp [emit, shutdownSvcs]⟩

/-- **one poll of a worker in `Shutdown`** (no further `Stop`, channel already drained): it finishes
exactly when its tick timer has fired and either nothing is in progress any more (reply `true`) or
`shutdown_timeout` has elapsed since it took the stop (reply `false`) -/
theorem shutdown_poll_lemma {s : St} {t sf tx : Nat} (hst : s.state = .shutdown t sf tx) (hq : s.stopQ = [])
    (hfl : s.fault = none) (hqueue : s.queue = []) (hraw : s.raw ≠ 0) (hfin : s.finished = false) (f : Nat) :
    ((pollW (f + 1) s).finished = true ↔ t ≤ s.now ∧ (Src.wcTotal s.raw = 0 ∨ s.timeout ≤ s.now - sf)) ∧
    ∃ evs, (pollW (f + 1) s).log = s.log ++ evs ∧
      (.reply tx true ∈ evs ↔ t ≤ s.now ∧ Src.wcTotal s.raw = 0) ∧
      (.reply tx false ∈ evs ↔ t ≤ s.now ∧ Src.wcTotal s.raw ≠ 0 ∧ s.timeout ≤ s.now - sf) ∧
      (∀ k b, .reply k b ∈ evs → k = tx) := by
  rw [pollW_shutdown_nostop hst hq hfl f]
  generalize he : ({ s with stopWaker := true } : St) = e
  have heq : e.queue = [] := by subst he; exact hqueue
  obtain ⟨d1, d2, d3, d4, d5, d6, d7, d8, d9, d10⟩ := drained_empty heq
  have r1 : e.raw = s.raw := by subst he; rfl
  have r2 : e.now = s.now := by subst he; rfl
  have r3 : e.timeout = s.timeout := by subst he; rfl
  have r4 : e.fault = none := by subst he; exact hfl
  have r5 : e.log = s.log := by subst he; rfl
  have r6 : e.finished = false := by subst he; exact hfin
  have r7 : e.stopQ = [] := by subst he; exact hq
  have hf : (release e e.queue).fault.isSome = false := by rw [d10, r4]; rfl
  by_cases c1 : (drained e).now < t
  · rw [shutdownArm_pending sf tx hf c1]
    have : ¬ t ≤ s.now := by rw [d8, r2] at c1; omega
    refine ⟨by rw [d5, r6]; simp [this], [], by rw [d7, r5]; simp, by simp [this], by simp [this], by simp⟩
  · have c1' : t ≤ s.now := by rw [d8, r2] at c1; omega
    have c2 : (drained e).raw ≠ 0 := by rw [d1, r1]; exact hraw
    by_cases c3 : Src.wcTotal (drained e).raw = 0
    · rw [shutdownArm_true sf tx hf c1 c2 c3]
      have c3' : Src.wcTotal s.raw = 0 := by rw [d1, r1] at c3; exact c3
      refine ⟨by simp [finish, c1', c3'], [.reply tx true] ++ ([.done] ++ goneEvs (drained e).stopQ ++ (drained e).queue.map .dropped), ?_, ?_, ?_, ?_⟩
      · rw [finish_log]; simp [emit, d7, r5]
      · rw [d3, r7, d6]; simp [goneEvs, c1', c3']
      · rw [d3, r7, d6]; simp [goneEvs, c3']
      · rw [d3, r7, d6]; intro k b hm; simp [goneEvs] at hm; exact hm.1
    · have c3' : Src.wcTotal s.raw ≠ 0 := by rw [d1, r1] at c3; exact c3
      cases c4 : Src.wkTimedOut ((drained e).now - sf) (drained e).timeout with
      | true =>
        rw [shutdownArm_false tx hf c1 c2 c3 c4]
        have c4' : s.timeout ≤ s.now - sf := by rw [d8, d9, r2, r3, timedOut_iff] at c4; exact c4
        refine ⟨by simp [finish, c1', c4'], [.reply tx false] ++ ([.done] ++ goneEvs (drained e).stopQ ++ (drained e).queue.map .dropped), ?_, ?_, ?_, ?_⟩
        · rw [finish_log]; simp [emit, d7, r5]
        · rw [d3, r7, d6]; simp [goneEvs, c3']
        · rw [d3, r7, d6]; simp [goneEvs, c1', c3', c4']
        · rw [d3, r7, d6]; intro k b hm; simp [goneEvs] at hm; exact hm.1
      | false =>
        rw [shutdownArm_rearm tx hf c1 c2 c3 c4]
        have c4' : ¬ s.timeout ≤ s.now - sf := by
          intro h; rw [d8, d9, r2, r3] at c4
          have := (timedOut_iff _ _).2 h; rw [c4] at this; cases this
        refine ⟨?_, [.armTimer ((drained e).now + Src.wkTickNextMs)], by simp [emit, d7, r5], by simp [c3'], by simp [c4'], by simp⟩
        show (drained e).finished = true ↔ _
        rw [d5, r6]; simp [c3', c4']



/-! ### the accept thread's exit (closed connection channel) is not a stop command (F8) -/

theorem sweepFrom_stopOpen (k : Nat) : ∀ (s : St) (i : Nat) (r : Bool), (sweepFrom s i r k).1.stopOpen = s.stopOpen := by
  induction k with
  | zero => intro s i r; rfl
  | succ k ih =>
    intro s i r
    rcases sweepFrom_cases s i r k with ⟨_, h⟩ | ⟨_, _, h⟩ | ⟨_, _, h⟩ | ⟨_, _, h⟩ <;> rw [h]
    · exact ih _ _ _
    · rw [ih]; rfl
    · rw [ih]; rfl
    · rfl

/-- a worker in `Available` whose connection channel is closed and drained, with no `Stop` in its stop
channel (which is still open), waits: nothing is answered, nothing finishes, the waker is registered -/
theorem arm_closed_waits {s : St} (hst : s.state = .available) (hc : Calm s) (hco : s.chanOpen = false)
    (hqu : s.queue = []) (hq : s.stopQ = []) (ho : s.stopOpen = true) :
    (arm s).2 = false ∧ (arm s).1.finished = s.finished ∧ (arm s).1.inflight = s.inflight ∧
    (arm s).1.stopWaker = true ∧ (arm s).1.state = .available ∧ (arm s).1.fault = s.fault ∧
    ∃ evs, (arm s).1.log = s.log ++ evs ∧ ∀ e ∈ evs, e.isPR = true := by
  obtain ⟨s1, hsw, _⟩ := sweep_calm hc
  have hcore := sweep_n hsw
  simp only [core, Prod.mk.injEq] at hcore
  obtain ⟨c1, c2, c3, c4, c5, c6, c7, c8, c9, c10, c11, c12, c13, c14, c15, c16⟩ := hcore
  have hso : s1.stopOpen = s.stopOpen := by
    have := sweepFrom_stopOpen s.n s 0 true
    unfold sweep at hsw; rw [hsw] at this; exact this
  have hlog := sweepFrom_ok s.n s 0 true true (by unfold sweep at hsw; rw [hsw])
  unfold sweep at hsw
  rw [hsw] at hlog
  obtain ⟨evs, e1, e2⟩ := hlog
  have hal : availLoop s s.queue = ({ s1 with queue := [] }, .closed) := by
    rw [hqu]; exact availLoop_nil_closed (by unfold sweep; exact hsw) (c5.trans hco)
  rw [arm_avail_closed hst hal, closedArm_nil_open (s := { s1 with queue := [] }) (c6.trans hq) (hso.trans ho)]
  exact ⟨rfl, c13, c9, rfl, c3.trans hst, c16, evs, e1, fun e he => (e2 e he).1⟩





/-! ### the self-recursion of `poll` terminates: fuel proportional to the scripts is enough -/

/-- answers of a script that are not `Ready` -/
def cnt : List Rd → Nat
  | [] => 0
  | .ready :: t => cnt t
  | _ :: t => cnt t + 1

def futWeight : List Inc → Nat
  | [] => 0
  | i :: t => cnt i.script + futWeight t

def svcWeight (sv : Svc) : Nat := cnt sv.script + futWeight sv.future

def sumTo (f : Nat → Nat) : Nat → Nat
  | 0 => 0
  | n + 1 => sumTo f n + f n

def stateWeight : WState → Nat
  | .restarting _ _ _ sc => cnt sc
  | _ => 0

def rank : WState → Nat
  | .shutdown _ _ _ => 0
  | .available => 1
  | .unavailable => 2
  | .restarting _ _ _ _ => 3

def svcsWeight (s : St) : Nat := sumTo (fun i => svcWeight (s.svc i)) s.n

/-- what is left of all scripts (weighted) plus the rank of the state: every re-entry of `poll` lowers it -/
def measure (s : St) : Nat := 3 * (svcsWeight s + stateWeight s.state) + rank s.state

theorem sumTo_congr {f g : Nat → Nat} (n : Nat) (h : ∀ i, i < n → f i = g i) : sumTo f n = sumTo g n := by
  induction n with
  | zero => rfl
  | succ n ih => simp only [sumTo]; rw [ih (fun i hi => h i (by omega)), h n (by omega)]

/-- changing one summand -/
theorem sumTo_upd {f g : Nat → Nat} (n i : Nat) (hi : i < n) (h : ∀ j, j ≠ i → g j = f j) :
    sumTo g n + f i = sumTo f n + g i := by
  induction n with
  | zero => omega
  | succ n ih =>
    simp only [sumTo]
    by_cases hin : i = n
    · subst hin
      rw [sumTo_congr i (fun j hj => h j (by omega))]; omega
    · have := ih (by omega)
      rw [h n (fun h => hin h.symm)]; omega

theorem cnt_tail (l : List Rd) : cnt (nextRd l).2 + (if (nextRd l).1 = .ready then 0 else 1) = cnt l := by
  cases l with
  | nil => rfl
  | cons r t => cases r <;> simp only [nextRd, cnt] <;> rfl

theorem readyStep_weight (s : St) (i : Nat) (hi : i < s.n) :
    svcsWeight (readyStep s i) + (if rdOf s i = .ready then 0 else 1) = svcsWeight s := by
  unfold svcsWeight
  have hn : (readyStep s i).n = s.n := rfl
  rw [hn]
  have h := sumTo_upd (f := fun j => svcWeight (s.svc j)) (g := fun j => svcWeight ((readyStep s i).svc j)) s.n i hi
    (fun j hj => by simp only [readyStep_svc, if_neg hj])
  have hw : svcWeight ((readyStep s i).svc i) + (if rdOf s i = .ready then 0 else 1) = svcWeight (s.svc i) := by
    simp only [readyStep_svc, if_true, svcWeight]
    have := cnt_tail (s.svc i).script
    unfold rdOf; omega
  omega

/-- a sweep never adds work, and one that does not end all-ready has used up a non-`Ready` answer -/
theorem sweepFrom_weight (k : Nat) : ∀ (s : St) (i : Nat) (r : Bool), i + k ≤ s.n →
    svcsWeight (sweepFrom s i r k).1 + (if (sweepFrom s i r k).2 = .ok r then 0 else 1) ≤ svcsWeight s := by
  induction k with
  | zero => intro s i r _; simp [sweepFrom]
  | succ k ih =>
    intro s i r hik
    rcases sweepFrom_cases s i r k with ⟨_, e⟩ | ⟨_, hr, e⟩ | ⟨_, hr, e⟩ | ⟨_, hr, e⟩ <;> rw [e]
    · exact ih s (i + 1) r (by omega)
    · have h1 := ih (readyStep s i) (i + 1) r (by show i + 1 + k ≤ s.n; omega)
      have h2 := readyStep_weight s i (by omega)
      rw [hr] at h2; simp at h2; omega
    · have h1 := ih (readyStep s i) (i + 1) false (by show i + 1 + k ≤ s.n; omega)
      have h2 := readyStep_weight s i (by omega)
      rw [hr] at h2; simp at h2
      have h3 : svcsWeight (sweepFrom (readyStep s i) (i + 1) false k).1 ≤ svcsWeight (readyStep s i) := by
        split at h1 <;> omega
      split <;> omega
    · have h2 := readyStep_weight s i (by omega)
      rw [hr] at h2; simp at h2
      simp; omega

theorem sweep_weight {s s1 : St} {r : Sweep} (h : sweep s = (s1, r)) :
    svcsWeight s1 + (if r = .ok true then 0 else 1) ≤ svcsWeight s := by
  have := sweepFrom_weight s.n s 0 true (by omega)
  unfold sweep at h; rw [h] at this; exact this


theorem svcsWeight_congr {s s' : St} (hn : s'.n = s.n) (hs : ∀ j, j < s.n → svcWeight (s'.svc j) = svcWeight (s.svc j)) :
    svcsWeight s' = svcsWeight s := by
  unfold svcsWeight; rw [hn]; exact sumTo_congr _ hs

def LoopRes.again : LoopRes → Bool
  | .toUnavailable => true
  | .restart _ => true
  | _ => false

theorem availLoop_weight (q : List Conn) : ∀ (s : St),
    svcsWeight (availLoop s q).1 + (if (availLoop s q).2.again then 1 else 0) ≤ svcsWeight s := by
  induction q with
  | nil =>
    intro s
    rcases hsw : sweep s with ⟨s1, r⟩
    have hw := sweep_weight hsw
    cases r with
    | err i => rw [availLoop_nil_err hsw]; simp [LoopRes.again] at hw ⊢; exact hw
    | ok b => cases b with
      | false => rw [availLoop_nil_false hsw]; simp [LoopRes.again] at hw ⊢; exact hw
      | true => cases hco : s1.chanOpen with
        | true => rw [availLoop_nil_open hsw hco]; simp [LoopRes.again] at hw ⊢; exact hw
        | false => rw [availLoop_nil_closed hsw hco]; simp [LoopRes.again] at hw ⊢; exact hw
  | cons c q ih =>
    intro s
    rcases hsw : sweep s with ⟨s1, r⟩
    have hw := sweep_weight hsw
    cases r with
    | err i => rw [availLoop_cons_err c q hsw]; simp [LoopRes.again] at hw ⊢; exact hw
    | ok b => cases b with
      | false => rw [availLoop_cons_false c q hsw]; simp [LoopRes.again] at hw ⊢; exact hw
      | true =>
        by_cases htok : c.2 < s1.n
        · rw [availLoop_cons_call c q hsw htok]
          have := ih { (emit s1 [.call c.2 (s1.svc c.2).inc c]) with inflight := s1.inflight ++ [c], queue := q }
          have e : svcsWeight { (emit s1 [.call c.2 (s1.svc c.2).inc c]) with inflight := s1.inflight ++ [c], queue := q } = svcsWeight s1 := rfl
          rw [e] at this; simp at hw; omega
        · rw [availLoop_cons_bad c q hsw htok]; simp [LoopRes.again] at hw ⊢; exact hw

theorem restartService_weight (s : St) (i : Nat) (hi : i < s.n) :
    svcsWeight (restartService s i) + stateWeight (restartService s i).state = svcsWeight s := by
  have h := sumTo_upd (f := fun j => svcWeight (s.svc j)) (g := fun j => svcWeight ((restartService s i).svc j)) s.n i hi
    (fun j hj => by simp [restartService, upd, hj, emit])
  have hw : svcWeight ((restartService s i).svc i) + stateWeight (restartService s i).state = svcWeight (s.svc i) := by
    simp only [restartService, upd, if_true, svcWeight, stateWeight, emit]
    cases hf : (s.svc i).future with
    | nil => simp [futWeight, cnt]
    | cons a t => simp [futWeight]; omega
  unfold svcsWeight
  have hn : (restartService s i).n = s.n := rfl
  rw [hn]; omega

theorem created_weight (s : St) (tok : Nat) (sc : List Rd) (hi : tok < s.n) :
    svcsWeight (created s tok sc) ≤ svcsWeight s + cnt sc := by
  have h := sumTo_upd (f := fun j => svcWeight (s.svc j)) (g := fun j => svcWeight ((created s tok sc).svc j)) s.n tok hi
    (fun j hj => by simp [created, upd, hj])
  have hw : svcWeight ((created s tok sc).svc tok) ≤ svcWeight (s.svc tok) + cnt sc := by
    simp only [created, upd, if_true, svcWeight]; omega
  unfold svcsWeight
  have hn : (created s tok sc).n = s.n := rfl
  rw [hn]; omega

theorem shutdownSvcs_weight (s : St) (f : Bool) : svcsWeight (shutdownSvcs s f) = svcsWeight s := by
  unfold svcsWeight
  show sumTo (fun i => svcWeight (markStopped f (s.svc i))) s.n = _
  apply sumTo_congr
  intro j _; unfold markStopped; split <;> rfl

/-- the `Stop` handler does not touch the scripts; if the worker goes on after a `Stop` it is in `Shutdown` -/
theorem stopPhase_weight (s : St) : svcsWeight (stopPhase s).1 = svcsWeight s ∧
    ((stopPhase s).2 = false → s.stopQ ≠ [] → ∃ t sf k, (stopPhase s).1.state = .shutdown t sf k) ∧
    ((stopPhase s).2 = false → s.stopQ = [] → (stopPhase s).1.state = s.state) := by
  cases hq : s.stopQ with
  | nil => rw [stopPhase_nil hq]; exact ⟨rfl, fun _ h => absurd rfl h, fun _ _ => rfl⟩
  | cons a rest =>
    obtain ⟨k, g⟩ := a
    by_cases h0 : s.raw = 0
    · rw [stopPhase_underflow hq h0]; exact ⟨rfl, fun h => by simp at h, fun h => by simp at h⟩
    · by_cases h1 : Src.wcTotal s.raw = 0
      · rw [stopPhase_idle hq h0 h1]; exact ⟨rfl, fun h => by simp at h, fun h => by simp at h⟩
      · cases g with
        | false =>
          rw [stopPhase_forced hq h0 h1]
          exact ⟨shutdownSvcs_weight { s with stopQ := rest } true, fun h => by simp at h, fun h => by simp at h⟩
        | true =>
          rw [stopPhase_graceful hq h0 h1]
          exact ⟨shutdownSvcs_weight { s with stopQ := rest } false, fun _ _ => ⟨_, _, _, rfl⟩, fun _ h => by simp at h⟩

/-- **every re-entry of `poll` lowers the measure** -/
theorem arm_decreases {s : St} (hg : Good s) (hf : s.finished = false) (hb : (arm s).2 = true) :
    measure (arm s).1 < measure s := by
  have hsv := hg.svc
  unfold SvcOK at hsv
  rw [hf] at hsv; simp only [Bool.false_eq_true, false_or] at hsv
  cases hst : s.state with
  | unavailable =>
    rw [hst] at hsv
    rcases hsw : sweep s with ⟨s1, r⟩
    have hw := sweep_weight hsw
    have hc := sweep_n hsw
    simp only [core, Prod.mk.injEq] at hc
    cases r with
    | ok b => cases b with
      | true =>
        rw [arm_unavail_true hst hsw]
        have e : svcsWeight { s1 with state := .available } = svcsWeight s1 := rfl
        simp only [measure, e, hst, stateWeight, rank]; simp [LoopRes.again] at hw; omega
      | false => rw [arm_unavail_false hst hsw] at hb; simp at hb
    | err i =>
      obtain ⟨a, _⟩ := sweep_err_spec hsw hsv
      rw [arm_unavail_err hst hsw]
      have h1 := restartService_weight s1 i (hc.1 ▸ a)
      obtain ⟨_, _, _, _, _, _, x, y, z, hs⟩ := restartService_frame s1 i
      simp only [measure, hst, stateWeight, rank]
      rw [hs] at h1 ⊢; simp only [rank, stateWeight] at h1 ⊢; simp [LoopRes.again] at hw; omega
  | restarting tok fp fok sc =>
    rw [hst] at hsv
    cases fp with
    | succ k => rw [arm_restarting_pending hst] at hb; simp at hb
    | zero => cases fok with
      | false => rw [arm_restarting_err hst] at hb; simp at hb
      | true =>
        rw [arm_restarting_ok hst]
        have h1 := created_weight (emit s [.facPoll tok .ok]) tok sc hsv.1
        have e : svcsWeight (emit s [.facPoll tok .ok]) = svcsWeight s := rfl
        rw [e] at h1
        have e2 : (created (emit s [.facPoll tok .ok]) tok sc).state = .unavailable := rfl
        simp only [measure, hst, e2, stateWeight, rank]; omega
  | shutdown t sf tx => rw [arm_shutdown hst] at hb; simp at hb
  | available =>
    rw [hst] at hsv
    have hw := availLoop_weight s.queue s
    have hsp := availLoop_spec s.queue s hsv
    rcases hal : availLoop s s.queue with ⟨s1, r⟩
    rw [hal] at hw hsp
    obtain ⟨k1, _, _, k4, _, _, _⟩ := hsp
    simp only [core2, Prod.mk.injEq] at k1
    cases r with
    | pending => rw [arm_avail_pending hst hal] at hb; simp at hb
    | fault => rw [arm_avail_fault hst hal] at hb; simp at hb
    | toUnavailable =>
      rw [arm_avail_unavail hst hal]
      have e : svcsWeight { s1 with state := .unavailable } = svcsWeight s1 := rfl
      simp only [measure, e, hst, stateWeight, rank]; simp [LoopRes.again] at hw; omega
    | restart i =>
      obtain ⟨a, _⟩ := k4 i rfl
      rw [arm_avail_restart hst hal]
      have h1 := restartService_weight s1 i (k1.1 ▸ a)
      obtain ⟨_, _, _, _, _, _, x, y, z, hs⟩ := restartService_frame s1 i
      simp only [measure, hst, stateWeight, rank]
      rw [hs] at h1 ⊢; simp only [rank, stateWeight] at h1 ⊢; simp [LoopRes.again] at hw; omega
    | closed =>
      rw [arm_avail_closed hst hal] at hb ⊢
      rcases closedArm_cases s1 with ⟨_, _, e⟩ | ⟨_, _, e⟩ | ⟨hne, e⟩ <;> rw [e] at hb ⊢
      · simp at hb
      · simp at hb
      · -- a `Stop` found in the `None` arm: the worker goes on only into `Shutdown`
        simp only [Bool.not_eq_eq_eq_not, Bool.not_true] at hb
        obtain ⟨w1, w2, _⟩ := stopPhase_weight s1
        obtain ⟨t, sf, k, hs⟩ := w2 hb hne
        have hs1w : svcsWeight s1 ≤ svcsWeight s := by simp [LoopRes.again] at hw; omega
        simp only [measure, hst, hs, stateWeight, rank, w1]; omega


/-- the fault, if any, is not "out of fuel" -/
def NoFuel (s : St) : Prop := s.fault ≠ some .fuel

theorem sweep_nofuel {s s1 : St} {r : Sweep} (h : sweep s = (s1, r)) (hn : NoFuel s) : NoFuel s1 := by
  have hc := sweep_n h
  simp only [core, Prod.mk.injEq] at hc
  unfold NoFuel; rw [hc.2.2.2.2.2.2.2.2.2.2.2.2.2.2.2]; exact hn

theorem availLoop_nofuel (q : List Conn) : ∀ (s : St), NoFuel s → NoFuel (availLoop s q).1 := by
  induction q with
  | nil =>
    intro s hn
    rcases hsw : sweep s with ⟨s1, r⟩
    have h1 := sweep_nofuel hsw hn
    cases r with
    | err i => rw [availLoop_nil_err hsw]; exact h1
    | ok b => cases b with
      | false => rw [availLoop_nil_false hsw]; exact h1
      | true => cases hco : s1.chanOpen with
        | true => rw [availLoop_nil_open hsw hco]; exact h1
        | false => rw [availLoop_nil_closed hsw hco]; exact h1
  | cons c q ih =>
    intro s hn
    rcases hsw : sweep s with ⟨s1, r⟩
    have h1 := sweep_nofuel hsw hn
    cases r with
    | err i => rw [availLoop_cons_err c q hsw]; exact h1
    | ok b => cases b with
      | false => rw [availLoop_cons_false c q hsw]; exact h1
      | true =>
        by_cases htok : c.2 < s1.n
        · rw [availLoop_cons_call c q hsw htok]; exact ih _ h1
        · rw [availLoop_cons_bad c q hsw htok]; simp [NoFuel, setFault]

theorem stopPhase_nofuel {s : St} (hn : NoFuel s) : NoFuel (stopPhase s).1 := by
  cases hq : s.stopQ with
  | nil => rw [stopPhase_nil hq]; exact hn
  | cons a rest =>
    obtain ⟨k, g⟩ := a
    by_cases h0 : s.raw = 0
    · rw [stopPhase_underflow hq h0]; simp [NoFuel, setFault]
    · by_cases h1 : Src.wcTotal s.raw = 0
      · rw [stopPhase_idle hq h0 h1]; exact hn
      · cases g with
        | false => rw [stopPhase_forced hq h0 h1]; exact hn
        | true => rw [stopPhase_graceful hq h0 h1]; exact hn

theorem shutdownArm_nofuel {s : St} (t sf tx : Nat) (hn : NoFuel s) : NoFuel (shutdownArm s t sf tx) := by
  have hr : NoFuel (release s s.queue) := by
    obtain ⟨_, cs, _, _, _, h5⟩ := release_spec s.queue s
    rcases h5 with ⟨h, _⟩ | ⟨h, _⟩
    · unfold NoFuel; rw [h]; exact hn
    · unfold NoFuel; rw [h]; simp
  have hd : NoFuel (drained s) := by unfold drained; split <;> exact hr
  cases hf : (release s s.queue).fault.isSome with
  | true => rw [shutdownArm_fault t sf tx hf]; exact hr
  | false =>
    by_cases c1 : (drained s).now < t
    · rw [shutdownArm_pending sf tx hf c1]; exact hd
    · by_cases c2 : (drained s).raw = 0
      · rw [shutdownArm_underflow sf tx hf c1 c2]; simp [NoFuel, setFault]
      · by_cases c3 : Src.wcTotal (drained s).raw = 0
        · rw [shutdownArm_true sf tx hf c1 c2 c3]; exact hd
        · cases c4 : Src.wkTimedOut ((drained s).now - sf) (drained s).timeout with
          | true => rw [shutdownArm_false tx hf c1 c2 c3 c4]; exact hd
          | false => rw [shutdownArm_rearm tx hf c1 c2 c3 c4]; exact hd

theorem arm_nofuel {s : St} (hn : NoFuel s) : NoFuel (arm s).1 := by
  cases hst : s.state with
  | unavailable =>
    rcases hsw : sweep s with ⟨s1, r⟩
    have h1 := sweep_nofuel hsw hn
    cases r with
    | ok b => cases b with
      | true => rw [arm_unavail_true hst hsw]; exact h1
      | false => rw [arm_unavail_false hst hsw]; exact h1
    | err i => rw [arm_unavail_err hst hsw]; exact h1
  | restarting tok fp fok sc =>
    cases fp with
    | succ k => rw [arm_restarting_pending hst]; exact hn
    | zero => cases fok with
      | true => rw [arm_restarting_ok hst]; exact hn
      | false => rw [arm_restarting_err hst]; simp [NoFuel, setFault]
  | shutdown t sf tx => rw [arm_shutdown hst]; exact shutdownArm_nofuel t sf tx hn
  | available =>
    have h1 := availLoop_nofuel s.queue s hn
    rcases hal : availLoop s s.queue with ⟨s1, r⟩
    rw [hal] at h1
    cases r with
    | pending => rw [arm_avail_pending hst hal]; exact h1
    | fault => rw [arm_avail_fault hst hal]; exact h1
    | toUnavailable => rw [arm_avail_unavail hst hal]; exact h1
    | restart i => rw [arm_avail_restart hst hal]; exact h1
    | closed =>
      rw [arm_avail_closed hst hal]
      rcases closedArm_cases s1 with ⟨_, _, e⟩ | ⟨_, _, e⟩ | ⟨_, e⟩ <;> rw [e]
      · exact h1
      · exact h1
      · exact stopPhase_nofuel h1

theorem body_nofuel {s : St} (hn : NoFuel s) : NoFuel (body s).1 := by
  unfold body; split
  · exact stopPhase_nofuel hn
  · exact arm_nofuel (stopPhase_nofuel hn)

theorem body_decreases {s : St} (hg : Good s) (hf : s.finished = false) (hb : (body s).2 = true) :
    measure (body s).1 < measure s := by
  unfold body at hb ⊢
  split at hb
  · simp at hb
  · rename_i hc
    simp only [hc, if_false, Bool.false_eq_true]
    simp only [Bool.or_eq_true, not_or, Bool.not_eq_true] at hc
    have hf1 := (stopPhase_finished s hc.1).trans hf
    have h1 := arm_decreases hg.stopPhase hf1 hb
    obtain ⟨w1, w2, w3⟩ := stopPhase_weight s
    by_cases hq : s.stopQ = []
    · have hst := w3 hc.1 hq
      have : measure (stopPhase s).1 = measure s := by simp only [measure, w1, hst]
      omega
    · obtain ⟨t, sf, k, hs⟩ := w2 hc.1 hq
      rw [arm_shutdown hs] at hb; simp at hb

/-- **the self-recursion of `poll` never runs out of fuel**: with more fuel than the measure (three per
non-`Ready` answer still in some script, plus the rank of the state) `poll` does not fault with `.fuel` -/
theorem fuel_enough (f : Nat) : ∀ (s : St), Good s → s.finished = false → NoFuel s → measure s < f → NoFuel (pollW f s) := by
  induction f with
  | zero => intro s _ _ _ h; omega
  | succ f ih =>
    intro s hg hf hn hm
    simp only [pollW]
    split
    · rename_i hb
      obtain ⟨g1, g2⟩ := hg.body hf
      exact ih _ g1 (g2 hb) (body_nofuel hn) (by have := body_decreases hg hf hb; omega)
    · exact body_nofuel hn




/-! ### C01, worker side: routing by token, distinct ids, nothing leaks -/

/-- a `call` goes to the service registered for the connection's listener token, which exists -/
def CallOK (n : Nat) : Ev → Prop
  | .call tok _ c => tok = c.2 ∧ tok < n
  | _ => True

theorem callOK_of_not_call {n : Nat} {e : Ev} (h : e.isCall = false) : CallOK n e := by
  cases e <;> simp [Ev.isCall] at h <;> trivial

theorem callsOf_nil_nocall {m : List Ev} (h : callsOf m = []) : ∀ e ∈ m, e.isCall = false := by
  intro e he
  simp only [callsOf, List.filterMap_eq_nil_iff] at h
  have := h e he
  cases e <;> simp_all [Ev.isCall]

theorem LoopTrace.callOK {n : Nat} {tr : List Ev} {cs : List Conn} (h : LoopTrace n tr cs) : ∀ e ∈ tr, CallOK n e := by
  induction h with
  | nil => simp
  | cons c inc hsw hlt _ ih =>
    intro e he; simp only [List.mem_append, List.mem_cons] at he
    rcases he with he | rfl | he
    · obtain ⟨i, hi, rfl⟩ := List.getElem_of_mem he
      obtain ⟨inc', h3⟩ := hsw.2 i (by rw [← hsw.1]; exact hi)
      rw [List.getElem?_eq_getElem hi] at h3
      simp at h3; rw [h3]; trivial
    · exact ⟨rfl, hlt⟩
    · exact ih e he

/-- what no part of `poll` touches: the record of what was sent -/
def core5 (s : St) := (s.n, s.sent, s.nextConn)

/-- the C01 (worker side) invariant -/
structure More (s : St) : Prop where
  calls : ∀ e ∈ s.log, CallOK s.n e
  ids : s.sent.map (·.1) = List.range s.nextConn
  finq : s.finished = true → s.queue = []

/-- one piece of `poll`: appends only well-routed calls, leaves the sent record alone, and if it finishes the channel is empty -/
structure Piece (s s' : St) : Prop where
  evs : ∃ evs, s'.log = s.log ++ evs ∧ ∀ e ∈ evs, CallOK s.n e
  c5 : core5 s' = core5 s
  finq : s'.finished = true → s.finished = false → s'.queue = []

theorem Piece.refl (s : St) : Piece s s := ⟨⟨[], by simp, by simp⟩, rfl, fun h1 h2 => by rw [h2] at h1; cases h1⟩

theorem Piece.trans {a b c : St} (h1 : Piece a b) (h2 : Piece b c) (hb : b.finished = a.finished) : Piece a c := by
  obtain ⟨e1, l1, p1⟩ := h1.evs
  obtain ⟨e2, l2, p2⟩ := h2.evs
  have hn : b.n = a.n := congrArg (·.1) h1.c5
  refine ⟨⟨e1 ++ e2, by rw [l2, l1]; simp, ?_⟩, h2.c5.trans h1.c5, fun hc ha => h2.finq hc (hb.trans ha)⟩
  intro e he; simp only [List.mem_append] at he
  rcases he with he | he
  · exact p1 e he
  · exact hn ▸ p2 e he

theorem More.piece {s s' : St} (h : More s) (p : Piece s s') (hs : s.finished = false) : More s' := by
  obtain ⟨evs, l, pe⟩ := p.evs
  have hc := p.c5
  simp only [core5, Prod.mk.injEq] at hc
  refine ⟨?_, by rw [hc.2.1, hc.2.2]; exact h.ids, fun hf => p.finq hf hs⟩
  intro e he; rw [l] at he; simp only [List.mem_append] at he
  rw [hc.1]
  rcases he with he | he
  · exact h.calls e he
  · exact pe e he

theorem Piece.of_nocall {s s' : St} {evs : List Ev} (hl : s'.log = s.log ++ evs) (hnc : ∀ e ∈ evs, e.isCall = false)
    (hc : core5 s' = core5 s) (hf : s'.finished = s.finished) : Piece s s' :=
  ⟨⟨evs, hl, fun e he => callOK_of_not_call (hnc e he)⟩, hc, fun h1 h2 => by rw [hf, h2] at h1; cases h1⟩

theorem Piece.of_finish (s : St) (b : Bool) : Piece s (finish s b) := by
  obtain ⟨evs, hl, hc⟩ := finish_quiet s b
  exact ⟨⟨evs, hl, fun e he => callOK_of_not_call (callsOf_nil_nocall hc e he)⟩, rfl, fun _ _ => rfl⟩

theorem Piece.of_stopPhase (s : St) : Piece s (stopPhase s).1 := by
  cases hq : s.stopQ with
  | nil => rw [stopPhase_nil hq]; exact Piece.of_nocall (evs := []) (by simp) (by simp) rfl rfl
  | cons a rest =>
    obtain ⟨k, g⟩ := a
    by_cases h0 : s.raw = 0
    · rw [stopPhase_underflow hq h0]
      exact Piece.of_nocall (evs := [.replyGone k]) rfl (by intro e he; simp at he; subst he; rfl) rfl rfl
    · by_cases h1 : Src.wcTotal s.raw = 0
      · rw [stopPhase_idle hq h0 h1]
        exact (Piece.of_nocall (s := s) (s' := emit { s with stopQ := rest } [.reply k true]) (evs := [.reply k true]) rfl
          (by intro e he; simp at he; subst he; rfl) rfl rfl).trans (Piece.of_finish _ _) rfl
      · cases g with
        | false =>
          rw [stopPhase_forced hq h0 h1]
          exact (Piece.of_nocall (s := s) (s' := emit (shutdownSvcs { s with stopQ := rest } true) [.reply k false]) (evs := [.reply k false]) rfl
            (by intro e he; simp at he; subst he; rfl) rfl rfl).trans (Piece.of_finish _ _) rfl
        | true =>
          rw [stopPhase_graceful hq h0 h1]
          refine Piece.of_nocall (evs := stateTx s.state ++ [.armTimer (s.now + Src.wkTickFirstMs)]) rfl ?_ rfl rfl
          intro e he; simp only [List.mem_append, List.mem_singleton] at he
          rcases he with he | rfl
          · exact (stateTx_plain _ e he).1
          · rfl

theorem drained_finished (s : St) : (drained s).finished = s.finished := by
  have : (release s s.queue).finished = s.finished := by
    obtain ⟨hc, _⟩ := release_spec s.queue s
    simp only [core3, Prod.mk.injEq] at hc; exact hc.2.2.2.2.2.2.2.2.2.2.2.1
  unfold drained; split <;> exact this

theorem Piece.of_shutdownArm (s : St) (t sf tx : Nat) : Piece s (shutdownArm s t sf tx) := by
  obtain ⟨hc, evs, hl, hcalls⟩ := shutdownArm_quiet s t sf tx
  simp only [core4, Prod.mk.injEq] at hc
  refine ⟨⟨evs, hl, fun e he => callOK_of_not_call (callsOf_nil_nocall hcalls e he)⟩, ?_, ?_⟩
  · simp only [core5, Prod.mk.injEq]; exact ⟨hc.1, hc.2.2.2.2.2.1, hc.2.2.2.2.2.2.1⟩
  · intro hfin hs
    have hrf : (release s s.queue).finished = s.finished := by
      obtain ⟨h3, _⟩ := release_spec s.queue s
      simp only [core3, Prod.mk.injEq] at h3; exact h3.2.2.2.2.2.2.2.2.2.2.2.1
    have hdf := drained_finished s
    cases hf : (release s s.queue).fault.isSome with
    | true => rw [shutdownArm_fault t sf tx hf] at hfin; rw [hrf, hs] at hfin; cases hfin
    | false =>
      by_cases c1 : (drained s).now < t
      · rw [shutdownArm_pending sf tx hf c1] at hfin; rw [hdf, hs] at hfin; cases hfin
      · by_cases c2 : (drained s).raw = 0
        · rw [shutdownArm_underflow sf tx hf c1 c2] at hfin
          have : (drained s).finished = true := hfin
          rw [hdf, hs] at this; cases this
        · by_cases c3 : Src.wcTotal (drained s).raw = 0
          · rw [shutdownArm_true sf tx hf c1 c2 c3]; rfl
          · cases c4 : Src.wkTimedOut ((drained s).now - sf) (drained s).timeout with
            | true => rw [shutdownArm_false tx hf c1 c2 c3 c4]; rfl
            | false =>
              rw [shutdownArm_rearm tx hf c1 c2 c3 c4] at hfin
              have : (drained s).finished = true := hfin
              rw [hdf, hs] at this; cases this

theorem Piece.of_sweep {s s1 : St} {r : Sweep} (h : sweep s = (s1, r)) : Piece s s1 := by
  have hc := sweep_n h
  simp only [core, Prod.mk.injEq] at hc
  obtain ⟨c1, c2, c3, c4, c5, c6, c7, c8, c9, c10, c11, c12, c13, c14, c15, c16⟩ := hc
  have hc5 : core5 s1 = core5 s := by simp only [core5, Prod.mk.injEq]; exact ⟨c1, c10, c11⟩
  unfold ActixNet.Worker.sweep at h
  cases r with
  | ok b =>
    have := sweepFrom_ok s.n s 0 true b (by rw [h])
    rw [h] at this
    obtain ⟨evs, e1, e2⟩ := this
    exact Piece.of_nocall e1 (fun e he => by have := (e2 e he).1; cases e <;> simp_all [Ev.isPR, Ev.isCall]) hc5 c13
  | err i =>
    have := sweepFrom_err_spec s.n s 0 true i (by rw [h])
    rw [h] at this
    obtain ⟨_, _, _, _, evs, inc, e1, e2⟩ := this
    refine Piece.of_nocall (evs := evs ++ [.pollReady i inc .err]) (by rw [← List.append_assoc]; exact e1) ?_ hc5 c13
    intro e he; simp only [List.mem_append, List.mem_singleton] at he
    rcases he with he | rfl
    · have := (e2 e he).1; cases e <;> simp_all [Ev.isPR, Ev.isCall]
    · rfl

theorem Piece.of_restartService (s : St) (i : Nat) : Piece s (restartService s i) :=
  Piece.of_nocall (evs := [.createService i]) rfl (by intro e he; simp at he; subst he; rfl) rfl rfl

theorem Piece.of_availLoop {s : St} (hp : AllPolled s) : Piece s (availLoop s s.queue).1 := by
  obtain ⟨k1, _, ⟨tr, cs, last, g1, g2, _, _, g5, g6, _⟩, _, _, _, _⟩ := availLoop_spec s.queue s hp
  simp only [core2, Prod.mk.injEq] at k1
  obtain ⟨c1, c2, c3, c4, c5, c6, c7, c8, c9, c10, c11, c12⟩ := k1
  refine ⟨⟨tr ++ last, by rw [g1]; simp, ?_⟩, by simp only [core5, Prod.mk.injEq]; exact ⟨c1, c8, c9⟩, fun h1 h2 => by rw [c11, h2] at h1; cases h1⟩
  intro e he; simp only [List.mem_append] at he
  rcases he with he | he
  · exact g2.callOK e he
  · apply callOK_of_not_call
    by_cases hr : ∃ i, (ActixNet.Worker.availLoop s s.queue).2 = .restart i
    · obtain ⟨i, hi⟩ := hr
      obtain ⟨evs, inc, e1, e2⟩ := g5 i hi
      rw [e1] at he; simp only [List.mem_append, List.mem_singleton] at he
      rcases he with he | rfl
      · exact e2.nocall e he
      · rfl
    · exact (g6 (fun i hi => hr ⟨i, hi⟩)).nocall e he


theorem Piece.of_closedArm (s : St) : Piece s (closedArm s).1 := by
  rcases closedArm_cases s with ⟨_, _, e⟩ | ⟨_, _, e⟩ | ⟨_, e⟩ <;> rw [e]
  · exact Piece.of_nocall (evs := []) (by simp) (by simp) rfl rfl
  · exact Piece.of_finish s false
  · exact Piece.of_stopPhase s

theorem Piece.of_arm {s : St} (hg : Good s) (hf : s.finished = false) : Piece s (arm s).1 := by
  have hsv := hg.svc
  unfold SvcOK at hsv
  rw [hf] at hsv; simp only [Bool.false_eq_true, false_or] at hsv
  cases hst : s.state with
  | unavailable =>
    rcases hsw : sweep s with ⟨s1, r⟩
    have hp := Piece.of_sweep hsw
    have hfin : s1.finished = s.finished := by
      have hc := sweep_n hsw; simp only [core, Prod.mk.injEq] at hc; exact hc.2.2.2.2.2.2.2.2.2.2.2.2.1
    cases r with
    | ok b => cases b with
      | true =>
        rw [arm_unavail_true hst hsw]
        exact hp.trans (Piece.of_nocall (s := s1) (s' := { s1 with state := .available }) (evs := []) (by simp) (by simp) rfl rfl) hfin
      | false => rw [arm_unavail_false hst hsw]; exact hp
    | err i => rw [arm_unavail_err hst hsw]; exact hp.trans (Piece.of_restartService s1 i) hfin
  | restarting tok fp fok sc =>
    cases fp with
    | succ k =>
      rw [arm_restarting_pending hst]
      exact Piece.of_nocall (evs := [.facPoll tok .pending]) rfl (by intro e he; simp at he; subst he; rfl) rfl rfl
    | zero => cases fok with
      | true =>
        rw [arm_restarting_ok hst]
        exact Piece.of_nocall (evs := [.facPoll tok .ok]) rfl (by intro e he; simp at he; subst he; rfl) rfl rfl
      | false =>
        rw [arm_restarting_err hst]
        exact Piece.of_nocall (evs := [.facPoll tok .err]) rfl (by intro e he; simp at he; subst he; rfl) rfl rfl
  | shutdown t sf tx => rw [arm_shutdown hst]; exact Piece.of_shutdownArm s t sf tx
  | available =>
    rw [hst] at hsv
    have hp := Piece.of_availLoop hsv
    have hc2 := availLoop_core2 s.queue s
    rcases hal : availLoop s s.queue with ⟨s1, r⟩
    rw [hal] at hp hc2
    simp only [core2, Prod.mk.injEq] at hc2
    have hfin : s1.finished = s.finished := hc2.2.2.2.2.2.2.2.2.2.2.1
    cases r with
    | pending => rw [arm_avail_pending hst hal]; exact hp
    | fault => rw [arm_avail_fault hst hal]; exact hp
    | toUnavailable =>
      rw [arm_avail_unavail hst hal]
      exact hp.trans (Piece.of_nocall (s := s1) (s' := { s1 with state := .unavailable }) (evs := []) (by simp) (by simp) rfl rfl) hfin
    | restart i => rw [arm_avail_restart hst hal]; exact hp.trans (Piece.of_restartService s1 i) hfin
    | closed => rw [arm_avail_closed hst hal]; exact hp.trans (Piece.of_closedArm s1) hfin

theorem Piece.of_body {s : St} (hg : Good s) (hf : s.finished = false) : Piece s (body s).1 := by
  unfold ActixNet.Worker.body
  split
  · exact Piece.of_stopPhase s
  · rename_i hc
    simp only [Bool.or_eq_true, not_or, Bool.not_eq_true] at hc
    have hf1 := stopPhase_finished s hc.1
    exact (Piece.of_stopPhase s).trans (Piece.of_arm hg.stopPhase (hf1.trans hf)) hf1

theorem More.pollW (f : Nat) : ∀ (s : St), More s → Good s → s.finished = false → More (pollW f s) := by
  induction f with
  | zero => intro s h _ _; exact ⟨h.calls, h.ids, h.finq⟩
  | succ f ih =>
    intro s h hg hf
    simp only [ActixNet.Worker.pollW]
    obtain ⟨g1, g2⟩ := hg.body hf
    have hm := h.piece (Piece.of_body hg hf) hf
    split
    · rename_i hb; exact ih _ hm g1 (g2 hb)
    · exact hm

theorem More.step {s : St} (h : More s) (op : Op) (hnp : ∀ fuel, op ≠ .poll fuel) : More (step s op).1 := by
  cases op with
  | poll fuel => exact absurd rfl (hnp fuel)
  | pollY fuel acts => exact h
  | conn tok =>
    simp only [ActixNet.Worker.step]
    split
    · exact h
    · split
      · exact h
      · rename_i hfin
        refine ⟨h.calls, ?_, fun hf => absurd hf hfin⟩
        show (s.sent ++ [(s.nextConn, tok)]).map (·.1) = List.range (s.nextConn + 1)
        rw [List.map_append, h.ids, List.range_succ]; rfl
  | send tok =>
    simp only [ActixNet.Worker.step]
    split
    · exact h
    · split
      · exact h
      · rename_i hfin
        refine ⟨h.calls, ?_, fun hf => absurd hf hfin⟩
        show (s.sent ++ [(s.nextConn, tok)]).map (·.1) = List.range (s.nextConn + 1)
        rw [List.map_append, h.ids, List.range_succ]; rfl
  | inc => simp only [ActixNet.Worker.step]; split <;> exact ⟨h.calls, h.ids, h.finq⟩
  | closeChan => simp only [ActixNet.Worker.step]; split <;> exact ⟨h.calls, h.ids, h.finq⟩
  | closeStop => simp only [ActixNet.Worker.step]; split <;> exact ⟨h.calls, h.ids, h.finq⟩
  | advance ms => simp only [ActixNet.Worker.step]; split <;> exact ⟨h.calls, h.ids, h.finq⟩
  | finish id =>
    simp only [ActixNet.Worker.step]
    split
    · exact h
    · split <;> exact ⟨h.calls, h.ids, h.finq⟩
  | stop g =>
    simp only [ActixNet.Worker.step]
    split
    · exact h
    · split
      · refine ⟨?_, h.ids, h.finq⟩
        intro e he
        have : e ∈ s.log ++ [Ev.replyGone s.nextStop] := he
        simp only [List.mem_append, List.mem_singleton] at this
        rcases this with h1 | rfl
        · exact h.calls e h1
        · trivial
      · exact ⟨h.calls, h.ids, h.finq⟩

theorem More.runEnv (acts : List EnvOp) : ∀ (s : St), More s → More (ActixNet.Worker.runEnv s acts).1 := by
  induction acts with
  | nil => intro s h; exact h
  | cons a as ih =>
    intro s h
    exact ih _ (h.step a.toOp (by intro fuel; cases a <;> simp [EnvOp.toOp]))

theorem More.stepY {s : St} (h : More s) (hg : Good s) (op : Op) : More (ActixNet.Worker.stepY s op).1 := by
  have henter : ∀ {s : St}, More s → More (emit s [.enter]) := fun h =>
    ⟨fun e he => by
      have : e ∈ _ ++ [Ev.enter] := he
      simp only [List.mem_append, List.mem_singleton] at this
      rcases this with h1 | rfl
      · exact h.calls e h1
      · trivial, h.ids, h.finq⟩
  have hgenter : Good (emit s [.enter]) := ⟨hg.svc, hg.lg.plain (s' := emit s [.enter]) [.enter] (by intro e he; simp at he; subst he; exact ⟨rfl, rfl, rfl, rfl⟩) rfl rfl rfl rfl⟩
  cases op with
  | poll fuel =>
    simp only [ActixNet.Worker.stepY, ActixNet.Worker.step]
    split
    · exact h
    · rename_i hc
      simp only [Bool.or_eq_true, not_or, Bool.not_eq_true] at hc
      exact More.pollW fuel _ (henter h) hgenter hc.2
  | pollY fuel acts =>
    simp only [ActixNet.Worker.stepY]
    split
    · exact h
    · rename_i hc
      simp only [Bool.or_eq_true, not_or, Bool.not_eq_true] at hc
      have hf0 : (emit s [.enter]).finished = false := hc.2
      unfold ActixNet.Worker.pollY
      have hm1 := (henter h).piece (Piece.of_stopPhase _) hf0
      split
      · exact hm1
      · rename_i hc2
        simp only [Bool.or_eq_true, not_or, Bool.not_eq_true] at hc2
        have hf1 : (ActixNet.Worker.stopPhase (emit s [.enter])).1.finished = false := (stopPhase_finished _ hc2.1).trans hf0
        have hm2 := More.runEnv acts _ hm1
        have hg2 := Good.runEnv acts _ hgenter.stopPhase
        have hf2 : (ActixNet.Worker.runEnv (ActixNet.Worker.stopPhase (emit s [.enter])).1 acts).1.finished = false := by
          rw [runEnv_finished]; exact hf1
        have hm3 := hm2.piece (Piece.of_arm hg2 hf2) hf2
        obtain ⟨g1, g2⟩ := hg2.arm hf2
        split
        · rename_i hb; exact More.pollW fuel _ hm3 g1 (g2 hb)
        · exact hm3
  | _ => exact h.step _ (by intro fuel; simp)

theorem More.init (cfg : Cfg) : More (init cfg) :=
  ⟨fun e he => by simp [ActixNet.Worker.init] at he, rfl, fun hf => by simp [ActixNet.Worker.init] at hf⟩

theorem More.run (ops : List Op) : ∀ (s : St), More s → Good s → More (run s ops) := by
  induction ops with
  | nil => intro s h _; exact h
  | cons o os ih => intro s h hg; exact ih _ (h.stepY hg o) (hg.stepY o)




/-! ### never silently discarded while the worker runs (C01, worker side) -/

/-- a connection leaves the worker without having been handed to a service -/
def Ev.isDiscard : Ev → Bool
  | .released _ => true
  | .dropped _ => true
  | _ => false

/-- the worker is running normally: not finished, not shutting down, no `Stop` waiting, the server is there -/
def Running (s : St) : Prop :=
  s.finished = false ∧ (∀ t sf tx, s.state ≠ .shutdown t sf tx) ∧ s.stopQ = [] ∧ s.stopOpen = true

theorem availLoop_stopOpen (q : List Conn) : ∀ (s : St), (availLoop s q).1.stopOpen = s.stopOpen := by
  have hsw : ∀ {s s1 : St} {r : Sweep}, sweep s = (s1, r) → s1.stopOpen = s.stopOpen := by
    intro s s1 r h
    have := sweepFrom_stopOpen s.n s 0 true
    unfold sweep at h; rw [h] at this; exact this
  induction q with
  | nil =>
    intro s
    rcases h : sweep s with ⟨s1, r⟩
    have h1 := hsw h
    cases r with
    | err i => rw [availLoop_nil_err h]; exact h1
    | ok b => cases b with
      | false => rw [availLoop_nil_false h]; exact h1
      | true => cases hco : s1.chanOpen with
        | true => rw [availLoop_nil_open h hco]; exact h1
        | false => rw [availLoop_nil_closed h hco]; exact h1
  | cons c q ih =>
    intro s
    rcases h : sweep s with ⟨s1, r⟩
    have h1 := hsw h
    cases r with
    | err i => rw [availLoop_cons_err c q h]; exact h1
    | ok b => cases b with
      | false => rw [availLoop_cons_false c q h]; exact h1
      | true =>
        by_cases htok : c.2 < s1.n
        · rw [availLoop_cons_call c q h htok, ih]; exact h1
        · rw [availLoop_cons_bad c q h htok]; exact h1

theorem nodiscard_of_PR {evs : List Ev} (h : ∀ e ∈ evs, e.isPR = true) : ∀ e ∈ evs, e.isDiscard = false := by
  intro e he; have := h e he; cases e <;> simp_all [Ev.isPR, Ev.isDiscard]

theorem LoopTrace.nodiscard {n : Nat} {tr : List Ev} {cs : List Conn} (h : LoopTrace n tr cs) : ∀ e ∈ tr, e.isDiscard = false := by
  induction h with
  | nil => simp
  | cons c inc hsw _ _ ih =>
    intro e he; simp only [List.mem_append, List.mem_cons] at he
    rcases he with he | rfl | he
    · obtain ⟨i, hi, rfl⟩ := List.getElem_of_mem he
      obtain ⟨inc', h3⟩ := hsw.2 i (by rw [← hsw.1]; exact hi)
      rw [List.getElem?_eq_getElem hi] at h3
      simp at h3; rw [h3]; rfl
    · rfl
    · exact ih e he

/-- a running worker stays running through the arm and discards nothing -/
theorem arm_running {s : St} (hg : Good s) (hr : Running s) :
    Running (arm s).1 ∧ ∃ evs, (arm s).1.log = s.log ++ evs ∧ ∀ e ∈ evs, e.isDiscard = false := by
  obtain ⟨hf, hns, hq, ho⟩ := hr
  have hsv := hg.svc
  unfold SvcOK at hsv
  rw [hf] at hsv; simp only [Bool.false_eq_true, false_or] at hsv
  have hsw : ∀ {s1 : St} {r : Sweep}, sweep s = (s1, r) → s1.stopOpen = s.stopOpen := by
    intro s1 r h
    have := sweepFrom_stopOpen s.n s 0 true
    unfold sweep at h; rw [h] at this; exact this
  cases hst : s.state with
  | shutdown t sf tx => exact absurd hst (hns t sf tx)
  | unavailable =>
    rw [hst] at hsv
    rcases h : sweep s with ⟨s1, r⟩
    have hc := sweep_n h
    simp only [core, Prod.mk.injEq] at hc
    obtain ⟨c1, c2, c3, c4, c5, c6, c7, c8, c9, c10, c11, c12, c13, c14, c15, c16⟩ := hc
    have h1 := hsw h
    cases r with
    | ok b =>
      obtain ⟨_, evs, d, e, _⟩ := sweep_ok_spec h hsv
      cases b with
      | true =>
        rw [arm_unavail_true hst h]
        exact ⟨⟨c13.trans hf, fun _ _ _ hh => (by cases hh), c6.trans hq, h1.trans ho⟩, evs, d, nodiscard_of_PR e.isPR⟩
      | false =>
        rw [arm_unavail_false hst h]
        exact ⟨⟨c13.trans hf, fun t sf tx hh => (by rw [c3, hst] at hh; cases hh), c6.trans hq, h1.trans ho⟩, evs, d, nodiscard_of_PR e.isPR⟩
    | err i =>
      obtain ⟨_, _, _, evs, inc, d, e⟩ := sweep_err_spec h hsv
      rw [arm_unavail_err hst h]
      refine ⟨⟨c13.trans hf, fun _ _ _ hh => (by simp [restartService] at hh), c6.trans hq, h1.trans ho⟩,
        evs ++ [.pollReady i inc .err] ++ [.createService i], by rw [(restartService_frame s1 i).1, d]; simp, ?_⟩
      intro x hx; simp only [List.mem_append, List.mem_singleton] at hx
      rcases hx with (hx | rfl) | rfl
      · exact nodiscard_of_PR e.isPR x hx
      · rfl
      · rfl
  | restarting tok fp fok sc =>
    cases fp with
    | succ k =>
      rw [arm_restarting_pending hst]
      exact ⟨⟨hf, fun _ _ _ hh => (by cases hh), hq, ho⟩, [.facPoll tok .pending], rfl, by simp [Ev.isDiscard]⟩
    | zero => cases fok with
      | true =>
        rw [arm_restarting_ok hst]
        exact ⟨⟨hf, fun _ _ _ hh => (by cases hh), hq, ho⟩, [.facPoll tok .ok], rfl, by simp [Ev.isDiscard]⟩
      | false =>
        rw [arm_restarting_err hst]
        exact ⟨⟨hf, fun t sf tx hh => (by simp [setFault, emit, hst] at hh), hq, ho⟩, [.facPoll tok .err], rfl, by simp [Ev.isDiscard]⟩
  | available =>
    rw [hst] at hsv
    have hsp := availLoop_spec s.queue s hsv
    have hso := availLoop_stopOpen s.queue s
    rcases hal : availLoop s s.queue with ⟨s1, r⟩
    rw [hal] at hsp hso
    obtain ⟨k1, _, ⟨tr, cs, last, g1, g2, _, _, g5, g6, _⟩, _, _, _, _⟩ := hsp
    simp only [core2, Prod.mk.injEq] at k1
    obtain ⟨c1, c2, c3, c4, c5, c6, c7, c8, c9, c10, c11, c12⟩ := k1
    have hlast : ∀ e ∈ last, e.isDiscard = false := by
      by_cases hrr : ∃ i, r = .restart i
      · obtain ⟨i, hi⟩ := hrr
        obtain ⟨evs, inc, e1, e2⟩ := g5 i hi
        intro x hx; rw [e1] at hx; simp only [List.mem_append, List.mem_singleton] at hx
        rcases hx with hx | rfl
        · exact nodiscard_of_PR e2.isPR x hx
        · rfl
      · exact nodiscard_of_PR (g6 (fun i hi => hrr ⟨i, hi⟩)).isPR
    have hevs : ∀ e ∈ tr ++ last, e.isDiscard = false := by
      intro x hx; simp only [List.mem_append] at hx
      rcases hx with hx | hx
      · exact g2.nodiscard x hx
      · exact hlast x hx
    have hrun1 : s1.finished = false ∧ s1.stopQ = [] ∧ s1.stopOpen = true := ⟨c11.trans hf, c5.trans hq, hso.trans ho⟩
    cases r with
    | pending =>
      rw [arm_avail_pending hst hal]
      exact ⟨⟨hrun1.1, fun t sf tx hh => (by rw [c3, hst] at hh; cases hh), hrun1.2.1, hrun1.2.2⟩, tr ++ last, by rw [g1]; simp, hevs⟩
    | fault =>
      rw [arm_avail_fault hst hal]
      exact ⟨⟨hrun1.1, fun t sf tx hh => (by rw [c3, hst] at hh; cases hh), hrun1.2.1, hrun1.2.2⟩, tr ++ last, by rw [g1]; simp, hevs⟩
    | toUnavailable =>
      rw [arm_avail_unavail hst hal]
      exact ⟨⟨hrun1.1, fun _ _ _ hh => (by cases hh), hrun1.2.1, hrun1.2.2⟩, tr ++ last, by rw [g1]; simp, hevs⟩
    | restart i =>
      rw [arm_avail_restart hst hal]
      refine ⟨⟨hrun1.1, fun _ _ _ hh => (by simp [restartService] at hh), hrun1.2.1, hrun1.2.2⟩, tr ++ last ++ [.createService i],
        by rw [(restartService_frame s1 i).1, g1]; simp, ?_⟩
      intro x hx; simp only [List.mem_append, List.mem_singleton] at hx
      rcases hx with (hx | hx) | rfl
      · exact g2.nodiscard x hx
      · exact hlast x hx
      · rfl
    | closed =>
      -- the accept thread is gone; no `Stop`, the server is there: the worker waits
      rw [arm_avail_closed hst hal, closedArm_nil_open hrun1.2.1 hrun1.2.2]
      exact ⟨⟨hrun1.1, fun t sf tx hh => (by rw [show ({ s1 with stopWaker := true } : St).state = s1.state from rfl, c3, hst] at hh; cases hh), hrun1.2.1, hrun1.2.2⟩,
        tr ++ last, by rw [g1]; simp, hevs⟩

/-- **Never silently discarded while the worker runs**: a worker that is not shutting down, has no
`Stop` waiting and whose server is alive takes connections out of its channel only to hand them to
their service — whatever the readiness scripts, restarts, or the accept thread's exit — and does not finish. -/
theorem pollW_running (f : Nat) : ∀ (s : St), Good s → Running s →
    (Running (pollW f s) ∨ (pollW f s).fault = some .fuel) ∧ ∃ evs, (pollW f s).log = s.log ++ evs ∧ ∀ e ∈ evs, e.isDiscard = false := by
  induction f with
  | zero => intro s _ _; exact ⟨Or.inr rfl, [], by simp [pollW, setFault], by simp⟩
  | succ f ih =>
    intro s hg hr
    have hbody : (body s).1 = (stopPhase s).1 ∧ (body s).2 = false ∨ body s = arm { s with stopWaker := true } := by
      unfold body
      rw [stopPhase_nil hr.2.2.1]
      by_cases hfl : s.fault.isSome = true
      · left; simp [hfl]
      · right; simp [hfl]
    have hr0 : Running { s with stopWaker := true } := hr
    have hg0 : Good { s with stopWaker := true } := ⟨hg.svc, hg.lg.guarded, hg.lg.fifo, hg.lg.pairs⟩
    simp only [pollW]
    rcases hbody with ⟨h1, h2⟩ | h1
    · rw [h2, h1, stopPhase_nil hr.2.2.1]
      exact ⟨Or.inl hr0, [], by simp, by simp⟩
    · obtain ⟨ra, evs, l, nd⟩ := arm_running hg0 hr0
      rw [h1]
      split
      · obtain ⟨g1, _⟩ := hg0.arm hr0.1
        obtain ⟨r2, evs2, l2, nd2⟩ := ih _ g1 ra
        refine ⟨r2, evs ++ evs2, by rw [l2, l]; simp, ?_⟩
        intro x hx; simp only [List.mem_append] at hx
        rcases hx with hx | hx
        · exact nd x hx
        · exact nd2 x hx
      · exact ⟨Or.inl ra, evs, l, nd⟩


end ActixNet.Worker
