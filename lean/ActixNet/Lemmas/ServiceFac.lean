import ActixNet.Lemmas.Service
/-!
# Lemmas for C11 / C12, factory layer

Denotation `facDen f cfg = (number of Pending polls, result)` of a factory and `iDen` of an init
future state; `ipoll_spec` (one poll) and `idrive_spec` (the executor).
-/
namespace ActixNet.Service

/-- the service once every leaf's readiness countdown has run out -/
def settle : Svc → Svc
  | .leaf id cp cok _ rok => .leaf id cp cok 0 rok
  | .fnSvc id cok => .fnSvc id cok
  | .map s f => .map (settle s) f
  | .mapErr s f => .mapErr (settle s) f
  | .andThen a b => .andThen (settle a) (settle b)
  | .applyFn s kind k => .applyFn (settle s) kind k
  | .wrap w s => .wrap w (settle s)
  | .mw s t => .mw (settle s) t
  | .reenter w k s => .reenter w k (settle s)

theorem settle_pollReady (s : Svc) (w : Nat) : settle (pollReady s w).1 = settle s := by
  fun_induction pollReady s w <;> simp_all [settle]

theorem settle_of_ready (s : Svc) (h : rdyDen s = (0, .ok)) : settle s = s := by
  induction s with
  | leaf id cp cok rp rok => simp [rdyDen] at h; simp [settle, h.1]
  | fnSvc => rfl
  | map s f ih => simp [rdyDen] at h; simp [settle, ih h]
  | mapErr s f ih =>
    simp only [rdyDen] at h
    have : rdyDen s = (0, .ok) := by
      rcases hd : rdyDen s with ⟨t, r⟩
      rw [hd] at h; cases r <;> simp_all
    simp [settle, ih this]
  | andThen a b iha ihb =>
    simp only [rdyDen] at h
    have hna := rdyDen_ne_pending a
    have hnb := rdyDen_ne_pending b
    rcases hda : rdyDen a with ⟨ta, ra⟩
    rcases hdb : rdyDen b with ⟨tb, rb⟩
    rw [hda, hdb] at h; rw [hda] at hna; rw [hdb] at hnb
    cases ra <;> cases rb <;> simp at h hna hnb
    · have h1 : ta = 0 := by omega
      have h2 : tb = 0 := by omega
      subst h1 h2
      simp [settle, iha hda, ihb hdb]
    · split at h <;> simp at h
  | applyFn s kind k ih => simp [rdyDen] at h; simp [settle, ih h]
  | wrap w s ih => simp [rdyDen] at h; simp [settle, ih h]
  | mw s t ih => simp [rdyDen] at h; simp [settle, ih h]
  | reenter w k s ih => simp [rdyDen] at h; simp [settle, ih h]

/-- events that are neither a poll-after-completion nor a `new_service` call -/
def quiet : Evt → Bool
  | .repoll .. => false
  | .irepoll .. => false
  | .new .. => false
  | _ => true

theorem pollReady_quiet (s : Svc) (w : Nat) : ∀ e ∈ (pollReady s w).2.2, quiet e = true := by
  fun_induction pollReady s w <;> simp_all <;> grind [quiet]

def mapOk (g : Svc → Svc) : Nat × IRes → Nat × IRes
  | (p, .ok s) => (p, .ok (g s))
  | d => d

/-- join of the two halves of an `and_then` factory: the error of the half that fails at the
earliest poll (ties: the left one, it is polled first), else both services at the later poll -/
def joinDen : Nat × IRes → Nat × IRes → Nat × IRes
  | (pa, .err ea), (pb, .err eb) => if pa ≤ pb then (pa, .err ea) else (pb, .err eb)
  | (pa, .err ea), (_, .ok _) => (pa, .err ea)
  | (_, .ok _), (pb, .err eb) => (pb, .err eb)
  | (pa, .ok sa), (pb, .ok sb) => (max pa pb, .ok (.andThen sa sb))

/-- state B/C of apply_cfg_factory: wait until the service is ready (its error is the init error),
then the closure's own future -/
def cfgDen (svc : Svc) (f ip : Nat) (iok : Bool) (cfg : Nat) : Nat × IRes :=
  match (rdyDen svc).2 with
  | .err e => ((rdyDen svc).1, .err e)
  | _ => ((rdyDen svc).1 + ip, cfgRes (settle svc) f iok cfg)

/-- `TransformExt::map_init_err`: the init error of the transform is mapped -/
def mapIErr : Option Nat → IRes → IRes
  | some m, .err e => .err (mapFn m e)
  | _, r => r

def facDen : Fac → Nat → Nat × IRes
  | .leaf id ip iok true s, cfg => (ip, leafIRes id iok cfg s)
  | .leaf id ip iok false s, _ => (ip, leafIRes id iok 0 s)
  | .fnSvc id cok, _ => (0, .ok (.fnSvc id cok))
  | .map a f, cfg => mapOk (fun s => .map s f) (facDen a cfg)
  | .mapErr a f, cfg => mapOk (fun s => .mapErr s f) (facDen a cfg)
  | .mapInitErr a f, cfg => match facDen a cfg with | (p, .err e) => (p, .err (mapFn f e)) | d => d
  | .andThen a b, cfg => joinDen (facDen a cfg) (facDen b cfg)
  | .applyFn a kind k, cfg => mapOk (fun s => .applyFn s kind k) (facDen a cfg)
  | .transform t tp tok mie a, cfg =>
    match facDen a cfg with | (p, .ok s) => (p + tp, mapIErr mie (transRes s t tok)) | d => d
  | .applyCfg s f ip iok, cfg => (ip, cfgRes s f iok cfg)
  | .applyCfgFac a f ip iok, cfg =>
    match facDen a 0 with
    | (p, .ok s) => (p + (cfgDen s f ip iok cfg).1, (cfgDen s f ip iok cfg).2)
    | d => d
  | .mapConfig a f, cfg => facDen a (mapFn f cfg)
  | .unitConfig a, _ => facDen a 0
  | .boxed a, cfg => mapOk (.wrap .boxed) (facDen a cfg)
  | .rc a, cfg => facDen a cfg
  | .reenter _ a, cfg => facDen a (reReq cfg)

def sideDen (iDen : IFut → Nat × IRes) : Option Svc → IFut → Nat × IRes
  | some s, _ => (0, .ok s)
  | none, fu => iDen fu

def iDen : IFut → Nat × IRes
  | .leafI _ p r _ => (p, r)
  | .readyI s _ => (0, .ok s)
  | .mapI fu f => mapOk (fun s => .map s f) (iDen fu)
  | .mapErrI fu f => mapOk (fun s => .mapErr s f) (iDen fu)
  | .mapInitErrI fu f => match iDen fu with | (p, .err e) => (p, .err (mapFn f e)) | d => d
  | .applyFnI fu kind k => mapOk (fun s => .applyFn s kind k) (iDen fu)
  | .boxedI fu => mapOk (.wrap .boxed) (iDen fu)
  | .andThenI fa fb a b =>
    joinDen (match a with | some s => (0, .ok s) | none => iDen fa) (match b with | some s => (0, .ok s) | none => iDen fb)
  | .transA fu t tp tok mie => match iDen fu with | (p, .ok s) => (p + tp, mapIErr mie (transRes s t tok)) | d => d
  | .transB fu => iDen fu
  | .cfgA fu f ip iok cfg =>
    match iDen fu with
    | (p, .ok s) => (p + (cfgDen s f ip iok cfg).1, (cfgDen s f ip iok cfg).2)
    | d => d
  | .cfgB svc f ip iok cfg => cfgDen svc f ip iok cfg
  | .cfgC fu => iDen fu

def iFresh : IFut → Bool
  | .leafI _ _ _ fin => !fin
  | .readyI _ fin => !fin
  | .mapI fu _ => iFresh fu
  | .mapErrI fu _ => iFresh fu
  | .mapInitErrI fu _ => iFresh fu
  | .applyFnI fu _ _ => iFresh fu
  | .boxedI fu => iFresh fu
  | .andThenI fa fb a b => (a.isSome || iFresh fa) && (b.isSome || iFresh fb)
  | .transA fu _ _ _ _ => iFresh fu
  | .transB fu => iFresh fu
  | .cfgA fu _ _ _ _ => iFresh fu
  | .cfgB _ _ _ _ _ => true
  | .cfgC fu => iFresh fu

theorem newService_spec (f : Fac) (cfg : Nat) :
    iDen (newService f cfg).1 = facDen f cfg ∧ iFresh (newService f cfg).1 = true := by
  induction f generalizing cfg with
  | leaf id ip iok uc s => cases uc <;> simp [newService, iDen, facDen, iFresh]
  | fnSvc => simp [newService, iDen, facDen, iFresh]
  | map a f ih => simp [newService, iDen, facDen, iFresh, ih]
  | mapErr a f ih => simp [newService, iDen, facDen, iFresh, ih]
  | mapInitErr a f ih => simp [newService, iDen, facDen, iFresh, ih]
  | andThen a b iha ihb => simp [newService, iDen, facDen, iFresh, iha, ihb]
  | applyFn a kind k ih => simp [newService, iDen, facDen, iFresh, ih]
  | transform t tp tok mie a ih => simp [newService, iDen, facDen, iFresh, ih]
  | applyCfg s f ip iok => simp [newService, iDen, facDen, iFresh]
  | applyCfgFac a f ip iok ih => simp [newService, iDen, facDen, iFresh, ih]
  | mapConfig a f ih => simp [newService, facDen, ih]
  | unitConfig a ih => simp [newService, facDen, ih]
  | boxed a ih => simp [newService, iDen, facDen, iFresh, ih]
  | rc a ih => simp [newService, facDen, ih]
  | reenter k a ih => simp [newService, facDen, ih]

/-- specification of one poll of a fresh init future -/
def ISpecOf (den : Nat × IRes) (out : IFut × Option IRes × List Evt) : Prop :=
  (den.1 = 0 → out.2.1 = some den.2) ∧
  (den.1 ≠ 0 → out.2.1 = none ∧ (iDen out.1).1 + 1 = den.1 ∧ (iDen out.1).2 = den.2 ∧ iFresh out.1 = true) ∧
  (∀ e ∈ out.2.2, quiet e = true)

def ISpec (fu : IFut) (w : Nat) : Prop := iFresh fu = true → ISpecOf (iDen fu) (ipoll fu w)

theorem pollLeafI_spec (id p : Nat) (r : IRes) (w : Nat) : ISpecOf (p, r) (pollLeafI id p r false w) := by
  cases p <;> simp [ISpecOf, pollLeafI, iDen, iFresh, quiet]

theorem pollTrans_spec (t tp : Nat) (r : IRes) (mie : Option Nat) (w : Nat) :
    ISpecOf (tp, mapIErr mie r) (pollTrans t tp r mie w) := by
  cases mie with
  | none => simpa [pollTrans, mapIErr] using pollLeafI_spec t tp r w
  | some m =>
    cases tp <;> cases r <;> simp [ISpecOf, pollTrans, pollLeafI, mapIErr, iDen, iFresh, quiet, iresOut]

theorem cfgBStep_spec (svc : Svc) (f ip : Nat) (iok : Bool) (cfg w : Nat) :
    ISpecOf (cfgDen svc f ip iok cfg) (cfgBStep svc f ip iok cfg w) := by
  have hs := ready_spec svc w
  have hq := pollReady_quiet svc w
  have hst := settle_pollReady svc w
  have hne := rdyDen_ne_pending svc
  simp only [ReadySpec] at hs
  simp only [cfgBStep]
  rcases hx : pollReady svc w with ⟨svc', r, l⟩
  rw [hx] at hs hq hst
  rcases hd : rdyDen svc with ⟨t, fin⟩
  rw [hd] at hs hne
  dsimp only at hs hq hst hne
  obtain ⟨h1, h2, h3⟩ := hs
  by_cases ht : t = 0
  · subst ht
    have h1 := h1 rfl
    subst h1
    cases r with
    | pending => exact absurd rfl hne
    | err e => simp [ISpecOf, cfgDen, hd]; exact hq
    | ok =>
      have hsv := h3 rfl
      subst hsv
      have hset := settle_of_ready svc' hd
      have hl := pollLeafI_spec f ip (cfgRes svc' f iok cfg) w
      rcases hp : pollLeafI f ip (cfgRes svc' f iok cfg) false w with ⟨fu, r2, l2⟩
      rw [hp] at hl
      simp only [ISpecOf, cfgDen, hd, iDen, hset, hp, iFresh] at hl ⊢
      simp at hl ⊢
      grind [quiet]
  · obtain ⟨h2a, h2b, h2c⟩ := h2 ht
    subst h2a
    simp only [ISpecOf, cfgDen, hd, iDen, iFresh, hst]
    cases fin with
    | pending => exact absurd rfl hne
    | err e => simp [h2c]; grind
    | ok => simp [h2c]; grind

theorem ipoll_spec (fu : IFut) (w : Nat) : ISpec fu w := by
  fun_induction ipoll fu w
  case case1 =>
    rename_i id p r fin w
    simp only [ISpec, ipoll, iDen, iFresh]; intro hf; simp at hf; subst hf; exact pollLeafI_spec id p r w
  case case2 => simp [ISpec, ISpecOf, ipoll, iDen, iFresh]
  case case3 => simp [ISpec, iFresh]
  case case21 => simp [ISpec, ISpecOf, ipoll, iDen, iFresh, joinDone, joinDen]
  case case29 =>
    rename_i svc f ip iok cfg w
    simp only [ISpec, ipoll, iDen]; intro _; exact cfgBStep_spec svc f ip iok cfg w
  case case24 =>
    rename_i fu0 t tp tok mie w fst s l hx fu r l2 hp ih
    intro hf; simp only [iFresh] at hf; have ih := ih hf
    have hl := pollTrans_spec t tp (transRes s t tok) mie w
    rw [hp] at hl
    simp only [ISpecOf] at ih hl ⊢; rw [ipoll]; simp only [hx, hp]; rw [hx] at ih; simp only [iDen, iFresh]
    rcases hd : iDen fu0 with ⟨p, r0⟩; rw [hd] at ih; cases r0 <;> simp at ih hl ⊢ <;> grind [quiet]
  case case28 =>
    rename_i fu0 f ip iok cfg w fst s l hx fu r l2 hp ih
    intro hf; simp only [iFresh] at hf; have ih := ih hf
    have hl := cfgBStep_spec s f ip iok cfg w
    rw [hp] at hl
    simp only [ISpecOf] at ih hl ⊢; rw [ipoll]; simp only [hx, hp]; rw [hx] at ih; simp only [iDen, iFresh]
    rcases hd : iDen fu0 with ⟨p, r0⟩; rw [hd] at ih; cases r0 <;> simp at ih hl ⊢ <;> grind
  case case14 =>
    rename_i fa fb w fa' e la hxa iha
    intro hf; simp [iFresh] at hf; have iha := iha hf.1
    simp only [ISpecOf] at iha ⊢; rw [ipoll]; simp only [hxa]; rw [hxa] at iha
    simp only [iDen]
    rcases hda : iDen fa with ⟨pa, ra0⟩; rcases hdb : iDen fb with ⟨pb, rb0⟩; rw [hda] at iha
    cases ra0 <;> cases rb0 <;> simp [joinDen, iDen, iFresh] at iha ⊢ <;> grind
  case case15 =>
    rename_i fa fb w fa' ra la hnea hxa fb' e lb hxb iha ihb
    intro hf; simp [iFresh] at hf; have iha := iha hf.1; have ihb := ihb hf.2
    simp only [ISpecOf] at iha ihb ⊢; rw [ipoll]; simp only [hxa, hxb]; rw [hxa] at iha; rw [hxb] at ihb
    simp only [iDen]
    rcases hda : iDen fa with ⟨pa, ra0⟩; rcases hdb : iDen fb with ⟨pb, rb0⟩; rw [hda] at iha; rw [hdb] at ihb
    rcases ra with _ | (sa | ea) <;> cases ra0 <;> cases rb0 <;>
      simp [joinDen, joinDone, svcOf, iDen, iFresh] at hnea iha ihb ⊢ <;> grind
  case case16 =>
    rename_i fa fb w fa' ra la hnea hxa fb' rb lb hneb hxb iha ihb
    intro hf; simp [iFresh] at hf; have iha := iha hf.1; have ihb := ihb hf.2
    simp only [ISpecOf] at iha ihb ⊢; rw [ipoll]; simp only [hxa, hxb]; rw [hxa] at iha; rw [hxb] at ihb
    simp only [iDen]
    rcases hda : iDen fa with ⟨pa, ra0⟩; rcases hdb : iDen fb with ⟨pb, rb0⟩; rw [hda] at iha; rw [hdb] at ihb
    rcases ra with _ | (sa | ea) <;> rcases rb with _ | (sb | eb) <;> cases ra0 <;> cases rb0 <;>
      simp [joinDen, joinDone, svcOf, iDen, iFresh] at hnea hneb iha ihb ⊢ <;> grind
  case case17 =>
    rename_i fa fb sa w fb' e lb hxb ihb
    intro hf; simp [iFresh] at hf; have ihb := ihb hf
    simp only [ISpecOf] at ihb ⊢; rw [ipoll]; simp only [hxb]; rw [hxb] at ihb
    simp only [iDen]
    rcases hdb : iDen fb with ⟨pb, rb0⟩; rw [hdb] at ihb
    cases rb0 <;> simp [joinDen, iDen, iFresh] at ihb ⊢ <;> grind
  case case18 =>
    rename_i fa fb sa w fb' rb lb hneb hxb ihb
    intro hf; simp [iFresh] at hf; have ihb := ihb hf
    simp only [ISpecOf] at ihb ⊢; rw [ipoll]; simp only [hxb]; rw [hxb] at ihb
    simp only [iDen]
    rcases hdb : iDen fb with ⟨pb, rb0⟩; rw [hdb] at ihb
    rcases rb with _ | (sb | eb) <;> cases rb0 <;>
      simp [joinDen, joinDone, svcOf, iDen, iFresh] at hneb ihb ⊢ <;> grind
  case case19 =>
    rename_i fa fb sb w fa' e la hxa iha
    intro hf; simp [iFresh] at hf; have iha := iha hf
    simp only [ISpecOf] at iha ⊢; rw [ipoll]; simp only [hxa]; rw [hxa] at iha
    simp only [iDen]
    rcases hda : iDen fa with ⟨pa, ra0⟩; rw [hda] at iha
    cases ra0 <;> simp [joinDen, iDen, iFresh] at iha ⊢ <;> grind
  case case20 =>
    rename_i fa fb sb w fa' ra la hnea hxa iha
    intro hf; simp [iFresh] at hf; have iha := iha hf
    simp only [ISpecOf] at iha ⊢; rw [ipoll]; simp only [hxa]; rw [hxa] at iha
    simp only [iDen]
    rcases hda : iDen fa with ⟨pa, ra0⟩; rw [hda] at iha
    rcases ra with _ | (sa | ea) <;> cases ra0 <;>
      simp [joinDen, joinDone, svcOf, iDen, iFresh] at hnea iha ⊢ <;> grind
  all_goals
    rename_i hx ih
    intro hf; simp only [iFresh] at hf; have ih := ih hf
    simp only [ISpecOf] at ih ⊢; rw [ipoll]; simp only [hx]; rw [hx] at ih; simp only [iDen, iFresh]
    rcases hd : iDen _ with ⟨p, r0⟩; rw [hd] at ih; cases r0 <;> simp [mapOk] at ih ⊢ <;> grind [quiet]

theorem idrive_spec (n : Nat) (fu : IFut) (w : Nat) (hf : iFresh fu = true) (hn : (iDen fu).1 < n) :
    (idrive n fu w).1 = some (iDen fu).2 ∧ (idrive n fu w).2.2 = w + (iDen fu).1 ∧
    ∀ e ∈ (idrive n fu w).2.1, quiet e = true := by
  induction n generalizing fu w with
  | zero => omega
  | succ n ih =>
    have hp := ipoll_spec fu w hf
    simp only [ISpecOf] at hp
    rw [idrive]
    rcases hx : ipoll fu w with ⟨fu', r, l⟩
    rw [hx] at hp; simp only at hp
    obtain ⟨h1, h2, h3⟩ := hp
    by_cases h0 : (iDen fu).1 = 0
    · have h := h1 h0
      subst h
      simp [h0]; exact h3
    · obtain ⟨ha, hb, hc, hd⟩ := h2 h0
      subst ha
      have := ih fu' (w+1) hd (by omega)
      rcases hy : idrive n fu' (w+1) with ⟨r2, l2, w2⟩
      rw [hy] at this
      simp at this ⊢
      grind

/-- C11 (factories): `new_service(cfg)` driven to completion yields the reference result after
exactly `(facDen f cfg).1` Pending polls; no init future is polled after completion and no inner
factory is asked for another service while polling -/
theorem fac_drive (f : Fac) (cfg w n : Nat) (hn : (facDen f cfg).1 < n) :
    (idrive n (newService f cfg).1 w).1 = some (facDen f cfg).2 ∧
    (idrive n (newService f cfg).1 w).2.2 = w + (facDen f cfg).1 ∧
    ∀ e ∈ (idrive n (newService f cfg).1 w).2.1, quiet e = true := by
  have hs := newService_spec f cfg
  have := idrive_spec n (newService f cfg).1 w hs.2 (by rw [hs.1]; exact hn)
  rw [hs.1] at this
  exact this

/-- `(id, cfg)` of the `new_service` calls in a log -/
def newEvts : List Evt → List (Nat × Nat)
  | [] => []
  | .new id cfg :: l => (id, cfg) :: newEvts l
  | _ :: l => newEvts l

theorem newEvts_append (l1 l2 : List Evt) : newEvts (l1 ++ l2) = newEvts l1 ++ newEvts l2 := by
  induction l1 with
  | nil => rfl
  | cons e l ih => cases e <;> simp [newEvts, ih]

theorem newEvts_quiet (l : List Evt) (h : ∀ e ∈ l, quiet e = true) : newEvts l = [] := by
  induction l with
  | nil => rfl
  | cons e l ih =>
    have he := h e (by simp)
    have := ih (fun e he => h e (by simp [he]))
    cases e <;> simp_all [newEvts, quiet]

/-- the leaf factories of a factory expression, each with the config it must be asked with -/
def facLeaves : Fac → Nat → List (Nat × Nat)
  | .leaf id _ _ true _, cfg => [(id, cfg)]
  | .leaf id _ _ false _, _ => [(id, 0)]
  | .fnSvc _ _, _ => []
  | .map a _, cfg => facLeaves a cfg
  | .mapErr a _, cfg => facLeaves a cfg
  | .mapInitErr a _, cfg => facLeaves a cfg
  | .andThen a b, cfg => facLeaves a cfg ++ facLeaves b cfg
  | .applyFn a _ _, cfg => facLeaves a cfg
  | .transform _ _ _ _ a, cfg => facLeaves a cfg
  | .applyCfg _ _ _ _, _ => []
  | .applyCfgFac a _ _ _, _ => facLeaves a 0
  | .mapConfig a f, cfg => facLeaves a (mapFn f cfg)
  | .unitConfig a, _ => facLeaves a 0
  | .boxed a, cfg => facLeaves a cfg
  | .rc a, cfg => facLeaves a cfg
  | .reenter _ a, cfg => facLeaves a (reReq cfg)

theorem newService_news (f : Fac) (cfg : Nat) : newEvts (newService f cfg).2 = facLeaves f cfg := by
  induction f generalizing cfg with
  | leaf id ip iok uc s => cases uc <;> simp [newService, newEvts, facLeaves]
  | fnSvc => simp [newService, newEvts, facLeaves]
  | map a f ih => simp [newService, facLeaves, ih]
  | mapErr a f ih => simp [newService, facLeaves, ih]
  | mapInitErr a f ih => simp [newService, facLeaves, ih]
  | andThen a b iha ihb => simp [newService, facLeaves, newEvts_append, iha, ihb]
  | applyFn a kind k ih => simp [newService, facLeaves, ih]
  | transform t tp tok mie a ih => simp [newService, facLeaves, ih]
  | applyCfg s f ip iok => simp [newService, newEvts, facLeaves]
  | applyCfgFac a f ip iok ih => simp [newService, facLeaves, ih]
  | mapConfig a f ih => simp [newService, newEvts, facLeaves, ih]
  | unitConfig a ih => simp [newService, facLeaves, ih]
  | boxed a ih => simp [newService, facLeaves, ih]
  | rc a ih => simp [newService, facLeaves, ih]
  | reenter k a ih =>
    simp only [newService, facLeaves, newEvts_append, ih]
    simp only [freEvts]; split <;> simp [newEvts]

end ActixNet.Service
