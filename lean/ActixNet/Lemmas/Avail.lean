import ActixNet.Model.Avail
/-! Lemmas about the generated bitset kernels: semantic characterisations that the C04 theorems and
the `Srv` refinement rest on.  Proved for symbolic indices (no enumeration, no `bv_decide`). -/
namespace ActixNet.Avail
open ActixNet

/-- what `Availability::offset` computes, independently of how its case split is written (chain of
`<` tests in either order, division / remainder, shift / mask): the proof only needs linear
arithmetic per branch, so a behaviour-preserving rewrite of the Rust function keeps it valid -/
theorem offset_eq (idx : Nat) :
    Src.availOffset idx = if idx < 512 then some (idx / 128, idx % 128) else none := by
  unfold Src.availOffset
  simp only [decide_eq_true_eq, Nat.shiftRight_eq_div_pow, show (127 : Nat) = 2 ^ 7 - 1 by rfl,
    Nat.and_two_pow_sub_one_eq_mod]
  repeat' split
  all_goals first
    | rfl
    | (simp only [Option.some.injEq, Prod.mk.injEq]; omega)
    | (exfalso; omega)
    | (simp only [reduceCtorEq]; omega)

theorem offset_some {idx : Nat} (h : idx < 512) :
    ∃ o i, Src.availOffset idx = some (o, i) ∧ o < 4 ∧ i < 128 ∧ idx = 128 * o + i := by
  refine ⟨idx / 128, idx % 128, by rw [offset_eq, if_pos h], by omega, by omega, by omega⟩

theorem offset_none {idx : Nat} (h : 512 ≤ idx) : Src.availOffset idx = none := by
  rw [offset_eq, if_neg (by omega)]

theorem availGet_eq (w : BitVec 128) (i : Nat) (hi : i < 128) : Src.availGet w i = w.getLsbD i := by
  unfold Src.availGet
  rw [Bool.eq_iff_iff]
  simp only [bne_iff_ne, ne_eq]
  constructor
  · intro h
    apply Classical.byContradiction
    intro hn
    apply h
    apply BitVec.eq_of_getLsbD_eq
    intro j hj
    simp
    intro h1 h2
    by_cases hij : j = i
    · subst hij; simp_all
    · omega
  · intro h hz
    have := congrArg (fun v => v.getLsbD i) hz
    rw [BitVec.getLsbD_eq_getElem hi] at h
    simp [hi, h] at this

theorem availSet_get (w : BitVec 128) (i j : Nat) (v : Bool) (hi : i < 128) (hj : j < 128) :
    (Src.availSet w i v).getLsbD j = if j = i then v else w.getLsbD j := by
  unfold Src.availSet
  cases v
  · simp [hj]
    by_cases hij : j = i
    · subst hij; simp
    · simp [hij]; intro _ ; omega
  · simp [hj]
    by_cases hij : j = i
    · subst hij; simp
    · simp [hij]; omega

theorem ne_zero_iff (w : BitVec 128) : (w != 0) = true ↔ ∃ j, j < 128 ∧ w.getLsbD j = true := by
  simp only [bne_iff_ne, ne_eq]
  constructor
  · intro h
    apply Classical.byContradiction
    intro hn
    apply h
    apply BitVec.eq_of_getLsbD_eq
    intro j hj
    simp
    apply Classical.byContradiction
    intro hb
    refine hn ⟨j, hj, ?_⟩
    rw [BitVec.getLsbD_eq_getElem hj]
    cases hw : w[j] with
    | true => rfl
    | false => exact absurd hw hb
  · rintro ⟨j, hj, hb⟩ hz
    subst hz
    simp at hb

/-- abstraction: the bit of worker index `idx` -/
def bits (a : Avail) (idx : Nat) : Bool :=
  decide (idx < 512) && (a.word (idx / 128)).getLsbD (idx % 128)

theorem word_setWord (a : Avail) (o o' : Nat) (w : BitVec 128) (ho : o < 4) (ho' : o' < 4) :
    (a.setWord o w).word o' = if o' = o then w else a.word o' := by
  unfold Avail.setWord Avail.word
  have : o = 0 ∨ o = 1 ∨ o = 2 ∨ o = 3 := by omega
  have : o' = 0 ∨ o' = 1 ∨ o' = 2 ∨ o' = 3 := by omega
  rcases ‹o = 0 ∨ _› with rfl | rfl | rfl | rfl <;> rcases ‹o' = 0 ∨ _› with rfl | rfl | rfl | rfl <;> simp

theorem get_eq_bits (a : Avail) {idx : Nat} (h : idx < 512) : get a idx = some (bits a idx) := by
  obtain ⟨o, i, he, ho, hi, hidx⟩ := offset_some h
  have h1 : idx / 128 = o := by omega
  have h2 : idx % 128 = i := by omega
  simp [get, he, bits, h, h1, h2, availGet_eq _ _ hi]

theorem set_bits (a : Avail) {idx : Nat} (v : Bool) (h : idx < 512) :
    ∃ a', set a idx v = some a' ∧ ∀ j, bits a' j = if j = idx then v else bits a j := by
  obtain ⟨o, i, he, ho, hi, hidx⟩ := offset_some h
  refine ⟨a.setWord o (Src.availSet (a.word o) i v), by simp [set, he], ?_⟩
  intro j
  unfold bits
  by_cases hj : j < 512
  · have hjo : j / 128 < 4 := by omega
    have hjm : j % 128 < 128 := by omega
    rw [word_setWord _ _ _ _ ho hjo]
    by_cases hoo : j / 128 = o
    · simp only [hoo, ↓reduceIte]
      rw [availSet_get _ _ _ _ hi hjm]
      by_cases hji : j = idx
      · subst hji
        have : j % 128 = i := by omega
        simp [hj, this]
      · have : ¬ j % 128 = i := by omega
        simp [hji, hj, this, ← hoo]
    · have : ¬ j = idx := by omega
      simp [hoo, this]
  · have : ¬ j = idx := by omega
    simp [hj, this]

theorem available_iff (a : Avail) : available a = true ↔ ∃ i, i < 512 ∧ bits a i = true := by
  unfold available Src.availAny
  simp only [List.any_cons, List.any_nil, Bool.or_false, Bool.or_eq_true, ne_zero_iff]
  constructor
  · rintro (⟨j, hj, hb⟩ | ⟨j, hj, hb⟩ | ⟨j, hj, hb⟩ | ⟨j, hj, hb⟩)
    · refine ⟨j, by omega, ?_⟩
      have h1 : j / 128 = 0 := by omega
      have h2 : j % 128 = j := by omega
      simp [bits, h1, h2, Avail.word, hb]; omega
    · refine ⟨128 + j, by omega, ?_⟩
      have h1 : (128 + j) / 128 = 1 := by omega
      have h2 : (128 + j) % 128 = j := by omega
      simp [bits, h1, h2, Avail.word, hb]; omega
    · refine ⟨256 + j, by omega, ?_⟩
      have h1 : (256 + j) / 128 = 2 := by omega
      have h2 : (256 + j) % 128 = j := by omega
      simp [bits, h1, h2, Avail.word, hb]; omega
    · refine ⟨384 + j, by omega, ?_⟩
      have h1 : (384 + j) / 128 = 3 := by omega
      have h2 : (384 + j) % 128 = j := by omega
      simp [bits, h1, h2, Avail.word, hb]; omega
  · rintro ⟨i, hi, hb⟩
    simp only [bits, hi, decide_true, Bool.true_and] at hb
    have : i / 128 = 0 ∨ i / 128 = 1 ∨ i / 128 = 2 ∨ i / 128 = 3 := by omega
    have hm : i % 128 < 128 := by omega
    rcases this with h | h | h | h <;> simp only [h, Avail.word] at hb
    · exact Or.inl ⟨_, hm, by simpa using hb⟩
    · exact Or.inr (Or.inl ⟨_, hm, by simpa using hb⟩)
    · exact Or.inr (Or.inr (Or.inl ⟨_, hm, by simpa using hb⟩))
    · exact Or.inr (Or.inr (Or.inr ⟨_, hm, by simpa using hb⟩))

end ActixNet.Avail
