import ActixNet.Model.Srv
import ActixNet.Model.Avail
import ActixNet.Model.CounterRace
import Driver.Util
/-! Engine `srv`: line protocol for the accept-thread model (`ActixNet.Srv`) and the server kernels. -/
namespace Driver.Srv
open ActixNet ActixNet.Srv Driver

structure State where
  cfg : Cfg := { limit := 1, nIdx := 1 }
  s : St := ActixNet.Srv.init { limit := 1, nIdx := 1 } []
  started : Bool := false
  /-- an `inject` act appeared in an env line or a poll schedule of this case -/
  injSeen : Bool := false

def init : State := {}

def parseKind (k : String) : Option Src.ErrorKind :=
  match k with
  | "NotFound" => some .NotFound | "PermissionDenied" => some .PermissionDenied
  | "ConnectionRefused" => some .ConnectionRefused | "ConnectionReset" => some .ConnectionReset
  | "ConnectionAborted" => some .ConnectionAborted | "NotConnected" => some .NotConnected
  | "AddrInUse" => some .AddrInUse | "AddrNotAvailable" => some .AddrNotAvailable
  | "BrokenPipe" => some .BrokenPipe | "AlreadyExists" => some .AlreadyExists
  | "WouldBlock" => some .WouldBlock | "InvalidInput" => some .InvalidInput
  | "InvalidData" => some .InvalidData | "TimedOut" => some .TimedOut | "WriteZero" => some .WriteZero
  | "Interrupted" => some .Interrupted | "Unsupported" => some .Unsupported
  | "UnexpectedEof" => some .UnexpectedEof | "OutOfMemory" => some .OutOfMemory | "Other" => some .Other
  | _ => none

def parseAct (a : String) : Option EnvAct :=
  match a.splitOn ":" with
  | ["connect", l] => l.toNat?.map .connect
  | ["recv", w] => w.toNat?.map .recv
  | ["finish", w, c] => match w.toNat?, c.toNat? with
    | some w, some c => some (.finishNow w (some c))
    | some w, none => if c == "*" then some (.finishNow w none) else none
    | _, _ => none
  | ["die", w] => w.toNat?.map .die
  | ["pause"] => some (.cmd .pause)
  | ["resume"] => some (.cmd .resume)
  | ["stop"] => some (.cmd .stop)
  | ["restart", i] => i.toNat?.map .restart
  | ["advance", ms] => ms.toNat?.map .advance
  | ["inject", l, "EMFILE"] => l.toNat?.map (fun l => .inject l .emfile)
  | ["inject", l, k] => match l.toNat?, parseKind k with
    | some l, some k => some (.inject l (.kind k)) | _, _ => none
  | _ => none

def parseActs (s : String) : Option (List EnvAct) :=
  if s.isEmpty then some [] else (s.splitOn ",").mapM parseAct

def parseEv (t : String) : Option Ev :=
  if t == "W" then some .waker else t.toNat?.map .listener

def parseOrder (s : String) : Option (List Ev) :=
  if s.isEmpty then some [] else (s.splitOn ",").mapM parseEv

def kv (ws : List String) (key : String) : Option String :=
  ws.findSome? fun w => if w.startsWith (key ++ "=") then some ((w.drop (key.length + 1)).toString) else none

def isInject : EnvAct → Bool | .inject _ _ => true | _ => false

def showAct : ActRes → String
  | .ok => "ok" | .bad => "bad" | .conn c => s!"c{c.1}@{c.2}" | .refused => "refused" | .none => "none"
  | .dec b => if b then "dec1" else "dec0" | .wid w => s!"w{w}"

def showFault : Option Fault → String
  | none => "-"
  | some .panicIndex => "panic-index" | some .panicRem => "panic-rem" | some .panicOffset => "panic-offset"
  | some .spinAcceptOne => "spin-accept-one" | some .spinWaker => "spin-waker" | some .spinAccept => "spin-accept"

def showOpt : Option Nat → String | none => "-" | some n => toString n

def bitStr (b : Bool) : String := if b then "1" else "0"

def snapshot (st : State) (old : St) : String :=
  let s := st.s
  let acts := (s.acts.drop old.acts.length).map showAct
  let disp := (s.dispatched.drop old.dispatched.length).map fun (_, w) => s!">{(s.wk w).idx}"
  let h := s.handles.map fun w => toString (s.wk w).idx
  let av := String.join ((List.range st.cfg.nIdx).map fun i => bitStr (s.avail i))
  let ctr := (List.range s.nWk).map fun w => toString (s.wk w).c
  let dl := (List.range s.nLst).map fun l => showOpt (((s.lst l).deadline).map (· - s.now))
  s!"acts=[{",".intercalate acts}] disp=[{",".intercalate disp}] next={s.next} h=[{",".intercalate h}] av={av} " ++
  s!"ctr=[{",".intercalate ctr}] wq={s.wq.length} paused={bitStr s.paused} to={showOpt s.timeout} dl=[{",".intercalate dl}] " ++
  s!"faulted=[{",".intercalate (s.faultedLog.map toString)}] exit={bitStr s.exited} fault={showFault s.fault}"

def evCheck (s : St) (order : List Ev) (exits : Bool) : String :=
  let got := (order.filterMap fun e => match e with | .listener l => some l | .waker => none)
  let want := readyListeners s
  let sorted := got.mergeSort
  -- an iteration that processes `Stop` returns at once: the rest of the batch is never looked at
  if exits then (if sorted.all want.contains && order.contains .waker then "ok" else s!"MISMATCH(model-predicts-subset-of=[{",".intercalate (want.map toString)}])")
  else if sorted == want && order.contains .waker then "ok"
  else s!"MISMATCH(model-predicts=[{",".intercalate (want.map toString)}])"

def hexU128 (s : String) : Option (BitVec 128) :=
  let rec go : List Char → Nat → Option Nat
    | [], acc => some acc
    | c :: t, acc => match hexDigit c with
      | some d => go t (16 * acc + d)
      | none => none
  (go s.toList 0).map (BitVec.ofNat 128)

def toHexU128 (w : BitVec 128) : String :=
  let n := w.toNat
  let rec go (fuel : Nat) (n : Nat) (acc : List Char) : List Char :=
    match fuel with
    | 0 => acc
    | f + 1 => if n = 0 then acc else go f (n / 16) (hexChar (n % 16) :: acc)
  let cs := go 40 n []
  if cs.isEmpty then "0" else String.ofList cs

def step (st : State) (line : String) : State × String :=
  let ws := words line
  match ws with
  | "case" :: _ =>
    let workers := ((kv ws "workers").bind (·.toNat?)).getD 1
    let limit := ((kv ws "limit").bind (·.toNat?)).getD 1
    let kinds := ((kv ws "listeners").getD "tcp").splitOn "," |>.map fun k => if k == "uds" then Kind.uds else Kind.tcp
    let cfg : Cfg := { limit := limit, nIdx := workers }
    ({ cfg := cfg, s := ActixNet.Srv.init cfg kinds, started := true }, "ok")
  | "pse" :: _ =>
    if (kv ws "skip").isSome then (st, "skipped") else
    -- a real `Server` built through the builder, per listener: connect, pause, connect, resume.
    -- Prediction from the accept-loop model: what is dispatched between pause and resume, and after.
    -- `flood=N`: N more clients on every socket bound by the builder itself (tb / t2) during the first pause
    let floodOk : Bool := match kv ws "flood" with
      | none => true
      | some v => (v.toNat?.map (fun k => decide (1 ≤ k ∧ k ≤ 400))).getD false && !v.startsWith "+"
    let flood : Nat := ((kv ws "flood").bind (·.toNat?)).getD 0
    match (kv ws "workers").bind (·.toNat?), kv ws "ls" with
    | some w, some ls =>
      let ks := ls.splitOn ","
      if floodOk = true ∧ 1 ≤ w ∧ w ≤ 4 ∧ 1 ≤ ks.length ∧ ks.length ≤ 4 ∧ ks.all (fun k => k == "tb" || k == "tl" || k == "ub" || k == "ul" || k == "t2") then
        let cfg : Cfg := { limit := 25600, nIdx := w }
        -- `t2` = one `bind` call with two addresses: two sockets (tokens)
        let kinds := ks.flatMap fun k => if k == "ub" || k == "ul" then [Kind.uds] else if k == "t2" then [Kind.tcp, Kind.tcp] else [Kind.tcp]
        let n := kinds.length
        -- an iteration gets the events epoll would report in that state (`readyListeners`) and the waker
        let it (s : St) : St := ActixNet.Srv.run cfg s [Op.poll ((readyListeners s).map Ev.listener ++ [.waker]) []]
        let conns : List Op := (List.range n).map fun l => Op.env (.connect l)
        let s1 := it (ActixNet.Srv.run cfg (ActixNet.Srv.init cfg kinds) conns)
        -- in the paused phase every TCP socket also gets a client that resets at once: one more accepted connection
        let pconns : List Op := (List.range n).flatMap fun l =>
          if kinds.getD l Kind.tcp == Kind.tcp then [Op.env (.connect l), Op.env (.connect l)] else [Op.env (.connect l)]
        let cyc (s : St) : St × Nat × Nat :=
          let a := it (ActixNet.Srv.run cfg (it (ActixNet.Srv.run cfg s [Op.env (.cmd .pause)])) pconns)
          let b := it (it (ActixNet.Srv.run cfg a [Op.env (.cmd .resume)]))
          (b, a.dispatched.length - s.dispatched.length, b.dispatched.length - a.dispatched.length)
        let c1 := cyc s1
        let c2 := cyc c1.1
        -- the flooded connections wait in the listen queue like the others and are all dispatched after the resume
        -- (limit 25600 per worker: nothing saturates), so they add to `after` only
        let nflood := flood * (ks.map fun k => if k == "t2" then 2 else if k == "tb" then 1 else 0).sum
        (st, s!"during={c1.2.1 + c2.2.1} after={c1.2.2 + c2.2.2 + nflood}")
      else (st, "bad-op")
    | _, _ => (st, "bad-op")
  | "bld" :: _ =>
    -- a real `Server` built through `ServerBuilder` (calls in the given order), `n` clients held open:
    -- the model's prediction is the state of the accept-loop model after `n` connects and one iteration
    match (kv ws "workers").bind (·.toNat?), (kv ws "limit").bind (·.toNat?), (kv ws "n").bind (·.toNat?), kv ws "calls" with
    | some w, some l, some n, some calls =>
      let cs := calls.splitOn ","
      let okCall (c : String) : Bool :=
        c == "limit" || c == "maxconn" || c == "workers" || c == "listen" || c == "mptcp:0" || c == "mptcp:1" ||
        (match c.splitOn ":" with
         | ["blocking", k] | ["backlog", k] | ["timeout", k] => (k.toNat?.map (fun k => decide (1 ≤ k ∧ k ≤ 4096))).getD false
         | _ => false)
      let killOk : Bool := match kv ws "kill" with | none => true | some k => k == "0" || k == "1"
      -- `rel=k`: k held connections end one at a time at the plateau; every freed slot is refilled on the worker
      -- that freed it (C02 `within_limit` for the longer history), so the prediction is unchanged
      let relOk : Bool := match kv ws "rel" with
        | none => true
        | some k => (k.toNat?.map (fun k => decide (k ≤ 8))).getD false && !k.startsWith "+"
      -- `via=test` (TestServer::start_with_builder, one worker) and `resume=1|2` (resume() / pause()+resume() at the
      -- plateau: no worker has released anything, so nothing more is dispatched): the prediction is unchanged
      let killSet : Bool := match kv ws "kill" with | none => false | some k => k != "0"
      let viaOk : Bool := match kv ws "via" with
        | none => true
        | some v => v == "test" && w == 1 && !killSet && (kv ws "resume").isNone
      let resumeOk : Bool := match kv ws "resume" with
        | none => true
        | some r => r == "0" || r == "1" || r == "2"
      if viaOk = true ∧ resumeOk = true ∧ relOk = true ∧ (cs.filter (· == "listen")).length ≤ 3 ∧ killOk = true ∧ 1 ≤ w ∧ w ≤ 8 ∧ ((1 ≤ l ∧ l ≤ 16 ∧ w * l ≤ n) ∨ (2 ^ 31 ≤ l ∧ l < 2 ^ 64 ∧ 1 ≤ n)) ∧ n ≤ 64 ∧ cs.all okCall ∧
          (cs.filter (fun c => c == "limit" || c == "maxconn")).length = 1 ∧ (cs.filter (· == "workers")).length = 1 then
        let cfg : Cfg := { limit := l, nIdx := w }
        let ops : List Op := (List.replicate n (Op.env (.connect 0))) ++ [Op.poll [.listener 0, .waker] []]
        let s := ActixNet.Srv.run cfg (ActixNet.Srv.init cfg [.tcp]) ops
        let per := (List.range w).map fun i => (s.wk i).queue.length + (s.wk i).inflight.length
        (st, s!"max={per.foldl max 0} started={per.sum} served={n}")
      else (st, "bad-op")
    | _, _, _, _ => (st, "bad-op")
  | ["k-new", l] => match l.toNat? with
    | some _ => (st, toString Src.wcInit) | none => (st, "bad-op")
  | ["k-inc", v, l] => match v.toNat?, l.toNat? with
    | some v, some l => (st, s!"{bitStr (Src.wcIncStill v l)} {v + 1}")
    | _, _ => (st, "bad-op")
  | ["k-dec", v, l] => match v.toNat?, l.toNat? with
    | some v, some l => (st, s!"{bitStr (Src.wcDecCrossed v l)} {v - 1}")
    | _, _ => (st, "bad-op")
  | ["k-race", v, l, n] => match v.toNat?, l.toNat?, n.toNat? with
    | some v, some _, some n => if v > n && n ≤ 4000000 then (st, toString (Counter.race v n)) else (st, "bad-op")
    | _, _, _ => (st, "bad-op")
  -- `wq-race n`: n `Worker(handle)` interests pushed by another thread while the loop iterates: `wake` is atomic in the
  -- model (push under the queue's lock), so whatever the interleaving every one is processed: n handles, nothing queued
  | ["wq-race", n, r] => match n.toNat?, r.toNat? with
    | some n, some r => if 1 ≤ n ∧ n ≤ 512 ∧ 1 ≤ r ∧ r ≤ 5000 then (st, s!"handles={n} queued=0") else (st, "bad-op")
    | _, _ => (st, "bad-op")
  | ["k-total", v] => match v.toNat? with
    | some v => (st, toString (Src.wcTotal v)) | none => (st, "bad-op")
  | ["k-offset", i] => match i.toNat? with
    | some i => match Src.availOffset i with
      | some (o, j) => (st, s!"{o} {j}")
      | none => (st, "panic")
    | none => (st, "bad-op")
  | ["k-bits", a, b, c, d, "get", i] => match hexU128 a, hexU128 b, hexU128 c, hexU128 d, i.toNat? with
    | some a, some b, some c, some d, some i =>
      let av : Avail.Avail := { w0 := a, w1 := b, w2 := c, w3 := d }
      match Avail.get av i with
      | some r => (st, s!"{bitStr r} any={bitStr (Avail.available av)}")
      | none => (st, "panic")
    | _, _, _, _, _ => (st, "bad-op")
  | ["k-bits", a, b, c, d, "set", i, v] => match hexU128 a, hexU128 b, hexU128 c, hexU128 d, i.toNat? with
    | some a, some b, some c, some d, some i =>
      let av : Avail.Avail := { w0 := a, w1 := b, w2 := c, w3 := d }
      match Avail.set av i (v == "1") with
      | some r => (st, s!"{toHexU128 r.w0} {toHexU128 r.w1} {toHexU128 r.w2} {toHexU128 r.w3} any={bitStr (Avail.available r)}")
      | none => (st, "panic")
    | _, _, _, _, _ => (st, "bad-op")
  | ["k-connerr", k] => match parseKind k with
    | some k => (st, bitStr (Src.connectionError k)) | none => (st, "bad-op")
  | ["k-times"] => (st, s!"backoff={Src.backoffMs} polltimeout={Src.pollTimeoutMs}")
  | _ =>
    if !st.started then (st, "bad-op") else
    match ws with
    | ["connect", l] => match l.toNat? with
      | some l =>
        let s' := runEnv st.cfg st.s [.connect l]
        let st' := { st with s := s' }
        (st', snapshot st' st.s)
      | none => (st, "bad-op")
    -- `wqc <cmd>`: the command reaches the queue through `WakerQueue::wake` called while the queue's mutex is
    -- busy; in the model `wake` is atomic, so this is the plain command (on a quiet loop only: nothing waiting
    -- to be accepted, nothing queued)
    | ["wqc", k] =>
      if st.s.exited || decide (st.s.nextConn > st.s.dispatched.length) || !st.s.wq.isEmpty then (st, "bad-op") else
      match (if k == "pause" then some Interest.pause else if k == "resume" then some Interest.resume
             else if k == "stop" then some Interest.stop else none) with
      | some i =>
        let st' := { st with s := runEnv st.cfg st.s [.cmd i] }
        (st', snapshot st' st.s)
      | none => (st, "bad-op")
    | ["env", acts] => match parseActs acts with
      | some as =>
        let st := { st with injSeen := st.injSeen || as.any isInject }
        let st' := { st with s := runEnv st.cfg st.s as }
        (st', snapshot st' st.s)
      | none => (st, "bad-op")
    | "poll" :: rest =>
      -- `nofile=1`: the iteration runs while the process cannot allocate a descriptor: every accept() fails with
      -- EMFILE (really, in the kernel). In the model: each listener's next accepts fail with EMFILE for the
      -- duration of this iteration only.
      if (kv rest "nofile").isSome && ((kv rest "nofile") != some "1" || (kv rest "y").isSome || (kv rest "quiet").isSome || st.injSeen) then (st, "bad-op") else
      let nofile := (kv rest "nofile") == some "1"
      match parseOrder ((kv rest "order").getD ""), (((kv rest "y").getD "").splitOn ";").mapM parseActs with
      | some order, some sched =>
        let sched := if (kv rest "y").isNone then [] else sched
        let st := { st with injSeen := st.injSeen || sched.any (·.any isInject) }
        if st.s.exited then (st, "ev=ok yields=0 " ++ snapshot st st.s) else
        let setInj (s : St) (es : List AccErr) : St :=
          (List.range s.nLst).foldl (fun s l => { s with lst := upd s.lst l { s.lst l with inject := es } }) s
        let s0 := if nofile then setInj st.s (List.replicate 4 AccErr.emfile) else st.s
        let s1 := ActixNet.Srv.poll st.cfg s0 order sched
        let st' := { st with s := if nofile then setInj s1 [] else s1 }
        -- `quiet=1`: the driver did not ring the waker itself, so the waker event is there iff an interest is queued
        let ev := if (kv rest "quiet") == some "1" then
            (if order.contains .waker == !st.s.wq.isEmpty then evCheck st.s (if order.contains .waker then order else .waker :: order) st'.s.exited
             else "MISMATCH(waker-event)")
          else evCheck st.s order st'.s.exited
        (st', s!"ev={ev} yields={st'.s.yields} " ++ snapshot st' st.s)
      | _, _ => (st, "bad-op")
    | "finishw2" :: w :: c :: rest =>
      match w.toNat?, (if c == "*" then some none else c.toNat?.map some), parseOrder ((kv rest "order").getD "") with
      | some w, some c, some order =>
        let st' := { st with s := ActixNet.Srv.step st.cfg st.s (.finishW2 w c order) }
        (st', snapshot st' st.s)
      | _, _, _ => (st, "bad-op")
    | _ => (st, "bad-op")

end Driver.Srv
