import ActixNet.Model.Srv
import ActixNet.Lemmas.SrvKernels
/-!
# The counter / availability / wake-up-token invariant of the accept-loop model

`Good cfg s` is an inductive invariant of `ActixNet.Srv` on fault-free histories (no worker dies),
for every schedule of worker / client / server actions at every yield point, every limit ≥ 1 and any
number of workers.  C02 and C03 are corollaries (Props/C02.lean, Props/C03.lean).
-/
namespace ActixNet.Srv
open ActixNet

@[simp, grind =] theorem upd_same {α} (f : Nat → α) (i : Nat) (v : α) : upd f i v i = v := by simp [upd]
@[grind =] theorem upd_apply {α} (f : Nat → α) (i j : Nat) (v : α) : upd f i v j = if j = i then v else f j := rfl
theorem upd_ne {α} (f : Nat → α) {i j : Nat} (v : α) (h : j ≠ i) : upd f i v j = f j := by simp [upd, h]
theorem upd_noop {α} (f : Nat → α) (i : Nat) : upd f i (f i) = f := by
  funext j; by_cases h : j = i <;> simp [upd, h]

/-- connections in progress at a worker: dispatched and not yet finished -/
def qOf (W : Wk) : Nat := W.queue.length + W.inflight.length

/-- wake-up tokens of worker index `i` that exist but were not yet consumed by the accept thread -/
def tokOf (wk : Nat → Wk) (wq : List Interest) (i : Nat) : Nat := (wk i).tokp + wq.count (.workerAvail i)

/-- The per-worker invariant as pure arithmetic: `L` limit, `c` raw counter, `q` in progress,
`t` outstanding tokens, `av` availability bit, `p` an increment is outstanding (window W1). -/
def GW (L c q t : Nat) (av p : Bool) : Prop :=
  c + (if p then 1 else 0) = 1 + q ∧ (av = true → c ≤ L) ∧ (p = true → c ≤ L ∧ av = true) ∧
  (0 < t → av = false ∧ c ≤ L ∧ t ≤ 1 ∧ p = false) ∧ (av = false → t = 0 → c = L + 1) ∧ c ≤ L + 1

theorem GW.init {L : Nat} (h : 1 ≤ L) : GW L 1 0 0 true false := by unfold GW; grind
theorem GW.send {L c q t} (h : GW L c q t true false) : GW L c (q + 1) t true true := by
  unfold GW at *; grind
theorem GW.inc {L c q t av} (h : GW L c q t av true) : GW L (c + 1) q t (av && decide (c ≠ L)) false := by
  unfold GW at *; grind
theorem GW.finish {L c q t av p} (h : GW L c q t av p) (hq : 1 ≤ q) :
    1 ≤ c ∧ GW L (c - 1) (q - 1) (t + (if c = L + 1 then 1 else 0)) av p := by
  unfold GW at *; grind
theorem GW.wake {L c q t av} (h : GW L c q t av false) (ht : 1 ≤ t) : GW L c q (t - 1) true false := by
  unfold GW at *; grind
theorem GW.q_le {L c q t av p} (h : GW L c q t av p) : q ≤ L := by unfold GW at *; grind

/-- the part of the state the invariant talks about -/
structure Core where
  wk : Nat → Wk
  nWk : Nat
  handles : List Nat
  next : Nat
  avail : Nat → Bool
  wq : List Interest
  pend : Option Nat
  faultedLog : List Nat

def core (s : St) : Core := ⟨s.wk, s.nWk, s.handles, s.next, s.avail, s.wq, s.pend, s.faultedLog⟩

def wqOk (n : Nat) (i : Interest) : Prop :=
  match i with
  | .workerAvail idx => idx < n
  | .worker _ => False
  | _ => True

/-- fault-free frame: the initial workers, all alive, all handles in place -/
structure FF (cfg : Cfg) (c : Core) : Prop where
  nwk : c.nWk = cfg.nIdx
  idx : ∀ w, (c.wk w).idx = w
  alive : ∀ w, (c.wk w).alive = true
  handles : c.handles = List.range cfg.nIdx
  nofl : c.faultedLog = []
  wqok : ∀ i ∈ c.wq, wqOk cfg.nIdx i
  availB : ∀ i, c.avail i = true → i < cfg.nIdx
  next_lt : c.next < cfg.nIdx
  pendB : ∀ w, c.pend = some w → w < cfg.nIdx

/-- the outstanding increment (window W1) belongs to worker `i` -/
def pendIs : Option Nat → Nat → Bool
  | some w, i => w == i
  | none, _ => false

@[simp] theorem pendIs_none (i : Nat) : pendIs none i = false := rfl
@[simp] theorem pendIs_some (w i : Nat) : pendIs (some w) i = (w == i) := rfl

def GoodWC (cfg : Cfg) (c : Core) (i : Nat) : Prop :=
  GW cfg.limit (c.wk i).c (qOf (c.wk i)) (tokOf c.wk c.wq i) (c.avail i) (pendIs c.pend i)

def GoodC (cfg : Cfg) (c : Core) : Prop := FF cfg c ∧ ∀ i, i < cfg.nIdx → GoodWC cfg c i

def Good (cfg : Cfg) (s : St) : Prop := GoodC cfg (core s)

/-- configuration assumptions: limit ≥ 1, between 1 and 512 workers -/
structure CfgOk (cfg : Cfg) : Prop where
  limit : 1 ≤ cfg.limit
  pos : 0 < cfg.nIdx
  max : cfg.nIdx ≤ 512

theorem good_of_core_eq {cfg s s'} (h : core s' = core s) (g : Good cfg s) : Good cfg s' := by
  unfold Good at *; rw [h]; exact g

theorem init_good (cfg : Cfg) (ok : CfgOk cfg) (kinds : List Kind) : Good cfg (init cfg kinds) := by
  refine ⟨⟨rfl, fun w => rfl, fun w => rfl, rfl, rfl, ?_, ?_, ok.pos, ?_⟩, ?_⟩
  · intro i hi; simp [init, core] at hi
  · intro i hi; simpa [init, core] using hi
  · intro w hw; simp [init, core] at hw
  · intro i hi
    simp only [GoodWC, init, core, initWk, qOf, tokOf, SrvKernels.wcInit_eq]
    simpa [hi] using GW.init ok.limit

end ActixNet.Srv

namespace ActixNet.Srv
open ActixNet

/-- generic step: one worker's record and the waker queue change, nothing else -/
theorem good_upd_worker {cfg : Cfg} {c : Core} (g : GoodC cfg c) (w : Nat) (W' : Wk) (wq' : List Interest)
    (hidx : W'.idx = w) (halive : W'.alive = true)
    (hwq : ∀ i ∈ wq', wqOk cfg.nIdx i)
    (hother : ∀ i, i ≠ w → wq'.count (.workerAvail i) = c.wq.count (.workerAvail i))
    (hw : w < cfg.nIdx → GW cfg.limit W'.c (qOf W') (W'.tokp + wq'.count (.workerAvail w)) (c.avail w)
      (pendIs c.pend w)) :
    GoodC cfg { c with wk := upd c.wk w W', wq := wq' } := by
  obtain ⟨ff, gw⟩ := g
  refine ⟨⟨ff.nwk, ?_, ?_, ff.handles, ff.nofl, hwq, ff.availB, ff.next_lt, ff.pendB⟩, ?_⟩
  · intro v; by_cases hv : v = w
    · subst hv; simpa using hidx
    · simpa [upd, hv] using ff.idx v
  · intro v; by_cases hv : v = w
    · subst hv; simpa using halive
    · simpa [upd, hv] using ff.alive v
  · intro i hi
    by_cases hiw : i = w
    · subst hiw
      simpa [GoodWC, tokOf] using hw hi
    · have := gw i hi
      simp only [GoodWC, tokOf, upd, hiw, ↓reduceIte] at this ⊢
      rw [hother i hiw]; exact this

def EnvAct.isDie : EnvAct → Bool
  | .die _ => true
  | _ => false

theorem count_append_single (l : List Interest) (a b : Interest) :
    (l ++ [a]).count b = l.count b + (if a = b then 1 else 0) := by
  rw [List.count_append]; simp [List.count_cons, List.count_nil]

/-- what the accept thread keeps to itself: untouched by every environment action -/
def SameLocal (s s' : St) : Prop :=
  s'.pend = s.pend ∧ s'.avail = s.avail ∧ s'.handles = s.handles ∧ s'.next = s.next ∧
  s'.paused = s.paused ∧ s'.nLst = s.nLst ∧ s'.exited = s.exited ∧ s'.fault = s.fault ∧ s'.timeout = s.timeout

theorem SameLocal.refl (s : St) : SameLocal s s := ⟨rfl, rfl, rfl, rfl, rfl, rfl, rfl, rfl, rfl⟩
theorem SameLocal.trans {a b c : St} (h1 : SameLocal a b) (h2 : SameLocal b c) : SameLocal a c := by
  unfold SameLocal at *; grind

theorem core_eta (s : St) (wk' : Nat → Wk) (wq' : List Interest) :
    ({ core s with wk := wk', wq := wq' } : Core) = ⟨wk', s.nWk, s.handles, s.next, s.avail, wq', s.pend, s.faultedLog⟩ := rfl

theorem length_eraseP_pick {W : Wk} {cid : Option Nat} {c : Conn} (h : pickInflight W cid = some c) :
    (W.inflight.eraseP (fun x => x.1 == c.1)).length = W.inflight.length - 1 ∧ 1 ≤ W.inflight.length := by
  have hm : c ∈ W.inflight := by
    cases cid with
    | none => simp only [pickInflight] at h; exact List.mem_of_head? h
    | some id => simp only [pickInflight] at h; exact List.mem_of_find?_eq_some h
  constructor
  · apply List.length_eraseP_of_mem hm; simp
  · exact List.length_pos_of_mem hm

theorem GW.finishShape {L c ql il tokp cnt : Nat} {av p crossed : Bool}
    (h : GW L c (ql + il) (tokp + cnt) av p) (hil : 1 ≤ il) (hx : 1 ≤ c → (crossed = true ↔ c = L + 1)) :
    GW L (c - 1) (ql + (il - 1)) ((if crossed = true then tokp + 1 else tokp) + cnt) av p := by
  obtain ⟨hc, gf⟩ := GW.finish h (by omega)
  have := hx hc
  unfold GW at *
  cases crossed <;> grind

theorem GW.finishNowShape {L c ql il tokp cnt : Nat} {av p crossed : Bool}
    (h : GW L c (ql + il) (tokp + cnt) av p) (hil : 1 ≤ il) (hx : 1 ≤ c → (crossed = true ↔ c = L + 1)) :
    GW L (c - 1) (ql + (il - 1)) (tokp + (cnt + (if crossed = true then 1 else 0))) av p := by
  obtain ⟨hc, gf⟩ := GW.finish h (by omega)
  have := hx hc
  unfold GW at *
  cases crossed <;> grind

theorem envStep_good (cfg : Cfg) (s : St) (a : EnvAct) (g : Good cfg s) (hd : a.isDie = false) :
    Good cfg (envStep cfg s a).1 ∧ SameLocal s (envStep cfg s a).1 := by
  have ff := g.1
  cases a with
  | connect l =>
    simp only [envStep]
    split
    · split
      · exact ⟨g, SameLocal.refl s⟩
      · exact ⟨good_of_core_eq rfl g, ⟨rfl, rfl, rfl, rfl, rfl, rfl, rfl, rfl, rfl⟩⟩
    · exact ⟨g, SameLocal.refl s⟩
  | recv w =>
    have hal : (s.wk w).alive = true := ff.alive w
    simp only [envStep]
    by_cases hw : w < s.nWk
    · rw [if_pos hw, if_pos hal]
      split
      · exact ⟨g, SameLocal.refl s⟩
      · rename_i c q hq
        refine ⟨?_, ⟨rfl, rfl, rfl, rfl, rfl, rfl, rfl, rfl, rfl⟩⟩
        have := good_upd_worker g w { s.wk w with queue := q, inflight := (s.wk w).inflight ++ [c] } s.wq
          (ff.idx w) (ff.alive w) ff.wqok (fun _ _ => rfl) (by
            intro hwn
            have gw := g.2 w hwn
            simp only [GoodWC, tokOf, qOf, core] at gw ⊢
            rw [hq] at gw
            simpa [Nat.add_comm, Nat.add_left_comm, Nat.add_assoc] using gw)
        exact this
    · rw [if_neg hw]; exact ⟨g, SameLocal.refl s⟩
  | finish w cid =>
    simp only [envStep]
    by_cases hw : w < s.nWk
    · rw [if_pos hw]
      split
      · exact ⟨g, SameLocal.refl s⟩
      · rename_i c hp
        refine ⟨?_, ⟨rfl, rfl, rfl, rfl, rfl, rfl, rfl, rfl, rfl⟩⟩
        obtain ⟨hlen, hpos⟩ := length_eraseP_pick hp
        exact good_upd_worker g w _ s.wq (ff.idx w) (ff.alive w) ff.wqok (fun _ _ => rfl) (by
          intro hwn
          have gw := g.2 w hwn
          simp only [GoodWC, tokOf, qOf, core] at gw ⊢
          rw [hlen]
          exact GW.finishShape gw hpos (fun hc => SrvKernels.decCrossed_iff _ _ hc))
    · rw [if_neg hw]; exact ⟨g, SameLocal.refl s⟩
  | push w =>
    simp only [envStep]
    by_cases hw : w < s.nWk
    · rw [if_pos hw]
      split
      · rename_i ht
        refine ⟨?_, ⟨rfl, rfl, rfl, rfl, rfl, rfl, rfl, rfl, rfl⟩⟩
        have hidx : (s.wk w).idx = w := ff.idx w
        have hwn : w < cfg.nIdx := by have := ff.nwk; simp only [core] at this; omega
        exact good_upd_worker g w { s.wk w with tokp := (s.wk w).tokp - 1 } (s.wq ++ [.workerAvail (s.wk w).idx]) (ff.idx w) (ff.alive w)
          (by
            intro i hi
            rcases List.mem_append.mp hi with hi | hi
            · exact ff.wqok i hi
            · simp at hi; subst hi; simpa [wqOk, hidx] using hwn)
          (by
            intro i hiw
            rw [count_append_single, hidx]
            have : ¬ (Interest.workerAvail w = Interest.workerAvail i) := by
              intro h; injection h with h; exact hiw h.symm
            simp [this, core])
          (by
            intro _
            have gw := g.2 w hwn
            simp only [GoodWC, tokOf, qOf, core] at gw ⊢
            rw [count_append_single, hidx]
            simp only [↓reduceIte]
            have e : (s.wk w).tokp - 1 + (List.count (Interest.workerAvail w) s.wq + 1) = (s.wk w).tokp + List.count (Interest.workerAvail w) s.wq := by omega
            rw [e]; exact gw)
      · exact ⟨g, SameLocal.refl s⟩
    · rw [if_neg hw]; exact ⟨g, SameLocal.refl s⟩
  | finishNow w cid =>
    simp only [envStep]
    by_cases hw : w < s.nWk
    · rw [if_pos hw]
      split
      · exact ⟨g, SameLocal.refl s⟩
      · rename_i c hp
        obtain ⟨hlen, hpos⟩ := length_eraseP_pick hp
        have hidx : (s.wk w).idx = w := ff.idx w
        have hwn : w < cfg.nIdx := by have := ff.nwk; simp only [core] at this; omega
        have key := good_upd_worker g w
          { s.wk w with inflight := (s.wk w).inflight.eraseP (fun x => x.1 == c.1), c := (s.wk w).c - 1 }
          (if Src.wcDecCrossed (s.wk w).c cfg.limit = true then s.wq ++ [.workerAvail (s.wk w).idx] else s.wq)
          (ff.idx w) (ff.alive w)
          (by
            intro i hi
            split at hi
            · rcases List.mem_append.mp hi with hi | hi
              · exact ff.wqok i hi
              · simp at hi; subst hi; simpa [wqOk, hidx] using hwn
            · exact ff.wqok i hi)
          (by
            intro i hiw
            split
            · rw [count_append_single, hidx]
              have : ¬ (Interest.workerAvail w = Interest.workerAvail i) := by
                intro h; injection h with h; exact hiw h.symm
              simp [this, core]
            · rfl)
          (by
            intro _
            have gw := g.2 w hwn
            simp only [GoodWC, tokOf, qOf, core] at gw ⊢
            rw [hlen]
            have := GW.finishNowShape (crossed := Src.wcDecCrossed (s.wk w).c cfg.limit) gw hpos
              (fun hc => SrvKernels.decCrossed_iff _ _ hc)
            split
            · rename_i hcr
              rw [count_append_single, hidx]; simpa [hcr] using this
            · rename_i hcr
              simpa [hcr] using this)
        refine ⟨?_, ?_⟩
        · by_cases hcr : Src.wcDecCrossed (s.wk w).c cfg.limit = true
          · simp only [hcr, ↓reduceIte] at key ⊢; exact key
          · simp only [hcr, ↓reduceIte] at key ⊢; exact key
        · by_cases hcr : Src.wcDecCrossed (s.wk w).c cfg.limit = true <;> simp only [hcr, ↓reduceIte] <;>
            exact ⟨rfl, rfl, rfl, rfl, rfl, rfl, rfl, rfl, rfl⟩
    · rw [if_neg hw]; exact ⟨g, SameLocal.refl s⟩
  | die w => simp [EnvAct.isDie] at hd
  | cmd i =>
    have push_ok : ∀ j : Interest, wqOk cfg.nIdx j → (∀ k, j ≠ .workerAvail k) →
        Good cfg (pushWq s j) ∧ SameLocal s (pushWq s j) := by
      intro j hj hne
      refine ⟨⟨⟨ff.nwk, ff.idx, ff.alive, ff.handles, ff.nofl, ?_, ff.availB, ff.next_lt, ff.pendB⟩, ?_⟩,
        ⟨rfl, rfl, rfl, rfl, rfl, rfl, rfl, rfl, rfl⟩⟩
      · intro i hi
        simp only [pushWq, core] at hi
        rcases List.mem_append.mp hi with hi | hi
        · exact ff.wqok i hi
        · simp at hi; subst hi; exact hj
      · intro i hi
        have gw := g.2 i hi
        simp only [GoodWC, tokOf, pushWq, core] at gw ⊢
        rw [count_append_single]
        simpa [hne i] using gw
    cases i with
    | pause => exact push_ok _ (by simp [wqOk]) (by intro k h; cases h)
    | resume => exact push_ok _ (by simp [wqOk]) (by intro k h; cases h)
    | stop => exact push_ok _ (by simp [wqOk]) (by intro k h; cases h)
    | workerAvail k => exact ⟨g, SameLocal.refl s⟩
    | worker k => exact ⟨g, SameLocal.refl s⟩
  | restart idx =>
    simp only [envStep]
    have : s.faultedLog = [] := ff.nofl
    simp [this]
    exact ⟨g, SameLocal.refl s⟩
  | advance ms => exact ⟨good_of_core_eq rfl g, ⟨rfl, rfl, rfl, rfl, rfl, rfl, rfl, rfl, rfl⟩⟩
  | inject l e =>
    simp only [envStep]
    split
    · exact ⟨good_of_core_eq rfl g, ⟨rfl, rfl, rfl, rfl, rfl, rfl, rfl, rfl, rfl⟩⟩
    · exact ⟨g, SameLocal.refl s⟩

theorem envStep_sched (cfg : Cfg) (s : St) (a : EnvAct) : (envStep cfg s a).1.sched = s.sched := by
  cases a <;> simp only [envStep] <;> (repeat' split) <;> first | rfl | (simp [pushWq])

/-- no worker dies in this list of actions -/
def NoDie (as : List EnvAct) : Prop := ∀ a ∈ as, a.isDie = false

theorem runEnv_good (cfg : Cfg) : ∀ (as : List EnvAct) (s : St), Good cfg s → NoDie as →
    Good cfg (runEnv cfg s as) ∧ SameLocal s (runEnv cfg s as) ∧ (runEnv cfg s as).sched = s.sched := by
  intro as
  induction as with
  | nil => intro s g _; exact ⟨g, SameLocal.refl s, rfl⟩
  | cons a as ih =>
    intro s g hn
    simp only [runEnv]
    obtain ⟨g1, l1⟩ := envStep_good cfg s a g (hn a (List.mem_cons_self))
    have g1' : Good cfg { (envStep cfg s a).1 with acts := (envStep cfg s a).1.acts ++ [(envStep cfg s a).2] } :=
      good_of_core_eq rfl g1
    obtain ⟨g2, l2, h2⟩ := ih _ g1' (fun b hb => hn b (List.mem_cons_of_mem _ hb))
    refine ⟨g2, ?_, ?_⟩
    · exact SameLocal.trans l1 (SameLocal.trans ⟨rfl, rfl, rfl, rfl, rfl, rfl, rfl, rfl, rfl⟩ l2)
    · rw [h2]; exact envStep_sched cfg s a

/-- every chunk still to be scheduled is free of worker deaths -/
def SchedOk (s : St) : Prop := ∀ ch ∈ s.sched, NoDie ch

theorem yieldPt_good (cfg : Cfg) (s : St) (g : Good cfg s) (hs : SchedOk s) :
    Good cfg (yieldPt cfg s) ∧ SameLocal s (yieldPt cfg s) ∧ SchedOk (yieldPt cfg s) := by
  unfold yieldPt
  split
  · rename_i h
    refine ⟨good_of_core_eq rfl g, ⟨rfl, rfl, rfl, rfl, rfl, rfl, rfl, rfl, rfl⟩, ?_⟩
    intro ch hch; simp [h] at hch
  · rename_i ch rest h
    have g0 : Good cfg { s with sched := rest, yields := s.yields + 1 } := good_of_core_eq rfl g
    obtain ⟨g1, l1, h1⟩ := runEnv_good cfg ch _ g0 (hs ch (by simp [h]))
    refine ⟨g1, SameLocal.trans ⟨rfl, rfl, rfl, rfl, rfl, rfl, rfl, rfl, rfl⟩ l1, ?_⟩
    intro c hc
    rw [h1] at hc
    exact hs c (by simp [h]; exact Or.inr hc)

theorem goodC_send {cfg : Cfg} {c : Core} (g : GoodC cfg c) (hp : c.pend = none) (w : Nat) (hw : w < cfg.nIdx)
    (hav : c.avail w = true) (x : Conn) :
    GoodC cfg { c with wk := upd c.wk w { c.wk w with queue := (c.wk w).queue ++ [x] }, pend := some w } := by
  obtain ⟨ff, gw⟩ := g
  refine ⟨⟨ff.nwk, ?_, ?_, ff.handles, ff.nofl, ff.wqok, ff.availB, ff.next_lt, ?_⟩, ?_⟩
  · intro v; by_cases hv : v = w
    · subst hv; simpa using ff.idx v
    · simpa [upd, hv] using ff.idx v
  · intro v; by_cases hv : v = w
    · subst hv; simpa using ff.alive v
    · simpa [upd, hv] using ff.alive v
  · intro v hv; simp at hv; subst hv; exact hw
  · intro i hi
    have gi := gw i hi
    by_cases hiw : i = w
    · subst hiw
      simp only [GoodWC, tokOf, qOf, hp, pendIs_none, hav] at gi
      simp only [GoodWC, tokOf, qOf, upd_same, pendIs_some, beq_self_eq_true, hav, List.length_append,
        List.length_singleton]
      have := GW.send gi
      have e : (c.wk i).queue.length + 1 + (c.wk i).inflight.length = (c.wk i).queue.length + (c.wk i).inflight.length + 1 := by omega
      rw [e]; exact this
    · have hwi : (w == i) = false := by simp; exact fun h => hiw h.symm
      simp only [GoodWC, tokOf, qOf, hp, pendIs_none] at gi
      simp only [GoodWC, tokOf, qOf, upd, hiw, ↓reduceIte, pendIs_some, hwi]
      exact gi

theorem goodC_inc {cfg : Cfg} {c : Core} (g : GoodC cfg c) (w : Nat) (hp : c.pend = some w) :
    GoodC cfg { c with wk := upd c.wk w { c.wk w with c := (c.wk w).c + 1 }, pend := none,
                       avail := if Src.wcIncStill (c.wk w).c cfg.limit = true then c.avail else upd c.avail w false } := by
  obtain ⟨ff, gw⟩ := g
  have hwn := ff.pendB w hp
  refine ⟨⟨ff.nwk, ?_, ?_, ff.handles, ff.nofl, ff.wqok, ?_, ff.next_lt, ?_⟩, ?_⟩
  · intro v; by_cases hv : v = w
    · subst hv; simpa using ff.idx v
    · simpa [upd, hv] using ff.idx v
  · intro v; by_cases hv : v = w
    · subst hv; simpa using ff.alive v
    · simpa [upd, hv] using ff.alive v
  · intro i hi
    split at hi
    · exact ff.availB i hi
    · by_cases hiw : i = w
      · subst hiw; simp at hi
      · simp [upd, hiw] at hi; exact ff.availB i hi
  · intro v hv; simp at hv
  · intro i hi
    have gi := gw i hi
    by_cases hiw : i = w
    · subst hiw
      simp only [GoodWC, tokOf, qOf, hp, pendIs_some, beq_self_eq_true] at gi
      have := GW.inc gi
      simp only [GoodWC, tokOf, qOf, upd_same, pendIs_none]
      by_cases hst : Src.wcIncStill (c.wk i).c cfg.limit = true
      · have hne := (SrvKernels.incStill_iff _ _).mp hst
        simp only [hst, ↓reduceIte]
        simpa [hne] using this
      · have heq : (c.wk i).c = cfg.limit := by
          apply Classical.byContradiction; intro h; exact hst ((SrvKernels.incStill_iff _ _).mpr h)
        simp only [hst, ↓reduceIte, upd_same]
        simpa [heq] using this
    · have hwi : (w == i) = false := by simp; exact fun h => hiw h.symm
      simp only [GoodWC, tokOf, qOf, hp, pendIs_some, hwi] at gi
      simp only [GoodWC, tokOf, qOf, upd, hiw, ↓reduceIte, pendIs_none]
      split
      · exact gi
      · rw [upd_ne _ _ hiw]; exact gi


structure AccInv (cfg : Cfg) (s : St) : Prop where
  good : Good cfg s
  pend : s.pend = none
  sched : SchedOk s

/-- `s'` differs from `s` only outside the invariant's view -/
def Frame (s s' : St) : Prop := core s' = core s ∧ s'.sched = s.sched

theorem AccInv.frame {cfg s s'} (f : Frame s s') (h : AccInv cfg s) : AccInv cfg s' := by
  refine ⟨good_of_core_eq f.1 h.good, ?_, ?_⟩
  · have := congrArg Core.pend f.1; simp only [core] at this; rw [this]; exact h.pend
  · unfold SchedOk; rw [f.2]; exact h.sched

theorem Frame.avail {s s'} (f : Frame s s') : s'.avail = s.avail := by
  have := congrArg Core.avail f.1; simpa [core] using this

theorem handles_next {cfg s} (g : Good cfg s) : s.handles[s.next]? = some s.next := by
  have h1 : s.handles = List.range cfg.nIdx := g.1.handles
  have h2 : s.next < cfg.nIdx := g.1.next_lt
  rw [h1]; simp [h2]

theorem goodC_next {cfg : Cfg} {c : Core} (g : GoodC cfg c) (n : Nat) (hn : n < cfg.nIdx) :
    GoodC cfg { c with next := n } :=
  ⟨⟨g.1.nwk, g.1.idx, g.1.alive, g.1.handles, g.1.nofl, g.1.wqok, g.1.availB, hn, g.1.pendB⟩, g.2⟩

theorem setNext_acc {cfg} (ok : CfgOk cfg) {s} (h : AccInv cfg s) :
    AccInv cfg (setNext s) ∧ (setNext s).avail = s.avail := by
  have hh : s.handles = List.range cfg.nIdx := h.good.1.handles
  have hl : s.handles.length = cfg.nIdx := by rw [hh]; simp
  have hp := ok.pos
  unfold setNext
  rw [if_neg (by omega)]
  refine ⟨⟨?_, h.pend, h.sched⟩, rfl⟩
  have := goodC_next h.good ((s.next + 1) % s.handles.length) (by rw [hl]; exact Nat.mod_lt _ hp)
  exact this

theorem sendPrim_good {cfg s} (h : AccInv cfg s) (w : Nat) (hw : w < cfg.nIdx) (hav : s.avail w = true) (x : Conn) :
    Good cfg (sendPrim s w x) ∧ (sendPrim s w x).pend = some w ∧ SchedOk (sendPrim s w x) ∧
      (sendPrim s w x).avail = s.avail :=
  ⟨goodC_send h.good h.pend w hw hav x, rfl, h.sched, rfl⟩

theorem incPrim_good {cfg} (ok : CfgOk cfg) {s} (g : Good cfg s) (w : Nat) (hp : s.pend = some w) (hs : SchedOk s) :
    AccInv cfg (incPrim cfg s w w) := by
  have hwn : w < cfg.nIdx := g.1.pendB w hp
  have key := goodC_inc g w hp
  simp only [core] at key
  unfold incPrim
  by_cases hst : Src.wcIncStill (s.wk w).c cfg.limit = true
  · simp only [hst, ↓reduceIte] at key ⊢
    exact ⟨key, rfl, hs⟩
  · have h512 : w < 512 := by have := ok.max; omega
    simp only [hst, setAvail, h512, ↓reduceIte] at key ⊢
    exact ⟨key, rfl, hs⟩

theorem sendConnection_good {cfg} (ok : CfgOk cfg) {s} (h : AccInv cfg s) (hav : s.avail s.next = true) (x : Conn) :
    AccInv cfg (sendConnection cfg s x).1 ∧ (sendConnection cfg s x).2 = true := by
  unfold sendConnection
  split
  · exact ⟨h, rfl⟩
  · rw [handles_next h.good]
    have hal : (s.wk s.next).alive = true := h.good.1.alive s.next
    have hidx : (s.wk s.next).idx = s.next := h.good.1.idx s.next
    have hn : s.next < cfg.nIdx := h.good.1.next_lt
    simp only [hal, ↓reduceIte, hidx]
    obtain ⟨g1, p1, s1, a1⟩ := sendPrim_good h s.next hn hav x
    obtain ⟨g2, l2, s2⟩ := yieldPt_good cfg _ g1 s1
    have p2 : (yieldPt cfg (sendPrim s s.next x)).pend = some s.next := by rw [l2.1]; exact p1
    have h3 := incPrim_good ok g2 s.next p2 s2
    exact ⟨(setNext_acc ok h3).1, trivial⟩


theorem Frame.refl (s : St) : Frame s s := ⟨rfl, rfl⟩
theorem Frame.trans {a b c : St} (h1 : Frame a b) (h2 : Frame b c) : Frame a c :=
  ⟨h2.1.trans h1.1, h2.2.trans h1.2⟩

theorem register_frame (s : St) (l : Nat) : Frame s (register s l) := by
  simp only [register]; split <;> exact ⟨rfl, rfl⟩
theorem deregister_frame (s : St) (l : Nat) : Frame s (deregister s l) := ⟨rfl, rfl⟩
theorem setTimeout_frame (s : St) (d : Nat) : Frame s (setTimeout s d) := by
  unfold setTimeout; split
  · split <;> exact ⟨rfl, rfl⟩
  · exact ⟨rfl, rfl⟩
theorem deregisterAllFrom_frame : ∀ (ls : List Nat) (s : St), Frame s (deregisterAllFrom s ls) := by
  intro ls; induction ls with
  | nil => intro s; exact Frame.refl s
  | cons l ls ih =>
    intro s; simp only [deregisterAllFrom]
    refine Frame.trans ?_ (ih _)
    split
    · exact Frame.trans ⟨rfl, rfl⟩ (deregister_frame _ l)
    · exact ⟨rfl, rfl⟩
theorem registerAllFrom_frame : ∀ (ls : List Nat) (s : St), Frame s (registerAllFrom s ls) := by
  intro ls; induction ls with
  | nil => intro s; exact Frame.refl s
  | cons l ls ih =>
    intro s; simp only [registerAllFrom]
    have h1 : Frame s { s with lst := upd s.lst l { s.lst l with deadline := none } } := ⟨rfl, rfl⟩
    exact Frame.trans (Frame.trans h1 (register_frame _ l)) (ih _)
theorem processTimeoutFrom_frame (now : Nat) : ∀ (ls : List Nat) (s : St), Frame s (processTimeoutFrom s now ls) := by
  intro ls; induction ls with
  | nil => intro s; exact Frame.refl s
  | cons l ls ih =>
    intro s; simp only [processTimeoutFrom]
    split
    · exact ih _
    · refine Frame.trans ?_ (ih _)
      split
      · exact Frame.trans ⟨rfl, rfl⟩ (setTimeout_frame _ _)
      · split
        · exact Frame.trans ⟨rfl, rfl⟩ (register_frame _ _)
        · exact ⟨rfl, rfl⟩
theorem processTimeout_frame (s : St) : Frame s (processTimeout s) := by
  unfold processTimeout; split
  · exact Frame.refl s
  · exact Frame.trans ⟨rfl, rfl⟩ (processTimeoutFrom_frame _ _ _)
theorem cleanupAll_frame (s : St) : Frame s (cleanupAll s) := ⟨rfl, rfl⟩
theorem acceptSys_frame (s : St) (l : Nat) : Frame s (acceptSys s l).1 := by
  simp only [acceptSys]
  split
  · split
    · split
      · exact ⟨rfl, rfl⟩
      · split <;> exact ⟨rfl, rfl⟩
    · exact ⟨rfl, rfl⟩
  · split <;> exact ⟨rfl, rfl⟩

theorem anyAvail_congr {cfg s s'} (h : s'.avail = s.avail) : anyAvail cfg s' = anyAvail cfg s := by
  unfold anyAvail; rw [h]

theorem yieldPt_acc {cfg s} (h : AccInv cfg s) : AccInv cfg (yieldPt cfg s) ∧ (yieldPt cfg s).avail = s.avail := by
  obtain ⟨g, l, sc⟩ := yieldPt_good cfg s h.good h.sched
  exact ⟨⟨g, by rw [l.1]; exact h.pend, sc⟩, l.2.1⟩

theorem fault_frame (s : St) (f : Fault) : Frame s { s with fault := some f } := ⟨rfl, rfl⟩

theorem acceptOne_good {cfg} (ok : CfgOk cfg) : ∀ (fuel : Nat) (s : St) (x : Conn), AccInv cfg s → anyAvail cfg s = true →
    AccInv cfg (acceptOne cfg fuel s x) := by
  intro fuel
  induction fuel with
  | zero => intro s x h _; exact h.frame (fault_frame s _)
  | succ fuel ih =>
    intro s x h ha
    unfold acceptOne
    split
    · exact h
    · rw [handles_next h.good]
      have hidx : (s.wk s.next).idx = s.next := h.good.1.idx s.next
      have hn : s.next < cfg.nIdx := h.good.1.next_lt
      simp only [hidx]
      by_cases hav : s.avail s.next = true
      · simp only [hav, ↓reduceIte]
        obtain ⟨h1, ok1⟩ := sendConnection_good ok h hav x
        cases hsc : sendConnection cfg s x with
        | mk s1 b =>
          rw [hsc] at h1 ok1
          simp only at ok1 h1
          simp only [ok1, ↓reduceIte]; exact h1
      · have hav' : s.avail s.next = false := by simpa using hav
        have h512 : s.next < 512 := by have := ok.max; omega
        have hsa : setAvail s s.next false = s := by
          unfold setAvail; simp only [h512, ↓reduceIte]
          have : upd s.avail s.next false = s.avail := by rw [← hav']; exact upd_noop _ _
          rw [this]
        simp only [hav', Bool.false_eq_true, ↓reduceIte, hsa]
        obtain ⟨h1, a1⟩ := setNext_acc ok h
        have ha1 : anyAvail cfg (setNext s) = true := by rw [anyAvail_congr a1]; exact ha
        simp only [ha1, Bool.not_true, Bool.false_eq_true, ↓reduceIte]
        exact ih _ x h1 ha1


theorem accept_good {cfg} (ok : CfgOk cfg) : ∀ (fuel : Nat) (s : St) (l : Nat), AccInv cfg s →
    AccInv cfg (accept cfg fuel s l) := by
  intro fuel
  induction fuel with
  | zero => intro s l h; exact h.frame (fault_frame s _)
  | succ fuel ih =>
    intro s l h
    simp only [accept]
    split
    · exact h
    · split
      · exact h
      · rename_i hf hany
        have hany' : anyAvail cfg s = true := by simpa using hany
        obtain ⟨h0, a0⟩ := yieldPt_acc h
        have fr := acceptSys_frame (yieldPt cfg s) l
        cases hsys : acceptSys (yieldPt cfg s) l with
        | mk s1 r =>
          rw [hsys] at fr
          simp only at fr
          have h1 : AccInv cfg s1 := h0.frame fr
          have a1 : anyAvail cfg s1 = true := by
            rw [anyAvail_congr fr.avail, anyAvail_congr a0]; exact hany'
          cases r with
          | conn c => exact ih _ l (acceptOne_good ok _ s1 c h1 a1)
          | wouldBlock => exact h1
          | connErr => exact ih _ l h1
          | otherErr =>
            exact h1.frame (Frame.trans (deregister_frame s1 l) (Frame.trans ⟨rfl, rfl⟩ (setTimeout_frame _ _)))

theorem acceptAllFrom_good {cfg} (ok : CfgOk cfg) : ∀ (ls : List Nat) (s : St), AccInv cfg s →
    AccInv cfg (acceptAllFrom cfg s ls) := by
  intro ls
  induction ls with
  | nil => intro s h; exact h
  | cons l ls ih => intro s h; simp only [acceptAllFrom]; exact ih _ (accept_good ok _ s l h)

theorem acceptAll_good {cfg} (ok : CfgOk cfg) {s} (h : AccInv cfg s) : AccInv cfg (acceptAll cfg s) :=
  acceptAllFrom_good ok _ s h


theorem goodC_wake {cfg : Cfg} {c : Core} (g : GoodC cfg c) (hp : c.pend = none) (idx : Nat) (q : List Interest)
    (hq : c.wq = .workerAvail idx :: q) : GoodC cfg { c with wq := q, avail := upd c.avail idx true } := by
  obtain ⟨ff, gw⟩ := g
  have hidx : idx < cfg.nIdx := by
    have := ff.wqok (.workerAvail idx) (by rw [hq]; exact List.mem_cons_self); simpa [wqOk] using this
  refine ⟨⟨ff.nwk, ff.idx, ff.alive, ff.handles, ff.nofl, ?_, ?_, ff.next_lt, ff.pendB⟩, ?_⟩
  · intro i hi; exact ff.wqok i (by rw [hq]; exact List.mem_cons_of_mem _ hi)
  · intro i hi
    by_cases hii : i = idx
    · subst hii; exact hidx
    · simp only [upd, hii, ↓reduceIte] at hi; exact ff.availB i hi
  · intro i hi
    have gi := gw i hi
    simp only [GoodWC, tokOf, hp, pendIs_none, hq, List.count_cons] at gi
    simp only [GoodWC, tokOf, hp, pendIs_none]
    by_cases hii : i = idx
    · subst hii
      simp only [upd_same, beq_self_eq_true, ↓reduceIte] at gi ⊢
      have := GW.wake gi (by omega)
      have e : (c.wk i).tokp + (List.count (Interest.workerAvail i) q + 1) - 1 = (c.wk i).tokp + List.count (Interest.workerAvail i) q := by omega
      rw [e] at this; exact this
    · have hne : (Interest.workerAvail idx == Interest.workerAvail i) = false := by
        simp; exact fun h => hii h.symm
      rw [upd_ne _ _ hii]
      simpa [hne] using gi

theorem goodC_popCmd {cfg : Cfg} {c : Core} (g : GoodC cfg c) (i : Interest) (q : List Interest)
    (hq : c.wq = i :: q) (hi : ∀ k, i ≠ .workerAvail k) : GoodC cfg { c with wq := q } := by
  obtain ⟨ff, gw⟩ := g
  refine ⟨⟨ff.nwk, ff.idx, ff.alive, ff.handles, ff.nofl, ?_, ff.availB, ff.next_lt, ff.pendB⟩, ?_⟩
  · intro j hj; exact ff.wqok j (by rw [hq]; exact List.mem_cons_of_mem _ hj)
  · intro j hj
    have gj := gw j hj
    simp only [GoodWC, tokOf, hq, List.count_cons] at gj
    simp only [GoodWC, tokOf]
    have hne : (i == Interest.workerAvail j) = false := by simp; exact hi j
    simpa [hne] using gj

theorem hasHandleIdx_ff {cfg s} (g : Good cfg s) {idx : Nat} (h : idx < cfg.nIdx) : hasHandleIdx s idx = true := by
  unfold hasHandleIdx
  have hh : s.handles = List.range cfg.nIdx := g.1.handles
  rw [hh, List.any_eq_true]
  exact ⟨idx, by simp [h], by simpa [core] using g.1.idx idx⟩


theorem handleWaker_good {cfg} (ok : CfgOk cfg) : ∀ (fuel : Nat) (s : St), AccInv cfg s →
    AccInv cfg (handleWaker cfg fuel s).1 := by
  intro fuel
  induction fuel with
  | zero => intro s h; exact h.frame (fault_frame s _)
  | succ fuel ih =>
    intro s h
    simp only [handleWaker]
    split
    · exact h
    · obtain ⟨h0, _⟩ := yieldPt_acc h
      generalize yieldPt cfg s = s0 at h0 ⊢
      cases hwq : s0.wq with
      | nil => exact h0
      | cons i q =>
        simp only
        have hcwq : (core s0).wq = i :: q := hwq
        cases i with
        | workerAvail idx =>
          have hidx : idx < cfg.nIdx := by
            have := h0.good.1.wqok (.workerAvail idx) (by rw [hcwq]; exact List.mem_cons_self)
            simpa [wqOk] using this
          have h512 : idx < 512 := by have := ok.max; omega
          have hh : hasHandleIdx { s0 with wq := q } idx = true := hasHandleIdx_ff h0.good hidx
          have g2 : Good cfg { s0 with wq := q, avail := upd s0.avail idx true } :=
            goodC_wake h0.good h0.pend idx q hcwq
          have h2 : AccInv cfg { s0 with wq := q, avail := upd s0.avail idx true } := ⟨g2, h0.pend, h0.sched⟩
          simp only [wakePrim, hh, ↓reduceIte, setAvail, h512]
          split
          · exact ih _ (acceptAll_good ok h2)
          · exact ih _ h2
        | worker w =>
          exact absurd (h0.good.1.wqok (.worker w) (by rw [hcwq]; exact List.mem_cons_self)) (by simp [wqOk])
        | pause =>
          have g1 : Good cfg { s0 with wq := q } := goodC_popCmd h0.good _ q hcwq (by intro k hk; cases hk)
          have h1 : AccInv cfg { s0 with wq := q } := ⟨g1, h0.pend, h0.sched⟩
          simp only
          split
          · have h1' : AccInv cfg { s0 with wq := q, paused := true } := AccInv.frame (s := { s0 with wq := q }) ⟨rfl, rfl⟩ h1
            exact ih _ (h1'.frame (deregisterAllFrom_frame _ _))
          · exact ih _ h1
        | resume =>
          have g1 : Good cfg { s0 with wq := q } := goodC_popCmd h0.good _ q hcwq (by intro k hk; cases hk)
          have h1 : AccInv cfg { s0 with wq := q } := ⟨g1, h0.pend, h0.sched⟩
          simp only
          split
          · have h1' : AccInv cfg { s0 with wq := q, paused := false } := AccInv.frame (s := { s0 with wq := q }) ⟨rfl, rfl⟩ h1
            exact ih _ (acceptAll_good ok (h1'.frame (registerAllFrom_frame _ _)))
          · exact ih _ h1
        | stop =>
          have g1 : Good cfg { s0 with wq := q } := goodC_popCmd h0.good _ q hcwq (by intro k hk; cases hk)
          have h1 : AccInv cfg { s0 with wq := q } := ⟨g1, h0.pend, h0.sched⟩
          simp only
          split
          · exact h1.frame (Frame.trans (deregisterAllFrom_frame _ _) (cleanupAll_frame _))
          · exact h1.frame (cleanupAll_frame _)


theorem pollEvents_good {cfg} (ok : CfgOk cfg) : ∀ (order : List Ev) (s : St), AccInv cfg s →
    AccInv cfg (pollEvents cfg s order).1 := by
  intro order
  induction order with
  | nil => intro s h; exact h
  | cons e es ih =>
    intro s h
    simp only [pollEvents]
    cases e with
    | waker =>
      simp only
      have hw := handleWaker_good ok (wakerFuel s) s h
      cases hhw : handleWaker cfg (wakerFuel s) s with
      | mk s1 ex =>
        rw [hhw] at hw
        simp only at hw ⊢
        split
        · exact hw
        · exact ih _ hw
    | listener l => exact ih _ (accept_good ok _ s l h)

/-- the invariant between the operations of the stepped system -/
def Inv (cfg : Cfg) (s : St) : Prop := Good cfg s ∧ s.pend = none

/-- no worker dies in this operation -/
def Op.faultFree : Op → Prop
  | .env a => a.isDie = false
  | .poll _ sched => ∀ ch ∈ sched, NoDie ch
  | .finishW2 _ _ _ => True

theorem poll_inv {cfg} (ok : CfgOk cfg) {s} (h : Inv cfg s) (order : List Ev) (sched : List (List EnvAct))
    (hs : ∀ ch ∈ sched, NoDie ch) : Inv cfg (poll cfg s order sched) := by
  unfold poll
  split
  · exact h
  · have h0 : AccInv cfg (clearEdges { s with sched := sched, yields := 0 }) :=
      ⟨good_of_core_eq rfl h.1, h.2, hs⟩
    have h1 := pollEvents_good ok order _ h0
    unfold pollFinish
    split
    · exact ⟨good_of_core_eq rfl h1.good, h1.pend⟩
    · have h2 := h1.frame (processTimeout_frame _)
      exact ⟨good_of_core_eq rfl h2.good, h2.pend⟩

theorem env_inv {cfg} {s} (h : Inv cfg s) (as : List EnvAct) (hn : NoDie as) : Inv cfg (runEnv cfg s as) := by
  obtain ⟨g, l, _⟩ := runEnv_good cfg as s h.1 hn
  exact ⟨g, by rw [l.1]; exact h.2⟩

theorem step_inv {cfg} (ok : CfgOk cfg) {s} (h : Inv cfg s) (op : Op) (hf : op.faultFree) : Inv cfg (step cfg s op) := by
  cases op with
  | env a => exact env_inv h [a] (by intro b hb; simp at hb; subst hb; exact hf)
  | poll order sched => exact poll_inv ok h order sched hf
  | finishW2 w c order =>
    simp only [step]
    obtain ⟨g1, l1⟩ := envStep_good cfg s (.finish w c) h.1 rfl
    have h1 : Inv cfg { (envStep cfg s (.finish w c)).1 with acts := (envStep cfg s (.finish w c)).1.acts ++ [(envStep cfg s (.finish w c)).2] } :=
      ⟨good_of_core_eq rfl g1, by show (envStep cfg s (.finish w c)).1.pend = none; rw [l1.1]; exact h.2⟩
    split
    · exact env_inv (poll_inv ok h1 order [] (by intro ch hch; simp at hch)) [.push w] (by intro b hb; simp at hb; subst hb; rfl)
    · exact h1

theorem run_inv {cfg} (ok : CfgOk cfg) : ∀ (ops : List Op) (s : St), Inv cfg s → (∀ op ∈ ops, op.faultFree) →
    Inv cfg (run cfg s ops) := by
  intro ops
  induction ops with
  | nil => intro s h _; exact h
  | cons op ops ih =>
    intro s h hf
    simp only [run]
    exact ih _ (step_inv ok h op (hf op List.mem_cons_self)) (fun o ho => hf o (List.mem_cons_of_mem _ ho))

theorem init_inv (cfg : Cfg) (ok : CfgOk cfg) (kinds : List Kind) : Inv cfg (init cfg kinds) :=
  ⟨init_good cfg ok kinds, rfl⟩


end ActixNet.Srv
