import ActixNet.Generated.Src
/-!
# Model: `ServerInner::run` / `handle_cmd`, `ServerHandle` and `map_signal` (actix-server/src/server.rs, handle.rs)

The server future is a sequential process over the command channel: `run` takes the commands in
channel order and hands each to `handle_cmd`; after a `Stop` has been handled (`stopping`) the loop
ends, `run` returns `Ok(())` (the `Server` future resolves) and everything it owns is dropped — in
particular the receiving end of the command channel with every command still in it, so the one-shot
ack sender inside each of them is dropped and the future that waits for it resolves as well.

`handle_cmd(Stop)` blocks at two kinds of points: `join_all(workers_stop).await` (only if graceful;
released when every worker's reply receiver resolves — by a reply or because the worker dropped the
sender) and `accept_handle.join()` (released when the accept thread, which has been sent
`WakerInterest::Stop`, returns).  In this sequential model a blocking point is an event
(`awaitWorker w`, `joinAccept`); that each is eventually released is what `Model/Worker.lean`
(every `Stop` is answered or dropped, and the tick loop is bounded) and C08 (the accept thread
never spins or dies) provide.
-/
namespace ActixNet.ServerCmd
open ActixNet

inductive Interest where | pause | resume | stop | worker (idx : Nat)
deriving DecidableEq, Repr

/-- `ServerCommand` (the ack channel is identified by a number; `force_system_stop` is not modelled) -/
inductive Cmd where
  | pause (ack : Nat)
  | resume (ack : Nat)
  | stop (graceful : Bool) (completion : Option Nat)
  | workerFaulted (idx : Nat)
deriving DecidableEq, Repr

inductive Ev where
  | wake (i : Interest)               -- `waker_queue.wake(i)`
  | ack (a : Nat)                     -- `tx.send(())` on ack channel `a`
  | ackDropped (a : Nat)              -- the sender of ack channel `a` was dropped unsent: the waiting future resolves too
  | stopWorker (w : Nat) (g : Bool)   -- `worker.stop(graceful)`
  | awaitWorker (w : Nat)             -- `join_all`: worker `w`'s reply receiver resolved
  | joinAccept                        -- the accept thread was joined (it has exited)
  | restartWorker (idx : Nat)
  | restartFailed (idx : Nat)         -- `ServerWorker::start` failed: `error!("can not restart worker ..")`, nothing else
  | returned                          -- `ServerInner::run` returned `Ok(())`: the `Server` future resolves
deriving DecidableEq, Repr

structure St where
  workers : List Nat                  -- indices of `worker_handles`
  wakeFirst : Bool := true            -- order of the first two steps of `handle_cmd(Stop)`
  stopping : Bool := false
  returned : Bool := false
  panicked : Bool := false            -- `assert!(worker_handles.iter().any(..))` failed
  restarts : Nat := 0                 -- restarts attempted so far
  failAt : Option Nat := none         -- the environment: the restart attempt with this number fails (the factory cannot make the services)
  log : List Ev := []
deriving Repr

def emit (s : St) (es : List Ev) : St := { s with log := s.log ++ es }

def ackEv : Option Nat → List Ev
  | some a => [.ack a]
  | none => []

/-- the events of `handle_cmd(Stop { graceful, completion })`, in program order (server.rs:242-281).
`wakeFirst`: the accept thread is told to stop before (`true`, the order in the tree) or after the
workers are; C06 does not depend on that order (the worker itself must not take the accept thread's
exit for a stop command, finding F8 — see `Worker.closedArm`), so every theorem holds for both. -/
def stopEvs (wakeFirst : Bool) (workers : List Nat) (graceful : Bool) (completion : Option Nat) : List Ev :=
  (if wakeFirst then [.wake .stop] ++ workers.map (.stopWorker · graceful) else workers.map (.stopWorker · graceful) ++ [.wake .stop]) ++
    (if graceful then workers.map .awaitWorker else []) ++ [.joinAccept] ++ ackEv completion

/-- the order in the source, read by T1 (`srv_handle_stop_order`) -/
def srcWakeFirst : Bool := decide (Src.hcStopOrder.idxOf "wake_stop" < Src.hcStopOrder.idxOf "stop_workers")

/-- `handle_cmd` -/
def handle (s : St) : Cmd → St
  | .pause a => emit s [.wake .pause, .ack a]
  | .resume a => emit s [.wake .resume, .ack a]
  | .stop g comp => { (emit s (stopEvs s.wakeFirst s.workers g comp)) with stopping := true }
  | .workerFaulted idx =>
    if idx ∈ s.workers then
      -- a restart that fails is logged and leaves the server as it is: the loop goes on, later faults are still handled
      { (emit s (if s.failAt = some s.restarts then [.restartFailed idx] else [.restartWorker idx, .wake (.worker idx)])) with restarts := s.restarts + 1 }
    else { s with panicked := true }

/-- the ack channel inside a command -/
def Cmd.ack? : Cmd → Option Nat
  | .pause a => some a
  | .resume a => some a
  | .stop _ c => c
  | .workerFaulted _ => none

/-- dropping the command channel with `cs` still in it -/
def droppedAcks (cs : List Cmd) : List Ev := cs.filterMap fun c => c.ack?.map .ackDropped

/-- `ServerInner::run` over the commands in the channel, in order.  An empty channel whose senders
are alive makes the loop wait (nothing happens, `returned` stays false). -/
def runLoop (s : St) : List Cmd → St
  | [] => s
  | c :: cs =>
    if (handle s c).panicked then handle s c
    else if (handle s c).stopping then { (emit (handle s c) (droppedAcks cs ++ [.returned])) with returned := true }
    else runLoop (handle s c) cs

/-- `ServerInner::map_signal` (the `graceful` flag comes from the source through T1) -/
def cmdOfSignal (sig : Src.Signal) : Cmd := .stop (Src.mapSignalGraceful sig) none

/-! ### the handle: commands are sent when the method is *called* (handle.rs:25-55) -/

inductive Call where
  | pause | resume
  | stop (graceful : Bool)
  | signal (sig : Src.Signal)
  | faulted (idx : Nat)
deriving DecidableEq, Repr

structure Sys where
  cmds : List Cmd := []     -- the command channel
  nextAck : Nat := 0

/-- calling a `ServerHandle` method / a signal arriving: the command is in the channel when the call returns;
the returned future (ack number) only waits for the ack -/
def call (y : Sys) : Call → Sys × Option Nat
  | .pause => ({ cmds := y.cmds ++ [.pause y.nextAck], nextAck := y.nextAck + 1 }, some y.nextAck)
  | .resume => ({ cmds := y.cmds ++ [.resume y.nextAck], nextAck := y.nextAck + 1 }, some y.nextAck)
  | .stop g => ({ cmds := y.cmds ++ [.stop g (some y.nextAck)], nextAck := y.nextAck + 1 }, some y.nextAck)
  | .signal sig => ({ y with cmds := y.cmds ++ [cmdOfSignal sig] }, none)
  | .faulted idx => ({ y with cmds := y.cmds ++ [.workerFaulted idx] }, none)

def calls (y : Sys) : List Call → Sys
  | [] => y
  | c :: cs => calls (call y c).1 cs

/-- a `ServerHandle` call made after `run` has returned: the receiving end of the command channel is gone, `send` fails
and hands the command back, and the handle drops it on the spot (`let _ = self.cmd_tx.send(..)`) — the ack sender inside
it included, so the future the call returns resolves at once.  The events of such a call: -/
def lateCall (y : Sys) (c : Call) : List Ev := droppedAcks ((call y c).1.cmds.drop y.cmds.length)

/-- a server with workers `0..n-1`, after the calls `cs` were made, run to quiescence -/
def serve (wakeFirst : Bool) (n : Nat) (cs : List Call) : St :=
  runLoop { workers := List.range n, wakeFirst := wakeFirst } (calls {} cs).cmds

/-- … in an environment in which restart attempt number `k` fails -/
def serveFailing (wakeFirst : Bool) (n : Nat) (k : Nat) (cs : List Call) : St :=
  runLoop { workers := List.range n, wakeFirst := wakeFirst, failAt := some k } (calls {} cs).cmds

end ActixNet.ServerCmd
