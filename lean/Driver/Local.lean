import ActixNet.Model.Chan
import Driver.Util
/-!
Engine `local`: line protocol for C17 (`Counter`, `LocalWaker`) and C16 (`local_channel::mpsc`).

```
case <name> counter <cap>     acquire h | drop g | avail h w | clone h | total h
case <name> lw                reg w | wake | take
case <name> chan              send i x | clone i | dropS i | close i | poll w | rsender | dropR
```
Every answer ends in ` woke=<ids>`: the counting wakers (ids `0..3`) woken by this operation, `-` if
none.  Operations that do not apply (unknown handle / guard / sender, waker id ≥ 4, receiver already
dropped, wrong engine) answer `bad-op` and leave the state unchanged.
-/
namespace Driver.Local
open Driver ActixNet

inductive State where
  | idle
  | counter (s : Counter.Sys)
  | lw (l : LocalWaker)
  | chan (c : Chan.Chan)

def init : State := .idle

def nWakers : Nat := 4

def wokeStr : Option WakerId → String
  | none => " woke=-"
  | some w => s!" woke={w}"

def optStr : Option Nat → String
  | none => "-"
  | some w => toString w

def b01 (b : Bool) : String := if b then "1" else "0"

def counterObs : Counter.Obs → String
  | .guard id => s!"guard {id}" ++ wokeStr none
  | .dropped w => "dropped" ++ wokeStr w
  | .avail b => s!"avail {b01 b}" ++ wokeStr none
  | .handle id => s!"handle {id}" ++ wokeStr none
  | .total n => s!"total {n}" ++ wokeStr none

def lwObs : LocalWaker.Obs → String
  | .registered b => s!"registered {b01 b}" ++ wokeStr none
  | .woke w => "done" ++ wokeStr w
  | .took w => s!"took {optStr w}" ++ wokeStr none

def chanObs : Chan.Obs → String
  | .sent true w => "ok" ++ wokeStr w
  | .sent false w => "err" ++ wokeStr w
  | .sender id => s!"sender {id}" ++ wokeStr none
  | .senderDropped w => "dropped" ++ wokeStr w
  | .closed w => "closed" ++ wokeStr w
  | .polled (.ready (some x)) => s!"ready {x}" ++ wokeStr none
  | .polled (.ready none) => "ready none" ++ wokeStr none
  | .polled .pending => "pending" ++ wokeStr none
  | .receiverDropped => "dropped" ++ wokeStr none

/-- strict decimal (the harness uses the same rule): 1..9 ASCII digits -/
def num (s : String) : Option Nat :=
  if s.length = 0 ∨ s.length > 9 ∨ !s.all Char.isDigit then none else s.toNat?

def counterOp : List String → Option Counter.Op
  | ["acquire", h] => (num h).map .acquire
  | ["drop", g] => (num g).map .drop
  | ["avail", h, w] => match num h, num w with
    | some h, some w => if w < nWakers then some (.available h w) else none
    | _, _ => none
  | ["clone", h] => (num h).map .clone
  | ["total", h] => (num h).map .total
  | _ => none

def lwOp : List String → Option LocalWaker.Op
  | ["reg", w] => match num w with
    | some w => if w < nWakers then some (.register w) else none
    | none => none
  | ["wake"] => some .wake
  | ["take"] => some .take
  | _ => none

def chanOp : List String → Option Chan.Op
  | ["send", i, x] => match num i, num x with
    | some i, some x => some (.send i x)
    | _, _ => none
  | ["clone", i] => (num i).map .clone
  | ["dropS", i] => (num i).map .dropSender
  | ["close", i] => (num i).map .close
  | ["poll", w] => match num w with
    | some w => if w < nWakers then some (.poll w) else none
    | none => none
  | ["rsender"] => some .senderFromReceiver
  | ["dropR"] => some .dropReceiver
  | _ => none

def step (st : State) (line : String) : State × String :=
  match words line with
  | ["case", _, "counter", cap] => match num cap with
    | some cap => (.counter (Counter.init cap), "ok")
    | none => (.idle, "bad-op")
  | ["case", _, "lw"] => (.lw {}, "ok")
  | ["case", _, "chan"] => (.chan Chan.init, "ok")
  | "case" :: _ => (.idle, "bad-op")
  | ws =>
    match st with
    | .idle => (st, "bad-op")
    | .counter s => match counterOp ws with
      | none => (st, "bad-op")
      | some op => match Counter.step s op with
        | none => (st, "bad-op")
        | some (s', o) => (.counter s', counterObs o)
    | .lw l => match lwOp ws with
      | none => (st, "bad-op")
      | some op => (.lw (LocalWaker.step l op).1, lwObs (LocalWaker.step l op).2)
    | .chan c => match chanOp ws with
      | none => (st, "bad-op")
      | some op => match Chan.step c op with
        | none => (st, "bad-op")
        | some (c', o) => (.chan c', chanObs o)

end Driver.Local
