import ActixNet.Lemmas.SrvWake
import ActixNet.Lemmas.SrvFuel
import ActixNet.Lemmas.SrvProgress
import ActixNet.Lemmas.SrvLive
import ActixNet.Lemmas.SrvProgressF
import ActixNet.Lemmas.CounterRace
/-!
# C03 — back-pressure releases: spare worker capacity is always used (no lost wake-up)

Stated as safety over `ActixNet.Srv` (all schedules at every yield point, all limits ≥ 1 including
1, any number of workers; counter kernels regenerated from worker.rs):

* a worker is marked unavailable **only** while it really has `limit` connections in progress or
  while a wake-up for it is already on its way (`unavailable_only_if_saturated_or_wake_pending`);
* the release that takes a saturated worker below its limit always creates that wake-up
  (`saturated_release_creates_wakeup`, `release_of_saturated_worker_wakes`);
* the accept thread consumes a wake-up by marking the worker available and immediately running
  the accept loop on every listener (`wakeup_reopens`), and an accept loop only ever stops because
  no worker is available, the listener has nothing queued, or the listener entered its back-off
  (`accept_loop_stops_only_when_drained_or_saturated`).
-/
namespace ActixNet.C03
open ActixNet ActixNet.Srv

def inProgress (s : St) (w : Nat) : Nat := (s.wk w).queue.length + (s.wk w).inflight.length

/-- kernel level: the release that takes a saturated worker (raw counter `L + 1` = `L` connections
in progress) below its limit is reported as "crossed", and no other release is.  Every limit. -/
theorem release_of_saturated_worker_wakes (L old : Nat) (h : 1 ≤ old) :
    Src.wcDecCrossed old L = true ↔ old = L + 1 :=
  SrvKernels.decCrossed_iff old L h

/-- In every reachable state of a fault-free history: if worker `w` is marked unavailable and no
wake-up for it exists anywhere (neither queued nor about to be pushed), then it has exactly `limit`
connections in progress — it is really saturated.  Contrapositive: a worker with spare capacity is
available or has a wake-up pending; availability is never lost. -/
theorem unavailable_only_if_saturated_or_wake_pending (cfg : Cfg) (ok : CfgOk cfg) (kinds : List Kind)
    (ops : List Op) (hf : ∀ op ∈ ops, op.faultFree) (w : Nat) (hw : w < cfg.nIdx)
    (hav : (run cfg (init cfg kinds) ops).avail w = false)
    (htok : tokOf (run cfg (init cfg kinds) ops).wk (run cfg (init cfg kinds) ops).wq w = 0) :
    inProgress (run cfg (init cfg kinds) ops) w = cfg.limit := by
  have h := run_inv ok ops _ (init_inv cfg ok kinds) hf
  have gw := h.1.2 w hw
  have hp : (core (run cfg (init cfg kinds) ops)).pend = none := h.2
  simp only [GoodWC, hp, pendIs_none] at gw
  unfold GW at gw
  have h1 := gw.1
  have h5 := gw.2.2.2.2.1 hav htok
  simp only [inProgress, qOf, core, Bool.false_eq_true, ↓reduceIte] at *
  omega

/-- at most one wake-up per worker is outstanding, and only for a worker marked unavailable that has
spare capacity again — wake-ups are neither duplicated nor spurious -/
theorem wakeup_unique_and_justified (cfg : Cfg) (ok : CfgOk cfg) (kinds : List Kind)
    (ops : List Op) (hf : ∀ op ∈ ops, op.faultFree) (w : Nat) (hw : w < cfg.nIdx)
    (htok : 0 < tokOf (run cfg (init cfg kinds) ops).wk (run cfg (init cfg kinds) ops).wq w) :
    tokOf (run cfg (init cfg kinds) ops).wk (run cfg (init cfg kinds) ops).wq w = 1 ∧
    (run cfg (init cfg kinds) ops).avail w = false ∧ inProgress (run cfg (init cfg kinds) ops) w < cfg.limit := by
  have h := run_inv ok ops _ (init_inv cfg ok kinds) hf
  have gw := h.1.2 w hw
  have hp : (core (run cfg (init cfg kinds) ops)).pend = none := h.2
  simp only [GoodWC, hp, pendIs_none] at gw
  unfold GW at gw
  have h1 := gw.1
  have h4 := gw.2.2.2.1 htok
  simp only [inProgress, qOf, core, Bool.false_eq_true, ↓reduceIte] at *
  refine ⟨by omega, h4.1, by omega⟩

/-- In a good state, finishing a connection of a saturated, unavailable worker always queues its
wake-up (`WorkerAvailable`): the release is never silent.  (`finishNow` = guard drop: `dec`, then
the push.) -/
theorem saturated_release_creates_wakeup (cfg : Cfg) (s : St) (g : Good cfg s) (w : Nat) (hw : w < cfg.nIdx)
    (hsat : inProgress s w = cfg.limit) (hav : s.avail w = false) (cid : Option Nat) (c : Conn)
    (hc : pickInflight (s.wk w) cid = some c) :
    (envStep cfg s (.finishNow w cid)).2 = .dec true ∧
    (envStep cfg s (.finishNow w cid)).1.wq = s.wq ++ [.workerAvail w] := by
  have gw := g.2 w hw
  have hidx : (s.wk w).idx = w := g.1.idx w
  have hnwk : w < s.nWk := by have := g.1.nwk; simp only [core] at this; omega
  simp only [GoodWC, core] at gw
  unfold GW at gw
  have hp : pendIs s.pend w = false := by
    cases hpp : pendIs s.pend w with
    | false => rfl
    | true => have := (gw.2.2.1 hpp).2; rw [hav] at this; cases this
  have h1 := gw.1
  simp only [hp, Bool.false_eq_true, ↓reduceIte, inProgress, qOf] at h1 hsat
  have hcr : Src.wcDecCrossed (s.wk w).c cfg.limit = true :=
    (SrvKernels.decCrossed_iff _ _ (by omega)).mpr (by omega)
  simp [envStep, hnwk, hc, hcr, pushWq, hidx]

/-- consuming a wake-up: the accept thread marks the worker available and, unless paused, at once
runs the accept loop over every listener -/
theorem wakeup_reopens (cfg : Cfg) (fuel : Nat) (s : St) (w : Nat) (q : List Interest)
    (hnf : s.fault = none) (hq : (yieldPt cfg s).wq = .workerAvail w :: q)
    (hh : hasHandleIdx { yieldPt cfg s with wq := q } w = true) :
    handleWaker cfg (fuel + 1) s =
      handleWaker cfg fuel
        (if !(yieldPt cfg s).paused then acceptAll cfg (setAvail { yieldPt cfg s with wq := q } w true)
         else setAvail { yieldPt cfg s with wq := q } w true) := by
  have hp : (setAvail { yieldPt cfg s with wq := q } w true).paused = (yieldPt cfg s).paused := by
    unfold setAvail; split <;> rfl
  simp only [handleWaker, hnf, Option.isSome_none, Bool.false_eq_true, ↓reduceIte, hq, wakePrim, hh, hp]

/-- the accept loop on a listener stops only because no worker is available any more, or the
listener has nothing left to accept, or the listener entered its accept-error back-off — it never
leaves a connection waiting while a worker is available (unless it faults, which C08 excludes) -/
theorem accept_loop_stops_only_when_drained_or_saturated (cfg : Cfg) :
    ∀ (fuel : Nat) (s : St) (l : Nat), (accept cfg fuel s l).fault = none →
      anyAvail cfg (accept cfg fuel s l) = false ∨
      (((accept cfg fuel s l).lst l).backlog = [] ∧ ((accept cfg fuel s l).lst l).inject = []) ∨
      ((accept cfg fuel s l).lst l).deadline.isSome = true ∨
      (accept cfg fuel s l).spuriousWB = true := by
  intro fuel
  induction fuel with
  | zero => intro s l h; simp [accept] at h
  | succ fuel ih =>
    intro s l
    simp only [accept]
    split
    · rename_i hf; intro h; simp [h] at hf
    · split
      · rename_i hany; intro _; left; simpa using hany
      · cases hsys : acceptSys (yieldPt cfg s) l with
        | mk s1 r =>
          cases r with
          | conn c => exact ih _ l
          | connErr => exact ih _ l
          | wouldBlock =>
            intro _
            -- `accept()` reported WouldBlock: nothing queued, no injected error left …
            simp only [acceptSys] at hsys
            split at hsys
            · rename_i e es hinj
              cases e with
              | kind k =>
                simp only at hsys
                split at hsys
                · -- … except for an injected WouldBlock (a fault the kernel never produces)
                  right; right; right
                  cases hsys; rfl
                · split at hsys <;> cases hsys
              | emfile => cases hsys
            · rename_i hinj
              right; left
              split at hsys
              · rename_i hb; cases hsys; exact ⟨hb, hinj⟩
              · cases hsys
          | otherErr =>
            intro _
            right; right; left
            simp only [setTimeout]
            split
            · split <;> simp [deregister, upd]
            · simp [deregister, upd]


/-- **C03, end to end**: in every reachable state of a fault-free history (all schedules at every
yield point, every limit ≥ 1, 1..512 workers) that is at an iteration boundary and not stopped (the
accept thread cannot have failed: `run_fault_none`): if some worker has spare capacity and no wake-up for it is still in flight, then every
listener that is in the poll set and not backing off has **nothing waiting unless a readiness event
for it is pending** (which the next iteration consumes by accepting from it).  So a waiting
connection is never stranded behind the accept thread's availability bookkeeping; while paused
(`C05.paused_means_every_listener_deregistered`) or during back-off the listener is out of the poll
set by design.  Assumption `OpsOk`: each `poll` is given at least the listeners epoll reports ready. -/
theorem no_lost_wakeup (cfg : Cfg) (ok : CfgOk cfg) (kinds : List Kind) (ops : List Op)
    (hf : ∀ op ∈ ops, op.faultFree) (ho : OpsOk cfg (init cfg kinds) ops)
    (hwb : (run cfg (init cfg kinds) ops).spuriousWB = false)
    (hne : (run cfg (init cfg kinds) ops).exited = false)
    (w : Nat) (hw : w < cfg.nIdx) (hspare : inProgress (run cfg (init cfg kinds) ops) w < cfg.limit)
    (htok : tokOf (run cfg (init cfg kinds) ops).wk (run cfg (init cfg kinds) ops).wq w = 0)
    (l : Nat) (hl : l < (run cfg (init cfg kinds) ops).nLst)
    (hreg : ((run cfg (init cfg kinds) ops).lst l).registered = true)
    (hdl : ((run cfg (init cfg kinds) ops).lst l).deadline = none)
    (hedge : ((run cfg (init cfg kinds) ops).lst l).edge = false) :
    ((run cfg (init cfg kinds) ops).lst l).backlog = [] := by
  -- the worker with spare capacity is marked available …
  have hav : (run cfg (init cfg kinds) ops).avail w = true := by
    cases hav : (run cfg (init cfg kinds) ops).avail w with
    | true => rfl
    | false =>
      have := unavailable_only_if_saturated_or_wake_pending cfg ok kinds ops hf w hw hav htok
      omega
  have hany : anyAvail cfg (run cfg (init cfg kinds) ops) = true := by
    unfold anyAvail; exact List.any_eq_true.mpr ⟨w, List.mem_range.mpr hw, hav⟩
  -- … so no registered, event-less, non-backing-off listener can have anything waiting
  have hj := (run_JInv cfg ops _ (init_JInv cfg kinds) ho).j (run_fault_none ok kinds ops) hwb hne
  cases hb : ((run cfg (init cfg kinds) ops).lst l).backlog with
  | nil => rfl
  | cons c b =>
    rcases hj l hl ⟨hreg, hedge, by rw [hb]; simp, hdl⟩ with h | h
    · rw [hany] at h; cases h
    · cases h

/-- **C03 with worker deaths** ("… some *live* worker has fewer than `max_concurrent_connections`
connections in progress …").  In every reachable state of EVERY history — workers may die idle, loaded or
saturated at any yield point, their connections may finish later, the server may start replacements, late
notifications of dead workers may arrive at any time — at an iteration boundary and not stopped: if a live
worker incarnation `w` that is in the rotation has spare capacity and no wake-up for its index is in flight
(neither about to be pushed by `w` nor queued), then its availability bit is set, hence every listener that
is in the poll set and not backing off has nothing waiting unless a readiness event for it is pending.
Uses the one-sided invariant `Live` (Lemmas/SrvLive.lean), which — unlike the exact invariant `Good` —
survives worker deaths. -/
theorem no_lost_wakeup_with_faults (cfg : Cfg) (ok : CfgOk cfg) (kinds : List Kind) (ops : List Op)
    (ho : OpsOk cfg (init cfg kinds) ops)
    (hwb : (run cfg (init cfg kinds) ops).spuriousWB = false)
    (hne : (run cfg (init cfg kinds) ops).exited = false)
    (w : Nat) (hw : w < (run cfg (init cfg kinds) ops).nWk)
    (hal : ((run cfg (init cfg kinds) ops).wk w).alive = true)
    (hh : w ∈ (run cfg (init cfg kinds) ops).handles)
    (hspare : inProgress (run cfg (init cfg kinds) ops) w < cfg.limit)
    (htokp : ((run cfg (init cfg kinds) ops).wk w).tokp = 0)
    (hcnt : (run cfg (init cfg kinds) ops).wq.count (.workerAvail ((run cfg (init cfg kinds) ops).wk w).idx) = 0)
    (l : Nat) (hl : l < (run cfg (init cfg kinds) ops).nLst)
    (hreg : ((run cfg (init cfg kinds) ops).lst l).registered = true)
    (hdl : ((run cfg (init cfg kinds) ops).lst l).deadline = none)
    (hedge : ((run cfg (init cfg kinds) ops).lst l).edge = false) :
    (run cfg (init cfg kinds) ops).avail ((run cfg (init cfg kinds) ops).wk w).idx = true ∧
    ((run cfg (init cfg kinds) ops).lst l).backlog = [] := by
  have inv := run_nlp ok ops _ (init_nlp cfg kinds)
  generalize hS : run cfg (init cfg kinds) ops = S at *
  -- the live worker with spare capacity is marked available …
  have hav : S.avail (S.wk w).idx = true := by
    cases hav : S.avail (S.wk w).idx with
    | true => rfl
    | false =>
      have lw := inv.live.lw w hw hal
      simp only [LiveW, LWn, core, inv.pn, pendIs_none] at lw
      have := lw.2 hh hav htokp hcnt
      have h1 := lw.1
      simp only [inProgress, qOf] at hspare h1
      simp at h1
      omega
  refine ⟨hav, ?_⟩
  have hidx : (S.wk w).idx < cfg.nIdx := inv.np.sound.idxlt w hw
  have hany : anyAvail cfg S = true := by
    unfold anyAvail; exact List.any_eq_true.mpr ⟨_, List.mem_range.mpr hidx, hav⟩
  -- … so no registered, event-less, non-backing-off listener can have anything waiting
  have hj := (run_JInv cfg ops _ (init_JInv cfg kinds) ho).j (run_fault_none ok kinds ops)
  rw [hS] at hj
  have hj := hj hwb hne
  cases hb : (S.lst l).backlog with
  | nil => rfl
  | cons c b =>
    rcases hj l hl ⟨hreg, hedge, by rw [hb]; simp, hdl⟩ with h | h
    · rw [hany] at h; cases h
    · cases h

/-- **Progress**: in every reachable state of a fault-free history in which some worker is marked
available, the connection waiting first on listener `l` is dispatched by the next `accept` on `l`
(which is what the pending readiness event of `no_lost_wakeup` triggers) — with any fuel ≥ 1, and
whatever `accept` goes on to do afterwards.  Together with `no_lost_wakeup` (a waiting connection
always has such an event pending while a worker has spare capacity): spare capacity is used. -/
theorem waiting_connection_is_dispatched (cfg : Cfg) (ok : CfgOk cfg) (kinds : List Kind) (ops : List Op)
    (hf : ∀ op ∈ ops, op.faultFree) (fuel l : Nat) (c : Conn) (b : List Conn)
    (hany : anyAvail cfg (run cfg (init cfg kinds) ops) = true)
    (hi : ((run cfg (init cfg kinds) ops).lst l).inject = [])
    (hb : ((run cfg (init cfg kinds) ops).lst l).backlog = c :: b) :
    ∃ w, (c, w) ∈ (accept cfg (fuel + 1) (run cfg (init cfg kinds) ops) l).dispatched :=
  reachable_accept_dispatches_waiting ok kinds ops hf fuel l c b hany hi hb

/-- **Progress with worker deaths**: in every reachable state of EVERY history (workers may have died at any
point, late notifications, replacements) in which some availability bit is set, the connection waiting
first on listener `l` is — by the next `accept` on `l`, with any fuel ≥ 1, when no other thread interferes
at its yield points — dispatched to a worker, or dropped because not a single worker handle was left
(every worker dead and discovered: the only way the accept thread gives a connection up).  With
`no_lost_wakeup_with_faults` this is the property's "eventually dispatched" for histories with faults. -/
theorem waiting_connection_is_dispatched_with_faults (cfg : Cfg) (ok : CfgOk cfg) (kinds : List Kind) (ops : List Op)
    (fuel l : Nat) (c : Conn) (b : List Conn)
    (hany : anyAvail cfg (run cfg (init cfg kinds) ops) = true)
    (hi : ((run cfg (init cfg kinds) ops).lst l).inject = [])
    (hb : ((run cfg (init cfg kinds) ops).lst l).backlog = c :: b) :
    (∃ w, (c, w) ∈ (accept cfg (fuel + 1) (run cfg (init cfg kinds) ops) l).dispatched) ∨
      c ∈ (accept cfg (fuel + 1) (run cfg (init cfg kinds) ops) l).dropped :=
  reachable_accept_places_waiting ok kinds ops fuel l c b hany hi hb

/-- … and nothing that was dispatched is ever un-dispatched by `accept` -/
theorem dispatch_log_only_grows (cfg : Cfg) (fuel : Nat) (s : St) (l : Nat) :
    ∃ r, (accept cfg fuel s l).dispatched = s.dispatched ++ r := accept_ext cfg fuel s l

/-! ### Non-vacuity of `no_lost_wakeup`: a saturating history with limit 1 -/
def demoCfg : Cfg := { limit := 1, nIdx := 1 }
def demoOps : List Op :=
  [.env (.connect 0), .env (.connect 0), .poll [.listener 0, .waker] [],
   .env (.recv 0), .env (.finishNow 0 none), .poll [.waker] []]
example : CfgOk demoCfg := ⟨by decide, by decide, by decide⟩
-- second connection is dispatched by the iteration that consumes the wake-up (limit 1!)
example : (run demoCfg (init demoCfg [.tcp]) demoOps).dispatched.length = 2 ∧
    (run demoCfg (init demoCfg [.tcp]) demoOps).fault = none := by decide
-- the hypotheses of `waiting_connection_is_dispatched` on a real history: one worker free, one connection waiting
example : anyAvail demoCfg (run demoCfg (init demoCfg [.tcp]) [.env (.connect 0)]) = true ∧
    ((run demoCfg (init demoCfg [.tcp]) [.env (.connect 0)]).lst 0).backlog = [(0, 0)] ∧
    (accept demoCfg 3 (run demoCfg (init demoCfg [.tcp]) [.env (.connect 0)]) 0).dispatched = [((0, 0), 0)] := by decide
example : OpsOk demoCfg (init demoCfg [.tcp]) demoOps := by
  simp only [OpsOk, demoOps, and_true, true_and]
  refine ⟨?_, ?_⟩ <;> (unfold OrderOk; decide)

/-! ### Non-vacuity of `no_lost_wakeup_with_faults`: worker 0 dies with a connection in progress and is never
discovered (its bit was already clear); worker 1 goes on serving: saturated → released → the waiting
connection is dispatched to it → released again.  All hypotheses hold in the final state. -/
def faultCfg : Cfg := { limit := 1, nIdx := 2 }
def faultOps : List Op :=
  [.env (.connect 0), .env (.connect 0), .poll [.listener 0, .waker] [],
   .env (.recv 0), .env (.recv 1), .env (.die 0), .env (.connect 0),
   .poll [.listener 0, .waker] [], .env (.finishNow 1 none), .poll [.waker] [],
   .env (.recv 1), .env (.finishNow 1 none), .poll [.waker] []]
example : let S := run faultCfg (init faultCfg [.tcp]) faultOps
    S.spuriousWB = false ∧ S.exited = false ∧ 1 < S.nWk ∧ (S.wk 1).alive = true ∧ 1 ∈ S.handles ∧
    inProgress S 1 < faultCfg.limit ∧ (S.wk 1).tokp = 0 ∧ S.wq.count (.workerAvail (S.wk 1).idx) = 0 ∧
    0 < S.nLst ∧ (S.lst 0).registered = true ∧ (S.lst 0).deadline = none ∧ (S.lst 0).edge = false ∧
    (S.wk 0).alive = false ∧ 0 ∈ S.handles ∧ S.dispatched.length = 3 := by decide
-- while both were saturated (worker 0 dead, worker 1 busy) the third connection waited
example : ((run faultCfg (init faultCfg [.tcp]) (faultOps.take 8)).lst 0).backlog.length = 1 := by decide
-- hypotheses of `waiting_connection_is_dispatched_with_faults` in a state with a dead, undiscovered worker:
-- worker 1 has just been marked available again, worker 0 (dead) still has its handle, a connection arrives
example : let S := run faultCfg (init faultCfg [.tcp]) (faultOps ++ [.env (.connect 0)])
    anyAvail faultCfg S = true ∧ (S.lst 0).inject = [] ∧ (S.lst 0).backlog = [(3, 0)] ∧ (S.wk 0).alive = false ∧
    (accept faultCfg 3 S 0).dispatched.getLast? = some ((3, 0), 1) := by decide
example : OpsOk faultCfg (init faultCfg [.tcp]) faultOps := by
  simp only [OpsOk, faultOps, and_true, true_and]
  refine ⟨?_, ?_, ?_, ?_⟩ <;> (unfold OrderOk; decide)


/-- The accept thread's increments and the worker threads' decrements of one worker's counter are concurrent in the
    real server.  Each is one atomic read-modify-write (T1), so an execution is an interleaving of whole steps; for
    EVERY interleaving with as many decrements as increments the counter returns to its value: no update is lost,
    which is what lets the sequential model of this file stand for the threaded code.  The engine's `k-race` op runs
    the two real threads against each other (seed11 C03-22 made `inc` a load / store pair). -/
theorem concurrent_counter_updates_not_lost (ops : List Bool) (v : Nat)
    (hb : ops.count true = ops.count false) (hv : ops.count false ≤ v) :
    Counter.applyOps v ops = v := Counter.interleaving_irrelevant ops v hb hv
example : Counter.applyOps 3 [true, false, false, true, true, false] = 3 := by decide

end ActixNet.C03
